def c01_biguint_subtraction():
    L = []
    qs = {(1, 1), (2, 1), (3, 3), (5, 5), (6, 5), (6, 6), (10, 10), (11, 11), (11, 5), (3, 5), (2, 0), (7, 9)}
    for la in range(0, 12):
        for lb in range(0, 12):
            q = (la, lb) in qs
            L.append("sub2_ge_shape!(c01_%s_sub2_ge_%d_%d, %d, %d);" % (tier(q), la, lb, la, lb))
            if not (lb == 0):  # a < b impossible when b is empty
                L.append("sub2_lt_shape!(c01_%s_sub2_lt_%d_%d_mp, %d, %d);" % (tier(q), la, lb, la, lb))
    qv = {(1, 1), (2, 1), (2, 2), (3, 2), (6, 5), (5, 5), (1, 0), (3, 1), (4, 2)}
    shapes = [(a, b) for a in range(0, 5) for b in range(0, a + 1)] + [(5, 5), (6, 5), (6, 6), (10, 5), (11, 10), (11, 11), (11, 6)]
    for (la, lb) in shapes:
        q = (la, lb) in qv
        L.append("subassign_shape!(c01_%s_subassign_%d_%d, %d, %d);" % (tier(q), la, lb, la, lb))
        L.append("sub_refval_shape!(c01_%s_subrefval_%d_%d, %d, %d);" % (tier(q), la, lb, la, lb))
    for (la, lb) in [(1, 1), (2, 2), (1, 2), (0, 1), (2, 3), (5, 5), (5, 6)]:
        q = (la, lb) in {(1, 1), (1, 2), (2, 2)}
        L.append("subassign_lt_shape!(c01_%s_subassign_lt_%d_%d_mp, %d, %d);" % (tier(q), la, lb, la, lb))
        L.append("sub_refval_lt_shape!(c01_%s_subrefval_lt_%d_%d_mp, %d, %d);" % (tier(q), la, lb, la, lb))
    for la in range(0, 4):
        for lb in range(0, 4):
            q = (la, lb) in {(0, 0), (1, 1), (2, 2), (1, 2), (2, 1), (3, 3)}
            L.append("checked_sub_shape!(c01_%s_checked_sub_%d_%d, %d, %d, %d);" % (tier(q), la, lb, la, lb, max(la, lb, 1)))
    return L
GEN["c01_biguint_subtraction"] = c01_biguint_subtraction

def c01_bigint_addsub():
    L = []
    forms = [("rr", "&a {o} &b"), ("rv", "&a {o} b"), ("vr", "a {o} &b"), ("vv", "a {o} b"),
             ("as", "{{ let mut x = a; x {o}= &b; x }}"), ("av", "{{ let mut x = a; x {o}= b; x }}"),
             ("ck", "a.checked_{n}(&b).unwrap()")]
    quick_forms = {"rr", "vv", "as"}
    shapes_q = [(1, 1), (2, 1), (1, 2)]
    shapes_t = [(2, 2), (3, 2), (2, 3), (3, 3), (1, 3)]
    for sub, o, n in [(False, "+", "add"), (True, "-", "sub")]:
        for fk, ft in forms:
            opx = ft.format(o=o, n=n)
            # zero operands
            for (na, la, nb, lb) in [(False, 0, False, 0), (False, 0, True, 2), (False, 0, False, 1), (True, 2, False, 0), (False, 1, False, 0)]:
                q = fk in quick_forms and (la, lb) in {(0, 0), (0, 2), (2, 0)}
                L.append("bigint_bin_shape!(c01_%s_int%s_%s_%s%d_%s%d, %s, %d, %s, %d, %d, %s, |a, b| %s);" % (
                    tier(q), n, fk, "m" if na else "p", la, "m" if nb else "p", lb, str(na).lower(), la, str(nb).lower(), lb, max(la, lb) + 2, str(sub).lower(), opx))
            for na in (False, True):
                for nb in (False, True):
                    for (la, lb) in shapes_q + shapes_t:
                        q = fk in quick_forms and (la, lb) in shapes_q
                        if fk not in quick_forms and (la, lb) in shapes_t[1:]:
                            continue
                        L.append("bigint_bin_shape!(c01_%s_int%s_%s_%s%d_%s%d, %s, %d, %s, %d, %d, %s, |a, b| %s);" % (
                            tier(q), n, fk, "m" if na else "p", la, "m" if nb else "p", lb, str(na).lower(), la, str(nb).lower(), lb, max(la, lb) + 2, str(sub).lower(), opx))
    return L
GEN["c01_bigint_addsub"] = c01_bigint_addsub
