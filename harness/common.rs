// Shared models, stubs and reference oracles for the injected Kani harnesses.
// Injected (in the scratch copy only) as `crate::biguint::verif_common`, a child of `biguint`,
// so that it can build a BigUint from raw digits without normalisation.
#![allow(dead_code, unused_imports)]
use super::BigUint;
use alloc::vec::Vec;

// ---------------------------------------------------------------------------------------------
// raw constructors / accessors
// ---------------------------------------------------------------------------------------------
#[inline]
pub(crate) fn mk(v: Vec<u64>) -> BigUint {
    BigUint { data: v }
}
#[inline]
pub(crate) fn mk_from(s: &[u64]) -> BigUint {
    if s.is_empty() {
        return BigUint { data: Vec::new() };
    }
    BigUint { data: s.to_vec() }
}
/// digits with capacity == len + extra (exact-fit allocations when extra == 0)
#[inline]
pub(crate) fn mk_cap(s: &[u64], extra: usize) -> BigUint {
    if s.is_empty() && extra == 0 {
        return BigUint { data: Vec::new() };
    }
    let mut v = Vec::with_capacity(s.len() + extra);
    if !s.is_empty() {
        v.extend_from_slice(s);
    }
    BigUint { data: v }
}
#[inline]
pub(crate) fn digits(x: &BigUint) -> &[u64] {
    &x.data
}
#[inline]
pub(crate) fn digits_vec(x: &mut BigUint) -> &mut Vec<u64> {
    &mut x.data
}
#[inline]
pub(crate) fn is_canonical(x: &BigUint) -> bool {
    match x.data.last() {
        Some(&d) => d != 0,
        None => true,
    }
}
/// digit i of x, zero beyond the end
#[inline]
pub(crate) fn dig(x: &[u64], i: usize) -> u64 {
    if i < x.len() {
        x[i]
    } else {
        0
    }
}

// ---------------------------------------------------------------------------------------------
// intrinsic models (Intel SDM semantics of ADC / SBB on 64-bit operands)
// ---------------------------------------------------------------------------------------------
pub(crate) fn stub_addcarry(c_in: u8, a: u64, b: u64, out: &mut u64) -> u8 {
    let s = (a as u128) + (b as u128) + ((c_in != 0) as u128);
    *out = s as u64;
    (s >> 64) as u8
}
pub(crate) fn stub_subborrow(b_in: u8, a: u64, b: u64, out: &mut u64) -> u8 {
    let bi = (b_in != 0) as u128;
    let d = (a as u128).wrapping_sub(b as u128).wrapping_sub(bi);
    *out = d as u64;
    ((a as u128) < (b as u128) + bi) as u8
}

// ---------------------------------------------------------------------------------------------
// contract models of the inline-assembly routines (equivalence with the asm text: Engine B)
// they touch exactly lhs[0..5n), rhs[0..5n) with n = size / 5
// ---------------------------------------------------------------------------------------------
pub(crate) unsafe fn model_add(lhs: *mut u64, rhs: *const u64, size: usize) -> (bool, usize) {
    let n = size / 5;
    let mut c: u8 = 0;
    let mut i = 0usize;
    while i < 5 * n {
        let a = *lhs.add(i);
        let b = *rhs.add(i);
        let s = (a as u128) + (b as u128) + (c as u128);
        *lhs.add(i) = s as u64;
        c = (s >> 64) as u8;
        i += 1;
    }
    (c != 0, 5 * n)
}
pub(crate) unsafe fn model_sub(lhs: *mut u64, rhs: *const u64, size: usize) -> (bool, usize) {
    let n = size / 5;
    let mut c: u8 = 0;
    let mut i = 0usize;
    while i < 5 * n {
        let a = *lhs.add(i);
        let b = *rhs.add(i);
        let d = (a as u128).wrapping_sub(b as u128).wrapping_sub(c as u128);
        *lhs.add(i) = d as u64;
        c = ((a as u128) < (b as u128) + (c as u128)) as u8;
        i += 1;
    }
    (c != 0, 5 * n)
}

/// contract of `div_wide` (the x86 `div` instruction): #DE iff divisor == 0 or hi >= divisor.
/// The precondition is ASSERTED (so a caller that can violate it is reported, also for release
/// builds where the debug_assert in the real function vanishes).
pub(crate) fn model_div_wide(hi: u64, lo: u64, divisor: u64) -> (u64, u64) {
    kani::assert(divisor != 0, "VERIF div_wide: divisor is zero (#DE)");
    kani::assert(hi < divisor, "VERIF div_wide: hi >= divisor (#DE quotient overflow)");
    let n = ((hi as u128) << 64) | (lo as u128);
    let d = divisor as u128;
    ((n / d) as u64, (n % d) as u64)
}

/// contract of `div_wide` with an abstract quotient (no 128-bit division in the formula):
/// returns arbitrary (q, r) with r < divisor; the relation hi*2^64+lo = q*divisor + r is
/// left abstract (callers that only need the range/shape facts use this one).
pub(crate) fn model_div_wide_abstract(hi: u64, _lo: u64, divisor: u64) -> (u64, u64) {
    kani::assert(divisor != 0, "VERIF div_wide: divisor is zero (#DE)");
    kani::assert(hi < divisor, "VERIF div_wide: hi >= divisor (#DE quotient overflow)");
    let q: u64 = kani::any();
    let r: u64 = kani::any();
    kani::assume(r < divisor);
    (q, r)
}

// ---------------------------------------------------------------------------------------------
// allocator-related stubs
// ---------------------------------------------------------------------------------------------
pub(crate) fn noop_shrink<T, A: core::alloc::Allocator>(_v: &mut Vec<T, A>) {}

// ---------------------------------------------------------------------------------------------
// reference oracles over fixed windows (independent of the code under test)
// ---------------------------------------------------------------------------------------------
/// numeric comparison of two digit slices (any lengths, trailing zeros allowed): -1, 0, 1
pub(crate) fn ref_cmp(a: &[u64], b: &[u64]) -> i8 {
    let n = if a.len() > b.len() { a.len() } else { b.len() };
    let mut i = n;
    while i > 0 {
        i -= 1;
        let x = dig(a, i);
        let y = dig(b, i);
        if x < y {
            return -1;
        }
        if x > y {
            return 1;
        }
    }
    0
}
pub(crate) fn ref_is_zero(a: &[u64]) -> bool {
    let mut i = 0;
    while i < a.len() {
        if a[i] != 0 {
            return false;
        }
        i += 1;
    }
    true
}
/// window addition: out = a + b over W digits, returns carry-out
pub(crate) fn ref_add<const W: usize>(a: &[u64], b: &[u64]) -> ([u64; W], bool) {
    let mut out = [0u64; W];
    let mut c: u128 = 0;
    let mut i = 0;
    while i < W {
        let s = dig(a, i) as u128 + dig(b, i) as u128 + c;
        out[i] = s as u64;
        c = s >> 64;
        i += 1;
    }
    (out, c != 0)
}
/// window subtraction: out = a - b (mod 2^(64W)), returns borrow-out (a < b)
pub(crate) fn ref_sub<const W: usize>(a: &[u64], b: &[u64]) -> ([u64; W], bool) {
    let mut out = [0u64; W];
    let mut c: u128 = 0;
    let mut i = 0;
    while i < W {
        let x = dig(a, i) as u128;
        let y = dig(b, i) as u128 + c;
        out[i] = x.wrapping_sub(y) as u64;
        c = (x < y) as u128;
        i += 1;
    }
    (out, c != 0)
}
/// does the canonical big number `x` equal the window value `w`?
pub(crate) fn eq_window(x: &[u64], w: &[u64]) -> bool {
    let n = if x.len() > w.len() { x.len() } else { w.len() };
    let mut i = 0;
    while i < n {
        if dig(x, i) != dig(w, i) {
            return false;
        }
        i += 1;
    }
    true
}
/// two's-complement window of a sign-magnitude value (neg => -mag), W digits
pub(crate) fn ref_tc<const W: usize>(neg: bool, mag: &[u64]) -> [u64; W] {
    let mut out = [0u64; W];
    let mut i = 0;
    let mut carry = neg;
    while i < W {
        let d = dig(mag, i);
        if neg {
            let (v, c) = (!d).overflowing_add(carry as u64);
            out[i] = v;
            carry = c;
        } else {
            out[i] = d;
        }
        i += 1;
    }
    out
}
/// sign-magnitude of a two's-complement window: (neg, magnitude window)
pub(crate) fn ref_from_tc<const W: usize>(w: &[u64; W]) -> (bool, [u64; W]) {
    let neg = (w[W - 1] >> 63) == 1;
    if !neg {
        return (false, *w);
    }
    let mut out = [0u64; W];
    let mut carry = true;
    let mut i = 0;
    while i < W {
        let (v, c) = (!w[i]).overflowing_add(carry as u64);
        out[i] = v;
        carry = c;
        i += 1;
    }
    (true, out)
}
/// fully symbolic digits with a non-zero top digit (canonical operand of exactly N digits)
pub(crate) fn any_canon<const N: usize>() -> [u64; N] {
    let a: [u64; N] = kani::any();
    if N > 0 {
        kani::assume(a[N - 1] != 0);
    }
    a
}

// ---------------------------------------------------------------------------------------------
// bit-level oracles
// ---------------------------------------------------------------------------------------------
/// bit i of the (zero-extended) digit slice
pub(crate) fn ref_bit(x: &[u64], i: u64) -> bool {
    let d = (i / 64) as usize;
    if d >= x.len() {
        return false;
    }
    (x[d] >> (i % 64)) & 1 == 1
}
/// window left shift by 64*digits + bits (bits < 64); returns (window, lost_nonzero)
pub(crate) fn ref_shl<const W: usize>(x: &[u64], digits: usize, bits: u32) -> ([u64; W], bool) {
    let mut out = [0u64; W];
    let mut lost = false;
    let mut i = 0;
    while i < x.len() {
        let lo = if bits == 0 { x[i] } else { x[i] << bits };
        let hi = if bits == 0 { 0 } else { x[i] >> (64 - bits) };
        if i + digits < W {
            out[i + digits] |= lo;
        } else if lo != 0 {
            lost = true;
        }
        if i + digits + 1 < W {
            out[i + digits + 1] |= hi;
        } else if hi != 0 {
            lost = true;
        }
        i += 1;
    }
    (out, lost)
}
/// window logical right shift by 64*digits + bits (bits < 64); returns (window, some one bit was shifted out)
pub(crate) fn ref_shr<const W: usize>(x: &[u64], digits: usize, bits: u32) -> ([u64; W], bool) {
    let mut out = [0u64; W];
    let mut sticky = false;
    let mut i = 0;
    while i < x.len() {
        if i < digits {
            if x[i] != 0 {
                sticky = true;
            }
        } else {
            let j = i - digits;
            let lo = if bits == 0 { x[i] } else { x[i] >> bits };
            if j < W {
                out[j] |= lo;
            }
            if bits != 0 {
                let spill = x[i] << (64 - bits);
                if j >= 1 {
                    if j - 1 < W {
                        out[j - 1] |= spill;
                    }
                } else if spill != 0 {
                    sticky = true;
                }
            }
        }
        i += 1;
    }
    (out, sticky)
}

/// stub for `Vec::with_capacity(n)`: SOUND (capacity >= n always holds) but with a concrete allocation size in the
/// common case n <= 64, which is what keeps the solver's memory model small; the exact capacity is unobservable.
pub(crate) fn vec_with_capacity_64<T>(n: usize) -> Vec<T> {
    if n <= 64 {
        Vec::with_capacity_in(64, alloc::alloc::Global)
    } else {
        Vec::with_capacity_in(n, alloc::alloc::Global)
    }
}

/// stub for `Vec::with_capacity(n)` that drops the hint entirely (empty vector growing on demand). Only valid for callers
/// that fill the vector through push/extend/insert (never through `set_len`/raw writes) - true for every use inside
/// num-bigint (checked by reading; a caller relying on the capacity would show up as a pointer-check failure, not be masked).
/// NOT applied where std's own `collect()` is on the path (it writes the first element through a raw pointer).
pub(crate) fn vec_with_capacity_ignored<T>(_n: usize) -> Vec<T> {
    Vec::new()
}

// ---------------------------------------------------------------------------------------------
// symbolic vs. native-replay mode
// ---------------------------------------------------------------------------------------------
/// `false` in an ordinary (native, concrete-playback) run; every harness that reads ghost state written by stubs replaces it
/// by `yes` through #[kani::stub], so it is the constant `true` under the solver. Ghost-based oracles are used only when it is
/// true; the native replay of a counterexample uses an exact reference computed from the concrete operands instead.
pub(crate) fn symbolic() -> bool {
    false
}
pub(crate) fn yes() -> bool {
    true
}
/// schoolbook reference product over a window (ONLY for native replay: under the solver this would be a 64x64 multiplier per digit pair)
pub(crate) fn ref_mul<const W: usize>(a: &[u64], b: &[u64]) -> [u64; W] {
    let mut out = [0u64; W];
    let mut i = 0;
    while i < a.len() {
        let mut carry: u128 = 0;
        let mut j = 0;
        while i + j < W {
            let bj = if j < b.len() { b[j] as u128 } else { 0 };
            let t = out[i + j] as u128 + (a[i] as u128) * bj + carry;
            out[i + j] = t as u64;
            carry = t >> 64;
            j += 1;
        }
        i += 1;
    }
    out
}

/// corner digit values for the native witness search that confirms an ABSTRACT counterexample (one found with products or
/// quotients replaced by uninterpreted values): the concrete operands of such a counterexample need not trigger the defect
/// with real arithmetic, so the native replay additionally sweeps the same operation over these digits.
pub(crate) const CORNERS: [u64; 12] = [0, 1, 2, 3, u64::MAX, u64::MAX - 1, 1 << 63, (1 << 63) - 1, 0x5555_5555_5555_5556, 0xaaaa_aaaa_aaaa_aaab, 1 << 32, 0xffff_ffff];
/// k-th combination of corner digits for an N-digit operand (k < 12^N)
pub(crate) fn corner_operand<const N: usize>(mut k: usize) -> [u64; N] {
    let mut o = [0u64; N];
    let mut i = 0;
    while i < N {
        o[i] = CORNERS[k % 12];
        k /= 12;
        i += 1;
    }
    o
}
pub(crate) fn pow12(n: usize) -> usize {
    let mut r = 1;
    let mut i = 0;
    while i < n {
        r *= 12;
        i += 1;
    }
    r
}
