def c05_bigint():
    L = []
    sg = lambda n: "m" if n else "p"
    for nb in (False, True):
        for nm in (False, True):
            for (lb, lm, lx) in [(1, 1, 0), (1, 1, 1), (2, 1, 1), (0, 1, 0), (1, 2, 1), (1, 2, 2), (2, 2, 2), (0, 2, 1)]:
                if lb == 0 and nb:
                    continue
                q = (lb, lm, lx) in {(1, 1, 0), (1, 1, 1), (0, 1, 0), (1, 2, 2)}
                L.append("modinv_shape!(c05_%s_modinv_%s%d_%s%d_x%d, %s, %d, %s, %d, modinv_c%d);" % (
                    tier(q), sg(nb), lb, sg(nm), lm, lx, str(nb).lower(), lb, str(nm).lower(), lm, lx))
            L.append("modinv_shape!(c05_q_modinv_%s1_%s1_none, %s, 1, %s, 1, modinv_none);" % (sg(nb), sg(nm), str(nb).lower(), str(nm).lower()))
            for (lb, le, lm, lx) in [(1, 1, 1, 0), (1, 1, 1, 1), (1, 0, 1, 1), (0, 1, 1, 0), (2, 1, 2, 2), (1, 2, 2, 1), (1, 1, 2, 0), (0, 0, 1, 1), (1, 0, 1, 0)]:
                if lb == 0 and nb:
                    continue
                q = (lb, le, lm, lx) in {(1, 1, 1, 0), (1, 1, 1, 1), (1, 0, 1, 1), (2, 1, 2, 2)}
                L.append("modpow_shape!(c05_%s_modpow_%s%d_e%d_%s%d_x%d, %s, %d, %d, %s, %d, modpow_c%d);" % (
                    tier(q), sg(nb), lb, le, sg(nm), lm, lx, str(nb).lower(), lb, le, str(nm).lower(), lm, lx))
    L.append("modpow_zero_modulus_mp!(c05_q_modpow_zero_modulus_p1_e1_mp, false, 1, 1);")
    L.append("modpow_zero_modulus_mp!(c05_t_modpow_zero_modulus_m2_e0_mp, true, 2, 0);")
    L.append("modpow_neg_exp_mp!(c05_q_modpow_neg_exp_p1_p_mp, false, 1, false);")
    L.append("modpow_neg_exp_mp!(c05_t_modpow_neg_exp_m1_m_mp, true, 1, true);")
    return L
GEN["c05_bigint"] = c05_bigint
