// C19 — sign / negation / identity helpers (anchored in src/bigint.rs)
#![allow(unused_imports, dead_code)]
use super::*;
use crate::bigint::verif_icommon::*;
use crate::bigint::ToBigInt;
use crate::biguint::verif_common as vc;
use crate::biguint::ToBigUint;
use alloc::{vec, vec::Vec};
use core::convert::TryFrom;
use num_traits::{One, Signed, Zero};

const W: usize = 4;

fn sign_from(k: u8) -> Sign {
    match k {
        0 => Minus,
        1 => NoSign,
        _ => Plus,
    }
}

// Sign negation and multiplication: exhaustive over the 3 / 3x3 values
#[kani::proof]
#[kani::unwind(5)]
fn c19_q_sign_rules() {
    let mut i = 0u8;
    while i < 3 {
        let s = sign_from(i);
        let n = -s;
        kani::assert((s == NoSign) == (n == NoSign), "VERIF -NoSign");
        kani::assert(s == NoSign || n != s, "VERIF -s == s");
        kani::assert(-n == s, "VERIF --s != s");
        let mut j = 0u8;
        while j < 3 {
            let t = sign_from(j);
            let p = s * t;
            let sv = i as i8 - 1;
            let tv = j as i8 - 1;
            let pv = match p {
                Minus => -1i8,
                NoSign => 0,
                Plus => 1,
            };
            kani::assert(pv == sv * tv, "VERIF Sign * Sign is not the rule of signs");
            j += 1;
        }
        i += 1;
    }
}

// unary helpers on a BigInt of concrete sign and length, all digits symbolic
macro_rules! unary_shape {
    ($name:ident, $neg:expr, $l:expr) => {
        #[kani::proof]
        #[kani::unwind(34)]
        fn $name() {
            let m0: [u64; $l] = vc::any_canon::<$l>();
            let x = mkint($neg, &m0);
            let xt = tc::<W>(&x);
            let is_zero = $l == 0;
            // negation by value and by reference
            let n1 = -x.clone();
            let n2 = -&x;
            check_int::<W>(&n1, &neg_w(&xt));
            check_int::<W>(&n2, &neg_w(&xt));
            // abs / signum / predicates / accessors
            let a = x.abs();
            check_int::<W>(&a, &(if $neg { neg_w(&xt) } else { xt }));
            let sg = x.signum();
            let one_w: [u64; W] = [1, 0, 0, 0];
            let esg = if is_zero { [0u64; W] } else if $neg { neg_w(&one_w) } else { one_w };
            check_int::<W>(&sg, &esg);
            kani::assert(x.is_positive() == (!is_zero && !$neg), "VERIF is_positive");
            kani::assert(x.is_negative() == (!is_zero && $neg), "VERIF is_negative");
            kani::assert(x.sign() == (if is_zero { NoSign } else if $neg { Minus } else { Plus }), "VERIF sign()");
            kani::assert(vc::eq_window(vc::digits(x.magnitude()), &m0) && vc::digits(x.magnitude()).len() == $l, "VERIF magnitude()");
            kani::assert(x.is_zero() == is_zero, "VERIF is_zero");
            kani::assert(x.is_one() == (!$neg && $l == 1 && m0[0] == 1), "VERIF is_one");
            // to_biguint / TryFrom succeed exactly for non-negative values
            let nonneg = is_zero || !$neg;
            match x.to_biguint() {
                Some(u) => kani::assert(nonneg && vc::eq_window(vc::digits(&u), &m0) && vc::is_canonical(&u), "VERIF to_biguint value"),
                None => kani::assert(!nonneg, "VERIF to_biguint None for a non-negative value"),
            }
            match ToBigUint::to_biguint(&x) {
                Some(u) => kani::assert(nonneg && vc::eq_window(vc::digits(&u), &m0), "VERIF ToBigUint value"),
                None => kani::assert(!nonneg, "VERIF ToBigUint None for a non-negative value"),
            }
            match BigUint::try_from(&x) {
                Ok(u) => kani::assert(nonneg && vc::eq_window(vc::digits(&u), &m0), "VERIF TryFrom<&BigInt> value"),
                Err(_) => kani::assert(!nonneg, "VERIF TryFrom<&BigInt> Err for a non-negative value"),
            }
            match BigUint::try_from(x.clone()) {
                Ok(u) => kani::assert(nonneg && vc::eq_window(vc::digits(&u), &m0), "VERIF TryFrom<BigInt> value"),
                Err(e) => {
                    kani::assert(!nonneg, "VERIF TryFrom<BigInt> Err for a non-negative value");
                    let back = e.into_original();
                    check_int::<W>(&back, &xt);
                }
            }
            match x.to_bigint() {
                Some(y) => check_int::<W>(&y, &xt),
                None => kani::assert(false, "VERIF BigInt::to_bigint None"),
            }
            // into_parts / from_biguint are mutually inverse on canonical values
            let (s, mg) = x.clone().into_parts();
            let back = BigInt::from_biguint(s, mg);
            check_int::<W>(&back, &xt);
            // set_zero / set_one on a value that had a larger buffer
            let mut z = x.clone();
            z.set_zero();
            check_int::<W>(&z, &[0u64; W]);
            kani::assert(z.is_zero(), "VERIF set_zero/is_zero");
            let mut o = x.clone();
            o.set_one();
            check_int::<W>(&o, &one_w);
            kani::assert(o.is_one(), "VERIF set_one/is_one");
        }
    };
}

// from_biguint with every (requested sign, magnitude) pair, including inconsistent ones
macro_rules! from_biguint_shape {
    ($name:ident, $sk:expr, $l:expr) => {
        #[kani::proof]
        #[kani::unwind(34)]
        #[kani::stub(alloc::vec::Vec::shrink_to_fit, vc::noop_shrink)]
        fn $name() {
            let m0: [u64; $l] = vc::any_canon::<$l>();
            let s = sign_from($sk);
            let x = BigInt::from_biguint(s, vc::mk_from(&m0));
            kani::assert(int_canonical(&x), "VERIF from_biguint result not canonical");
            let e = if $sk == 1 { [0u64; W] } else { vc::ref_tc::<W>($sk == 0, &m0) };
            check_int::<W>(&x, &e);
            let (s2, m2) = x.into_parts();
            kani::assert((s2 == NoSign) == vc::digits(&m2).is_empty(), "VERIF into_parts NoSign iff zero");
            // From<BigUint>, ToBigInt for BigUint
            let y = BigInt::from(vc::mk_from(&m0));
            check_int::<W>(&y, &vc::ref_tc::<W>(false, &m0));
            match vc::mk_from(&m0).to_bigint() {
                Some(y) => check_int::<W>(&y, &vc::ref_tc::<W>(false, &m0)),
                None => kani::assert(false, "VERIF BigUint::to_bigint None"),
            }
        }
    };
}

// abs_sub(x, y) = max(x - y, 0)
macro_rules! abs_sub_shape {
    ($name:ident, $nx:expr, $lx:expr, $ny:expr, $ly:expr) => {
        #[kani::proof]
        #[kani::unwind(34)]
        #[kani::stub(core::arch::x86_64::_addcarry_u64, vc::stub_addcarry)]
        #[kani::stub(core::arch::x86_64::_subborrow_u64, vc::stub_subborrow)]
        #[kani::stub(crate::biguint::addition::schoolbook_add_assign_x86_64, vc::model_add)]
        #[kani::stub(crate::biguint::subtraction::schoolbook_sub_assign_x86_64, vc::model_sub)]
        fn $name() {
            let x0: [u64; $lx] = vc::any_canon::<$lx>();
            let y0: [u64; $ly] = vc::any_canon::<$ly>();
            let x = mkint($nx, &x0);
            let y = mkint($ny, &y0);
            let r = x.abs_sub(&y);
            let d = sub_w(&tc::<W>(&x), &tc::<W>(&y));
            let e = if is_neg_w(&d) { [0u64; W] } else { d };
            check_int::<W>(&r, &e);
            kani::cover!($nx != $ny || $lx != $ly || vc::digits(&r.data).is_empty(), "reach:clamped_to_zero");
        }
    };
}

#[kani::proof]
#[kani::unwind(34)]
fn c19_q_constants() {
    let z = [0u64; W];
    let one_w: [u64; W] = [1, 0, 0, 0];
    check_int::<W>(&BigInt::zero(), &z);
    check_int::<W>(&BigInt::ZERO, &z);
    check_int::<W>(&BigInt::default(), &z);
    check_int::<W>(&BigInt::one(), &one_w);
    kani::assert(BigInt::zero().is_zero() && !BigInt::one().is_zero(), "VERIF is_zero on constants");
    kani::assert(BigInt::one().is_one() && !BigInt::zero().is_one(), "VERIF is_one on constants");
    let uz = BigUint::zero();
    let uo = BigUint::one();
    kani::assert(vc::digits(&uz).is_empty() && vc::digits(&BigUint::ZERO).is_empty() && vc::digits(&BigUint::default()).is_empty(), "VERIF BigUint zero constants");
    kani::assert(vc::digits(&uo).len() == 1 && vc::digits(&uo)[0] == 1, "VERIF BigUint::one");
    kani::assert(uz.is_zero() && !uo.is_zero() && uo.is_one() && !uz.is_one(), "VERIF BigUint predicates");
}

macro_rules! biguint_identity_shape {
    ($name:ident, $l:expr) => {
        #[kani::proof]
        #[kani::unwind(34)]
        fn $name() {
            let m0: [u64; $l] = vc::any_canon::<$l>();
            let x = vc::mk_cap(&m0, 2);
            kani::assert(x.is_zero() == ($l == 0), "VERIF BigUint::is_zero");
            kani::assert(x.is_one() == ($l == 1 && m0[0] == 1), "VERIF BigUint::is_one");
            let mut z = x.clone();
            z.set_zero();
            kani::assert(vc::digits(&z).is_empty() && z.is_zero(), "VERIF BigUint::set_zero");
            let mut o = x.clone();
            o.set_one();
            kani::assert(vc::digits(&o).len() == 1 && vc::digits(&o)[0] == 1 && o.is_one(), "VERIF BigUint::set_one");
        }
    };
}

// BEGIN GENERATED c19_bigint
unary_shape!(c19_q_unary_p0, false, 0);
unary_shape!(c19_q_unary_p1, false, 1);
unary_shape!(c19_q_unary_m1, true, 1);
unary_shape!(c19_q_unary_p2, false, 2);
unary_shape!(c19_q_unary_m2, true, 2);
unary_shape!(c19_t_unary_m3, true, 3);
unary_shape!(c19_t_unary_p3, false, 3);
from_biguint_shape!(c19_q_from_biguint_s0_l0, 0, 0);
from_biguint_shape!(c19_q_from_biguint_s0_l1, 0, 1);
from_biguint_shape!(c19_q_from_biguint_s0_l2, 0, 2);
from_biguint_shape!(c19_q_from_biguint_s1_l0, 1, 0);
from_biguint_shape!(c19_q_from_biguint_s1_l1, 1, 1);
from_biguint_shape!(c19_q_from_biguint_s1_l2, 1, 2);
from_biguint_shape!(c19_q_from_biguint_s2_l0, 2, 0);
from_biguint_shape!(c19_q_from_biguint_s2_l1, 2, 1);
from_biguint_shape!(c19_q_from_biguint_s2_l2, 2, 2);
abs_sub_shape!(c19_q_abs_sub_p1_p1, false, 1, false, 1);
abs_sub_shape!(c19_q_abs_sub_p2_p1, false, 2, false, 1);
abs_sub_shape!(c19_t_abs_sub_p1_p2, false, 1, false, 2);
abs_sub_shape!(c19_t_abs_sub_p2_p2, false, 2, false, 2);
abs_sub_shape!(c19_q_abs_sub_p1_m1, false, 1, true, 1);
abs_sub_shape!(c19_q_abs_sub_p2_m1, false, 2, true, 1);
abs_sub_shape!(c19_t_abs_sub_p1_m2, false, 1, true, 2);
abs_sub_shape!(c19_t_abs_sub_p2_m2, false, 2, true, 2);
abs_sub_shape!(c19_q_abs_sub_m1_p1, true, 1, false, 1);
abs_sub_shape!(c19_q_abs_sub_m2_p1, true, 2, false, 1);
abs_sub_shape!(c19_t_abs_sub_m1_p2, true, 1, false, 2);
abs_sub_shape!(c19_t_abs_sub_m2_p2, true, 2, false, 2);
abs_sub_shape!(c19_q_abs_sub_m1_m1, true, 1, true, 1);
abs_sub_shape!(c19_q_abs_sub_m2_m1, true, 2, true, 1);
abs_sub_shape!(c19_t_abs_sub_m1_m2, true, 1, true, 2);
abs_sub_shape!(c19_t_abs_sub_m2_m2, true, 2, true, 2);
abs_sub_shape!(c19_q_abs_sub_z_p0_p0, false, 0, false, 0);
abs_sub_shape!(c19_q_abs_sub_z_p0_m1, false, 0, true, 1);
abs_sub_shape!(c19_q_abs_sub_z_m1_p0, true, 1, false, 0);
abs_sub_shape!(c19_q_abs_sub_z_p0_p2, false, 0, false, 2);
biguint_identity_shape!(c19_q_biguint_identity_0, 0);
biguint_identity_shape!(c19_q_biguint_identity_1, 1);
biguint_identity_shape!(c19_q_biguint_identity_2, 2);
biguint_identity_shape!(c19_q_biguint_identity_3, 3);
// END GENERATED
