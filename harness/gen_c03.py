C03_APIS = ["DIV_REM", "DIV", "REM", "DIV_FLOOR", "MOD_FLOOR", "DIV_MOD_FLOOR", "DIV_CEIL", "DIV_EUCLID", "REM_EUCLID",
            "DIV_REM_EUCLID", "CHECKED_DIV", "CHECKED_DIV_EUCLID", "CHECKED_REM_EUCLID", "CHECKED_DIV_REM_EUCLID",
            "DIV_VV", "REM_VV", "DIV_ASSIGN", "REM_ASSIGN"]

def c03_bigint():
    L = []
    shapes_q = [(1, 1, 1, 1), (1, 1, 1, 0), (1, 1, 0, 1), (2, 1, 2, 1)]
    shapes_t = [(2, 1, 1, 1), (2, 1, 1, 0), (2, 1, 2, 0), (2, 2, 1, 2), (2, 2, 1, 1), (2, 2, 0, 2), (2, 2, 1, 0), (1, 2, 0, 1)]
    quick_apis = {"DIV_REM", "REM", "DIV_FLOOR", "MOD_FLOOR", "DIV_MOD_FLOOR", "DIV_CEIL", "DIV_EUCLID", "REM_EUCLID", "DIV_REM_EUCLID", "CHECKED_DIV_REM_EUCLID"}
    for api in C03_APIS:
        for na in (False, True):
            for nb in (False, True):
                for (la, lb, lq, lr) in shapes_q + shapes_t:
                    # every API form is in the quick tier at least at the one-digit shape with a non-zero remainder (all four sign pairs)
                    q = (api in quick_apis and (la, lb, lq, lr) in shapes_q) or (la, lb, lq, lr) == (1, 1, 1, 1)
                    if api not in quick_apis and (la, lb, lq, lr) in shapes_t[3:]:
                        continue
                    L.append("conv_shape!(c03_%s_conv_%s_%s%d_%s%d_q%d_r%d, API_%s, %s, %d, %s, %d, divrem_contract_%d_%d);" % (
                        tier(q), api.lower(), "m" if na else "p", la, "m" if nb else "p", lb, lq, lr, api, str(na).lower(), la, str(nb).lower(), lb, lq, lr))
        # zero dividend
        for nb in (False, True):
            L.append("conv_shape!(c03_%s_conv_%s_z0_%s1_q0_r0, API_%s, false, 0, %s, 1, divrem_contract_0_0);" % (
                tier(api in quick_apis), api.lower(), "m" if nb else "p", api, str(nb).lower()))
    for api in C03_APIS:
        if api.startswith("CHECKED"):
            continue
        for (na, la) in [(False, 0), (False, 1), (True, 2)]:
            q = la == 1
            L.append("zero_div_mp!(c03_%s_zero_%s_%s%d_mp, API_%s, %s, %d);" % (tier(q), api.lower(), "m" if na else "p", la, api, str(na).lower(), la))
    for (na, la) in [(False, 0), (False, 1), (True, 1), (True, 2)]:
        L.append("zero_div_checked!(c03_%s_zero_checked_%s%d, %s, %d);" % (tier(la <= 1), "m" if na else "p", la, str(na).lower(), la))
    return L
GEN["c03_bigint"] = c03_bigint


def c03_biguint_division():
    L = []
    for which in ("BY_REF", "BY_VAL"):
        for (lu, ld, lq, lr) in [(2, 2, 1, 2), (2, 2, 1, 1), (3, 2, 2, 2), (3, 2, 1, 0), (3, 2, 2, 1), (3, 2, 1, 2)]:
            for s in (0, 1, 7, 31, 32, 62, 63):
                q = False   # the general path does not finish within the quick cap (two shifts + core contract + de-normalisation): thorough-tier attempts only
                if s not in (0, 1, 63) or (lu, ld, lq, lr) not in {(2, 2, 1, 2), (3, 2, 2, 1)}:
                    continue
                L.append("wrapper_shape!(c03_%s_wrap_%s_%d_%d_q%d_r%d_s%d, %s, %d, %d, core_c_%d_%d, lz_%d);" % (
                    tier(q), which[3:].lower(), lu, ld, lq, lr, s, which, lu, ld, lq, lr, s))
    return L
GEN["c03_biguint_division"] = c03_biguint_division
