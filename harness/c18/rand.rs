// C18 — random generation (anchored in src/bigrand.rs; needs --features rand). The RNG is symbolic: every word it hands out
// is an unconstrained solver variable, recorded in a ghost list so that the result can be compared with the stream.
#![allow(unused_imports, dead_code, static_mut_refs)]
use super::*;
use crate::bigint::verif_icommon::*;
use crate::biguint::verif_common as vc;
use alloc::{vec, vec::Vec};
use rand::distributions::uniform::UniformSampler;
use rand::distributions::Distribution;
use rand::{Error, RngCore};

const MAXW: usize = 24;
struct SymRng {
    w: [u32; MAXW], // words handed out so far (little-endian byte order inside a word)
    n: usize,
    budget: usize,  // paths that draw more than `budget` words are cut (stated bound on rejection chains)
    native_stream: u8, // native replay of harnesses whose sampler is under contract: 0 = solver values, 1 = all zeros, 2 = all ones, 3 = counting
}
impl SymRng {
    fn new(budget: usize) -> Self {
        SymRng { w: [0; MAXW], n: 0, budget, native_stream: 0 }
    }
    fn draw(&mut self) -> u32 {
        if self.native_stream != 0 {
            self.n += 1;
            return match self.native_stream { 1 => 0, 2 => u32::MAX, _ => (self.n as u32).wrapping_mul(0x9e37_79b9) };
        }
        kani::assume(self.n < self.budget && self.n < MAXW);
        let v: u32 = kani::any();
        self.w[self.n] = v;
        self.n += 1;
        v
    }
}
impl RngCore for SymRng {
    fn next_u32(&mut self) -> u32 {
        self.draw()
    }
    fn next_u64(&mut self) -> u64 {
        let lo = self.draw() as u64;
        let hi = self.draw() as u64;
        lo | (hi << 32)
    }
    fn fill_bytes(&mut self, dest: &mut [u8]) {
        let mut i = 0;
        while i < dest.len() {
            let v = self.draw().to_le_bytes();
            let mut j = 0;
            while j < 4 && i + j < dest.len() {
                dest[i + j] = v[j];
                j += 1;
            }
            i += 4;
        }
    }
    fn try_fill_bytes(&mut self, dest: &mut [u8]) -> Result<(), Error> {
        self.fill_bytes(dest);
        Ok(())
    }
}

/// the value gen_biguint(n) must return for the words w[start..]: ceil(n/32) words, little-endian base 2^32, top word >> (32 - n%32)
fn expected_bits<const W: usize>(w: &[u32; MAXW], start: usize, n: u64) -> [u64; W] {
    let words = ((n + 31) / 32) as usize;
    let rem = (n % 32) as u32;
    let mut e = [0u64; W];
    let mut i = 0;
    while i < words {
        let mut x = w[start + i];
        if i == words - 1 && rem > 0 {
            x >>= 32 - rem;
        }
        e[i / 2] |= (x as u64) << (32 * (i % 2));
        i += 1;
    }
    e
}

macro_rules! gen_biguint_shape {
    ($name:ident, $n:expr, $w:expr) => {
        #[kani::proof]
        #[kani::unwind(34)]
        #[kani::stub(alloc::vec::Vec::shrink_to_fit, vc::noop_shrink)]
        fn $name() {
            let mut rng = SymRng::new(MAXW);
            let r = rng.gen_biguint($n);
            kani::assert(rng.n == (($n + 31) / 32) as usize, "VERIF gen_biguint drew a different number of 32-bit words than ceil(n/32)");
            let e = expected_bits::<$w>(&rng.w, 0, $n);
            kani::assert(vc::is_canonical(&r), "VERIF gen_biguint result not canonical");
            kani::assert(vc::eq_window(vc::digits(&r), &e), "VERIF gen_biguint is not the documented function of the RNG stream");
            kani::assert(r.bits() <= $n, "VERIF gen_biguint(n) >= 2^n");
            let d: BigUint = RandomBits::new($n).sample(&mut SymRng::new(MAXW));
            kani::assert(d.bits() <= $n, "VERIF RandomBits >= 2^n");
        }
    };
}
macro_rules! gen_bigint_shape {
    ($name:ident, $n:expr, $w:expr) => {
        #[kani::proof]
        #[kani::unwind(34)]
        #[kani::stub(alloc::vec::Vec::shrink_to_fit, vc::noop_shrink)]
        fn $name() {
            // at most two redraws of a zero magnitude (budget in words)
            let per = (($n + 31) / 32) as usize + 1;
            let mut rng = SymRng::new(3 * per);
            let r = rng.gen_bigint($n);
            kani::assert(int_canonical(&r) && r.bits() <= $n, "VERIF gen_bigint(n) outside (-2^n, 2^n) or not canonical");
            // the last candidate drawn decides magnitude and sign
            let start = rng.n - per;
            let e = expected_bits::<$w>(&rng.w, start, $n);
            kani::assert(vc::eq_window(mag(&r), &e), "VERIF gen_bigint magnitude is not the last candidate of the stream");
            let signbit = (rng.w[rng.n - 1] as i32) < 0;
            kani::assert(mag(&r).is_empty() || (is_neg(&r) == !signbit), "VERIF gen_bigint sign is not taken from the stream");
            kani::cover!(rng.n == 2 * per, "reach:zero_redrawn_once");
            kani::cover!($n == 0 || is_neg(&r), "reach:negative");
        }
    };
}

// gen_biguint_below(b): the first candidate of b.bits() bits that is < b; bits() is pinned to the query's concrete K
fn bits_pinned<const K: u64>(x: &BigUint) -> u64 {
    let d = vc::digits(x);
    let real = if d.is_empty() { 0 } else { 64 * d.len() as u64 - d[d.len() - 1].leading_zeros() as u64 };
    kani::assume(real == K);
    K
}
macro_rules! pinned { ($f:ident, $k:expr) => { fn $f(x: &BigUint) -> u64 { bits_pinned::<$k>(x) } }; }
pinned!(bits_1, 1);
pinned!(bits_5, 5);
pinned!(bits_33, 33);
pinned!(bits_64, 64);
pinned!(bits_65, 65);
pinned!(bits_70, 70);

macro_rules! below_shape {
    ($name:ident, $l:expr, $k:expr, $bits:ident, $w:expr) => {
        #[kani::proof]
        #[kani::unwind(34)]
        #[kani::stub(alloc::vec::Vec::shrink_to_fit, vc::noop_shrink)]
        #[kani::stub(crate::biguint::BigUint::bits, $bits)]
        fn $name() {
            let b0: [u64; $l] = vc::any_canon::<$l>();
            let b = vc::mk_from(&b0);
            let per = (($k + 31) / 32) as usize;
            let mut rng = SymRng::new(3 * per); // up to two rejected candidates
            let r = rng.gen_biguint_below(&b);
            kani::assert(vc::is_canonical(&r) && vc::ref_cmp(vc::digits(&r), &b0) < 0, "VERIF gen_biguint_below(b) >= b");
            // it is the LAST candidate drawn, and every earlier candidate was >= b (first candidate below the bound)
            let tries = rng.n / per;
            kani::assert(rng.n == tries * per && tries >= 1, "VERIF candidates are not whole ceil(bits/32)-word groups");
            let e = expected_bits::<$w>(&rng.w, (tries - 1) * per, $k);
            kani::assert(vc::eq_window(vc::digits(&r), &e), "VERIF gen_biguint_below did not return the candidate it drew");
            if tries >= 2 {
                let first = expected_bits::<$w>(&rng.w, 0, $k);
                kani::assert(vc::ref_cmp(&first, &b0) >= 0, "VERIF gen_biguint_below skipped a candidate that was below the bound");
            }
            kani::cover!(tries == 2, "reach:rejected_once");
        }
    };
}
#[kani::proof]
#[kani::unwind(8)]
fn c18_q_below_zero_mp() {
    let mut rng = SymRng::new(4);
    let _ = rng.gen_biguint_below(&BigUint::ZERO);
    kani::assert(false, "VERIF_SURVIVED gen_biguint_below(0) returned");
}

// ranges: result = low + candidate, within [low, high); empty / inverted ranges panic.
// gen_biguint_below is under its contract here (below_cN, defined further down).
macro_rules! urange_shape {
    ($name:ident, $ll:expr, $lh:expr, $stub:ident, $which:expr) => {
        #[kani::proof]
        #[kani::unwind(34)]
        #[kani::stub(alloc::vec::Vec::shrink_to_fit, vc::noop_shrink)]
        #[kani::stub(<SymRng as RandBigInt>::gen_biguint_below, $stub)]
        #[kani::stub(crate::biguint::verif_common::symbolic, crate::biguint::verif_common::yes)]
        #[kani::stub(core::arch::x86_64::_addcarry_u64, vc::stub_addcarry)]
        #[kani::stub(core::arch::x86_64::_subborrow_u64, vc::stub_subborrow)]
        #[kani::stub(crate::biguint::addition::schoolbook_add_assign_x86_64, vc::model_add)]
        #[kani::stub(crate::biguint::subtraction::schoolbook_sub_assign_x86_64, vc::model_sub)]
        fn $name() {
            let l0: [u64; $ll] = vc::any_canon::<$ll>();
            let h0: [u64; $lh] = vc::any_canon::<$lh>();
            kani::assume(vc::ref_cmp(&l0, &h0) < 0 || ($which == 3 && vc::ref_cmp(&l0, &h0) == 0));
            let lo = vc::mk_from(&l0);
            let hi = vc::mk_from(&h0);
            if !vc::symbolic() {
                // native replay: the real sampler on three deterministic streams (the candidate of the abstract counterexample is not reproducible)
                let mut st = 1u8;
                while st <= 3 {
                    let mut rng = SymRng::new(MAXW);
                    rng.native_stream = st;
                    let r = if $which == 0 { rng.gen_biguint_range(&lo, &hi) } else if $which == 1 { UniformBigUint::new(&lo, &hi).sample(&mut rng) }
                            else if $which == 2 { UniformBigUint::sample_single(&lo, &hi, &mut rng) } else { UniformBigUint::new_inclusive(&lo, &hi).sample(&mut rng) };
                    let c = vc::ref_cmp(vc::digits(&r), &h0);
                    kani::assert(vc::is_canonical(&r) && vc::ref_cmp(vc::digits(&r), &l0) >= 0 && (c < 0 || ($which == 3 && c == 0)), "VERIF range sample outside the range");
                    st += 1;
                }
                return;
            }
            let mut rng = SymRng::new(2);
            let r = if $which == 0 {
                rng.gen_biguint_range(&lo, &hi)
            } else if $which == 1 {
                UniformBigUint::new(&lo, &hi).sample(&mut rng)
            } else if $which == 2 {
                UniformBigUint::sample_single(&lo, &hi, &mut rng)
            } else {
                UniformBigUint::new_inclusive(&lo, &hi).sample(&mut rng)
            };
            kani::assert(vc::is_canonical(&r), "VERIF range sample not canonical");
            if vc::symbolic() {
                let (e, _) = vc::ref_add::<3>(&l0, unsafe { &GH_CAND });
                kani::assert(vc::eq_window(vc::digits(&r), &e), "VERIF range sample is not low + candidate");
            }
            let c = vc::ref_cmp(vc::digits(&r), &h0);
            kani::assert(vc::ref_cmp(vc::digits(&r), &l0) >= 0 && (c < 0 || ($which == 3 && c == 0)), "VERIF range sample outside the range");
            kani::cover!($which != 3 || c == 0, "reach:inclusive_upper_bound");
        }
    };
}
macro_rules! irange_shape {
    ($name:ident, $nl:expr, $ll:expr, $nh:expr, $lh:expr, $stub:ident, $which:expr) => {
        #[kani::proof]
        #[kani::unwind(34)]
        #[kani::stub(alloc::vec::Vec::shrink_to_fit, vc::noop_shrink)]
        #[kani::stub(<SymRng as RandBigInt>::gen_biguint_below, $stub)]
        #[kani::stub(crate::biguint::verif_common::symbolic, crate::biguint::verif_common::yes)]
        #[kani::stub(core::arch::x86_64::_addcarry_u64, vc::stub_addcarry)]
        #[kani::stub(core::arch::x86_64::_subborrow_u64, vc::stub_subborrow)]
        #[kani::stub(crate::biguint::addition::schoolbook_add_assign_x86_64, vc::model_add)]
        #[kani::stub(crate::biguint::subtraction::schoolbook_sub_assign_x86_64, vc::model_sub)]
        fn $name() {
            let l0: [u64; $ll] = vc::any_canon::<$ll>();
            let h0: [u64; $lh] = vc::any_canon::<$lh>();
            let lo = mkint($nl, &l0);
            let hi = mkint($nh, &h0);
            let d = sub_w(&tc::<4>(&hi), &tc::<4>(&lo));
            kani::assume(!is_neg_w(&d) && (!vc::ref_is_zero(&d) || $which == 3));
            if !vc::symbolic() {
                let mut st = 1u8;
                while st <= 3 {
                    let mut rng = SymRng::new(MAXW);
                    rng.native_stream = st;
                    let r = if $which == 0 { rng.gen_bigint_range(&lo, &hi) } else if $which == 1 { UniformBigInt::new(&lo, &hi).sample(&mut rng) }
                            else if $which == 2 { UniformBigInt::sample_single(&lo, &hi, &mut rng) } else { UniformBigInt::new_inclusive(&lo, &hi).sample(&mut rng) };
                    let rl = sub_w(&tc::<4>(&r), &tc::<4>(&lo));
                    let hr = sub_w(&tc::<4>(&hi), &tc::<4>(&r));
                    kani::assert(int_canonical(&r) && !is_neg_w(&rl) && !is_neg_w(&hr) && (!vc::ref_is_zero(&hr) || $which == 3), "VERIF BigInt range sample outside the range");
                    st += 1;
                }
                return;
            }
            let mut rng = SymRng::new(2);
            let r = if $which == 0 {
                rng.gen_bigint_range(&lo, &hi)
            } else if $which == 1 {
                UniformBigInt::new(&lo, &hi).sample(&mut rng)
            } else if $which == 2 {
                UniformBigInt::sample_single(&lo, &hi, &mut rng)
            } else {
                UniformBigInt::new_inclusive(&lo, &hi).sample(&mut rng)
            };
            if vc::symbolic() {
                let cand = vc::ref_tc::<4>(false, unsafe { &GH_CAND });
                check_int::<4>(&r, &add_w(&tc::<4>(&lo), &cand));
            }
            let rl = sub_w(&tc::<4>(&r), &tc::<4>(&lo));
            let hr = sub_w(&tc::<4>(&hi), &tc::<4>(&r));
            kani::assert(!is_neg_w(&rl) && !is_neg_w(&hr) && (!vc::ref_is_zero(&hr) || $which == 3), "VERIF BigInt range sample outside the range");
        }
    };
}
macro_rules! urange_empty_mp {
    ($name:ident, $which:expr) => {
        #[kani::proof]
        #[kani::unwind(34)]
        fn $name() {
            let l0: [u64; 1] = vc::any_canon::<1>();
            let h0: [u64; 1] = vc::any_canon::<1>();
            kani::assume(l0[0] >= h0[0]);
            let lo = vc::mk_from(&l0);
            let hi = vc::mk_from(&h0);
            let mut rng = SymRng::new(6);
            if $which == 0 {
                let _ = rng.gen_biguint_range(&lo, &hi);
            } else if $which == 1 {
                let _ = UniformBigUint::new(&lo, &hi);
            } else {
                let _ = rng.gen_bigint_range(&BigInt::from(lo), &BigInt::from(hi));
            }
            kani::assert(false, "VERIF_SURVIVED empty or inverted range accepted");
        }
    };
}
// range samplers with gen_biguint_below under its CONTRACT (decided above): an arbitrary canonical value below the bound
static mut GH_CAND: [u64; 3] = [0; 3];
fn below_contract<R: Rng + ?Sized, const LR: usize>(_rng: &mut R, bound: &BigUint) -> BigUint {
    assert!(!vc::digits(bound).is_empty());
    let r = vc::any_canon::<LR>();
    kani::assume(vc::ref_cmp(&r, vc::digits(bound)) < 0);
    unsafe {
        GH_CAND = [0; 3];
        let mut i = 0;
        while i < LR {
            GH_CAND[i] = r[i];
            i += 1;
        }
    }
    vc::mk_from(&r)
}
fn below_c0<R: Rng + ?Sized>(rng: &mut R, b: &BigUint) -> BigUint { below_contract::<R, 0>(rng, b) }
fn below_c1<R: Rng + ?Sized>(rng: &mut R, b: &BigUint) -> BigUint { below_contract::<R, 1>(rng, b) }
fn below_c2<R: Rng + ?Sized>(rng: &mut R, b: &BigUint) -> BigUint { below_contract::<R, 2>(rng, b) }

// BEGIN GENERATED c18_rand
gen_biguint_shape!(c18_q_gen_biguint_0, 0, 1);
gen_biguint_shape!(c18_q_gen_biguint_1, 1, 1);
gen_biguint_shape!(c18_t_gen_biguint_31, 31, 1);
gen_biguint_shape!(c18_q_gen_biguint_32, 32, 1);
gen_biguint_shape!(c18_q_gen_biguint_33, 33, 1);
gen_biguint_shape!(c18_t_gen_biguint_63, 63, 1);
gen_biguint_shape!(c18_q_gen_biguint_64, 64, 2);
gen_biguint_shape!(c18_q_gen_biguint_65, 65, 2);
gen_biguint_shape!(c18_t_gen_biguint_95, 95, 2);
gen_biguint_shape!(c18_t_gen_biguint_96, 96, 2);
gen_biguint_shape!(c18_q_gen_biguint_97, 97, 2);
gen_biguint_shape!(c18_t_gen_biguint_127, 127, 2);
gen_biguint_shape!(c18_q_gen_biguint_128, 128, 3);
gen_biguint_shape!(c18_t_gen_biguint_129, 129, 3);
gen_biguint_shape!(c18_q_gen_biguint_130, 130, 3);
gen_biguint_shape!(c18_t_gen_biguint_200, 200, 4);
gen_bigint_shape!(c18_q_gen_bigint_0, 0, 1);
gen_bigint_shape!(c18_q_gen_bigint_1, 1, 1);
gen_bigint_shape!(c18_t_gen_bigint_32, 32, 1);
gen_bigint_shape!(c18_q_gen_bigint_64, 64, 2);
gen_bigint_shape!(c18_q_gen_bigint_65, 65, 2);
gen_bigint_shape!(c18_t_gen_bigint_130, 130, 3);
below_shape!(c18_q_below_b1, 1, 1, bits_1, 2);
below_shape!(c18_q_below_b5, 1, 5, bits_5, 2);
below_shape!(c18_t_below_b33, 1, 33, bits_33, 2);
below_shape!(c18_q_below_b64, 1, 64, bits_64, 2);
below_shape!(c18_q_below_b65, 2, 65, bits_65, 3);
below_shape!(c18_t_below_b70, 2, 70, bits_70, 3);
urange_shape!(c18_q_urange_1_1_c1_api0, 1, 1, below_c1, 0);
urange_shape!(c18_q_urange_0_1_c1_api0, 0, 1, below_c1, 0);
urange_shape!(c18_t_urange_1_1_c0_api0, 1, 1, below_c0, 0);
urange_shape!(c18_q_urange_1_2_c2_api0, 1, 2, below_c2, 0);
urange_shape!(c18_t_urange_2_2_c1_api0, 2, 2, below_c1, 0);
urange_shape!(c18_q_urange_1_1_c1_api1, 1, 1, below_c1, 1);
urange_shape!(c18_t_urange_0_1_c1_api1, 0, 1, below_c1, 1);
urange_shape!(c18_t_urange_1_1_c0_api1, 1, 1, below_c0, 1);
urange_shape!(c18_t_urange_1_2_c2_api1, 1, 2, below_c2, 1);
urange_shape!(c18_t_urange_2_2_c1_api1, 2, 2, below_c1, 1);
urange_shape!(c18_t_urange_1_1_c1_api2, 1, 1, below_c1, 2);
urange_shape!(c18_t_urange_0_1_c1_api2, 0, 1, below_c1, 2);
urange_shape!(c18_q_urange_1_1_c0_api2, 1, 1, below_c0, 2);
urange_shape!(c18_t_urange_1_2_c2_api2, 1, 2, below_c2, 2);
urange_shape!(c18_t_urange_2_2_c1_api2, 2, 2, below_c1, 2);
urange_shape!(c18_t_urange_1_1_c1_api3, 1, 1, below_c1, 3);
urange_empty_mp!(c18_q_urange_empty_0_mp, 0);
urange_empty_mp!(c18_q_urange_empty_1_mp, 1);
urange_empty_mp!(c18_q_urange_empty_2_mp, 2);
irange_shape!(c18_t_irange_m1_p1_c0_api0, true, 1, false, 1, below_c0, 0);
irange_shape!(c18_q_irange_m1_p1_c1_api0, true, 1, false, 1, below_c1, 0);
irange_shape!(c18_t_irange_m1_p1_c0_api1, true, 1, false, 1, below_c0, 1);
irange_shape!(c18_t_irange_m1_p1_c1_api1, true, 1, false, 1, below_c1, 1);
irange_shape!(c18_t_irange_m1_p1_c0_api2, true, 1, false, 1, below_c0, 2);
irange_shape!(c18_t_irange_m1_p1_c1_api2, true, 1, false, 1, below_c1, 2);
irange_shape!(c18_t_irange_m1_p1_c1_api3, true, 1, false, 1, below_c1, 3);
irange_shape!(c18_t_irange_p0_p1_c0_api0, false, 0, false, 1, below_c0, 0);
irange_shape!(c18_q_irange_p0_p1_c1_api0, false, 0, false, 1, below_c1, 0);
irange_shape!(c18_t_irange_p0_p1_c0_api1, false, 0, false, 1, below_c0, 1);
irange_shape!(c18_t_irange_p0_p1_c1_api1, false, 0, false, 1, below_c1, 1);
irange_shape!(c18_t_irange_p0_p1_c0_api2, false, 0, false, 1, below_c0, 2);
irange_shape!(c18_t_irange_p0_p1_c1_api2, false, 0, false, 1, below_c1, 2);
irange_shape!(c18_t_irange_m1_p0_c0_api0, true, 1, false, 0, below_c0, 0);
irange_shape!(c18_q_irange_m1_p0_c1_api0, true, 1, false, 0, below_c1, 0);
irange_shape!(c18_t_irange_m1_p0_c0_api1, true, 1, false, 0, below_c0, 1);
irange_shape!(c18_t_irange_m1_p0_c1_api1, true, 1, false, 0, below_c1, 1);
irange_shape!(c18_t_irange_m1_p0_c0_api2, true, 1, false, 0, below_c0, 2);
irange_shape!(c18_t_irange_m1_p0_c1_api2, true, 1, false, 0, below_c1, 2);
irange_shape!(c18_t_irange_m1_m1_c0_api0, true, 1, true, 1, below_c0, 0);
irange_shape!(c18_q_irange_m1_m1_c1_api0, true, 1, true, 1, below_c1, 0);
irange_shape!(c18_t_irange_m1_m1_c0_api1, true, 1, true, 1, below_c0, 1);
irange_shape!(c18_t_irange_m1_m1_c1_api1, true, 1, true, 1, below_c1, 1);
irange_shape!(c18_t_irange_m1_m1_c0_api2, true, 1, true, 1, below_c0, 2);
irange_shape!(c18_t_irange_m1_m1_c1_api2, true, 1, true, 1, below_c1, 2);
irange_shape!(c18_t_irange_p1_p1_c0_api0, false, 1, false, 1, below_c0, 0);
irange_shape!(c18_q_irange_p1_p1_c1_api0, false, 1, false, 1, below_c1, 0);
irange_shape!(c18_t_irange_p1_p1_c0_api1, false, 1, false, 1, below_c0, 1);
irange_shape!(c18_t_irange_p1_p1_c1_api1, false, 1, false, 1, below_c1, 1);
irange_shape!(c18_t_irange_p1_p1_c0_api2, false, 1, false, 1, below_c0, 2);
irange_shape!(c18_t_irange_p1_p1_c1_api2, false, 1, false, 1, below_c1, 2);
irange_shape!(c18_t_irange_m2_p1_c0_api0, true, 2, false, 1, below_c0, 0);
irange_shape!(c18_q_irange_m2_p1_c1_api0, true, 2, false, 1, below_c1, 0);
irange_shape!(c18_t_irange_m2_p1_c0_api1, true, 2, false, 1, below_c0, 1);
irange_shape!(c18_t_irange_m2_p1_c1_api1, true, 2, false, 1, below_c1, 1);
irange_shape!(c18_t_irange_m2_p1_c0_api2, true, 2, false, 1, below_c0, 2);
irange_shape!(c18_t_irange_m2_p1_c1_api2, true, 2, false, 1, below_c1, 2);
// END GENERATED
