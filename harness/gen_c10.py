def c10_forms():
    L = []
    U = ["u8", "u16", "u32", "u64", "u128", "usize"]
    I = ["i8", "i16", "i32", "i64", "i128", "isize"]
    # (key, form expression with big `a` and scalar `s`, which side the big is on)
    def forms(op):
        return [("bv_s", "a %s s" % op, "L"), ("br_s", "&a %s s" % op, "L"), ("bv_sr", "a %s &s" % op, "L"), ("br_sr", "&a %s &s" % op, "L"),
                ("s_bv", "s %s a" % op, "R"), ("s_br", "s %s &a" % op, "R"), ("sr_bv", "&s %s a" % op, "R"), ("sr_br", "&s %s &a" % op, "R"),
                ("assign", "{ let mut x = a; x %s= s; x }" % op, "L")]
    quickU = {"u8", "u64", "u128"}
    quickI = {"u8", "u64", "u128", "i8", "i64", "i128"}
    for opn, op in (("add", "+"), ("sub", "-")):
        for T in U:
            for l in (0, 1, 2, 3):
                for key, fe, side in forms(op):
                    if op == "+":
                        canon, pre = "|x: &BigUint, y: &BigUint| x + y", "|_c: i8| true"
                    elif side == "L":
                        canon, pre = "|x: &BigUint, y: &BigUint| x - y", "|c: i8| c >= 0"
                    else:
                        canon, pre = "|x: &BigUint, y: &BigUint| y - x", "|c: i8| c <= 0"
                    q = T in quickU and l in (1, 2) and key in ("bv_s", "s_br", "assign", "br_sr") and not (l == 2 and key == "br_sr")
                    if l in (0, 3) and key not in ("bv_s", "s_bv"):
                        continue
                    L.append("uform!(c10_%s_u%s_%s_%s_l%d, %d, %s, |a, s| %s, %s, %s);" % (tier(q), opn, T, key, l, l, T, fe, canon, pre))
        for T in U + I:
            for neg in (False, True):
                for l in (0, 1, 2):
                    if neg and l == 0:
                        continue
                    for key, fe, side in forms(op):
                        if op == "+" or side == "L":
                            canon = "|x: &BigInt, y: &BigInt| x %s y" % op
                        else:
                            canon = "|x: &BigInt, y: &BigInt| y - x"
                        q = T in quickI and l == 1 and key in ("bv_s", "s_br", "assign") and (neg or key != "assign")
                        if l in (0, 2) and key not in ("bv_s", "s_bv", "assign"):
                            continue
                        L.append("iform!(c10_%s_i%s_%s_%s_%s%d, %s, %d, %s, |a, s| %s, %s);" % (
                            tier(q), opn, T, key, "m" if neg else "p", l, str(neg).lower(), l, T, fe, canon))
    return L
GEN["c10_forms"] = c10_forms
