def c10_forms():
    L = []
    U = ["u8", "u16", "u32", "u64", "u128", "usize"]
    I = ["i8", "i16", "i32", "i64", "i128", "isize"]
    def forms(op):
        return [("bv_s", "a %s s" % op, "L"), ("br_s", "&a %s s" % op, "L"), ("bv_sr", "a %s &s" % op, "L"), ("br_sr", "&a %s &s" % op, "L"),
                ("s_bv", "s %s a" % op, "R"), ("s_br", "s %s &a" % op, "R"), ("sr_bv", "&s %s a" % op, "R"), ("sr_br", "&s %s &a" % op, "R"),
                ("assign", "{ let mut x = a; x %s= s; x }" % op, "L")]
    def classes(T):
        return (0, 1, 2) if T.endswith("128") else (0, 1)
    qforms = ("bv_s", "s_br", "assign")
    for opn, op in (("add", "+"), ("sub", "-")):
        for T in U:
            for l in (0, 1, 2):
                for cls in classes(T):
                    for key, fe, side in forms(op):
                        if op == "+":
                            canon, pre = "|x: &BigUint, y: &BigUint| x + y", "|_c: i8| true"
                        elif side == "L":
                            canon, pre = "|x: &BigUint, y: &BigUint| x - y", "|c: i8| c >= 0"
                        else:
                            canon, pre = "|x: &BigUint, y: &BigUint| y - x", "|c: i8| c <= 0"
                        if op == "-" and side == "L" and cls == 2 and l < 2:
                            continue   # big < scalar always: empty domain
                        if op == "-" and side == "R" and l == 2 and cls < 2:
                            continue
                        q = T in ("u64", "u128") and l == 1 and key in qforms and cls >= 1 and not (T == "u128" and key == "assign")
                        if l in (0, 2) and key not in ("bv_s", "s_bv", "assign"):
                            continue
                        L.append("uform!(c10_%s_u%s_%s_%s_l%d_c%d, %d, %s, %d, from_u64_c%d, from_u128_c%d, |a, s| %s, %s, %s);" % (tier(q), opn, T, key, l, cls, l, T, cls, cls, cls, fe, canon, pre))
        for T in U + I:
            for neg in (False, True):
                for l in (0, 1, 2):
                    if neg and l == 0:
                        continue
                    for sneg in ((False, True) if T in I else (False,)):
                        for cls in classes(T):
                            if cls == 0 and sneg:
                                continue
                            for key, fe, side in forms(op):
                                if op == "+" or side == "L":
                                    canon = "|x: &BigInt, y: &BigInt| x %s y" % op
                                else:
                                    canon = "|x: &BigInt, y: &BigInt| y - x"
                                q = T in ("u64", "i64", "i128") and l == 1 and key in ("bv_s", "assign") and cls == (2 if T == "i128" and sneg else 1) and (neg or sneg or key == "bv_s")
                                if l in (0, 2) and key not in ("bv_s", "s_bv", "assign"):
                                    continue
                                L.append("iform!(c10_%s_i%s_%s_%s_%s%d_%sc%d, %s, %d, %s, %s, %d, from_u64_c%d, from_u128_c%d, |a, s| %s, %s);" % (
                                    tier(q), opn, T, key, "m" if neg else "p", l, "n" if sneg else "p", cls, str(neg).lower(), l, T, str(sneg).lower(), cls, cls, cls, fe, canon))
    return L
GEN["c10_forms"] = c10_forms

def c10_div_forms():
    L = []
    types = ["u8", "u32", "u64", "usize", "u128", "i8", "i32", "i64", "isize", "i128"]
    for T in types:
        for neg in (False, True):
            for l in (1, 2):
                for (key, rem, fe) in [("div", False, "a / s"), ("divr", False, "&a / s"), ("diva", False, "{ let mut x = a; x /= s; x }"),
                                       ("rem", True, "a % s"), ("rema", True, "{ let mut x = a; x %= s; x }")]:
                    q = T in ("usize", "u128", "i64", "i128", "u32") and l == 2 and key in ("div", "diva", "rema") and (neg or T[0] == "i")
                    if l == 1 and key in ("divr",):
                        continue
                    L.append("big_by_scalar!(c10_%s_%s_%s_%s%d, %s, %d, %s, %s, |a, s| %s);" % (tier(q), key, T, "m" if neg else "p", l, str(neg).lower(), l, T, str(rem).lower(), fe))
    for T in ("i8", "i16", "i32", "i64", "isize", "u8", "u32"):
        for neg in (False, True):
            for hi in (True, False):
                for (key, rem, fe) in [("sdiv", False, "s / a"), ("sdivr", False, "s / &a"), ("srem", True, "s % a")]:
                    if T[0] == "u" and hi and T != "u8":
                        pass
                    q = (T in ("i8", "i64") and key in ("sdiv", "srem") and hi) or (T == "i8" and not hi and key == "sdiv" and neg)
                    L.append("scalar_by_big!(c10_%s_%s_%s_%s1_%s, %s, %s, %s, %s, |a, s| %s);" % (
                        tier(q), key, T, "m" if neg else "p", "hi" if hi else "lo", str(neg).lower(), T, str(rem).lower(), str(hi).lower(), fe))
    return L
GEN["c10_div_forms"] = c10_div_forms
