def c09_bytes():
    L = []
    for l in (0, 1, 2, 3):
        L.append("to_bytes_shape!(c09_%s_to_bytes_%d, %d);" % (tier(l <= 2), l, l))
    for n in range(0, 18):
        q = n in (0, 1, 7, 8, 9, 16, 17)
        L.append("from_bytes_shape!(c09_%s_from_bytes_%d, %d, %d);" % (tier(q), n, n, n // 8 + 1))
        L.append("from_signed_bytes_shape!(c09_%s_from_signed_bytes_%d, %d, %d);" % (tier(q), n, n, n // 8 + 1))
    for neg in (False, True):
        for l in (0, 1, 2, 3):
            if neg and l == 0:
                continue
            L.append("to_digits_shape!(c09_%s_to_digits_%s%d, %s, %d);" % (tier(l <= 2), "m" if neg else "p", l, str(neg).lower(), l))
    for neg in (False, True):
        for nb in (1, 2, 3, 8, 9, 16, 17):
            for be in (False, True):
                q = nb in (1, 2, 8, 9, 16) and (not be or nb in (2, 9, 16))
                L.append("to_signed_bytes_shape!(c09_%s_to_signed_bytes_%s_%s%d, %s, %d, %d, %d, tbl_%d, tbb_%d, %s);" % (
                    tier(q), "be" if be else "le", "m" if neg else "p", nb, str(neg).lower(), nb, (nb + 7) // 8, (nb + 7) // 8 + 1, nb, nb, str(be).lower()))
    for n in range(0, 8):
        L.append("from_u32_shape!(c09_%s_from_u32_%d, %d, %d);" % (tier(n in (0, 1, 2, 3, 5)), n, n, n // 2 + 1))
    return L
GEN["c09_bytes"] = c09_bytes
