def c19_bigint():
    L = []
    for (neg, l) in [(False, 0), (False, 1), (True, 1), (False, 2), (True, 2), (True, 3), (False, 3)]:
        L.append("unary_shape!(c19_%s_unary_%s%d, %s, %d);" % (tier(l <= 2), "m" if neg else "p", l, str(neg).lower(), l))
    for sk in (0, 1, 2):
        for l in (0, 1, 2):
            L.append("from_biguint_shape!(c19_q_from_biguint_s%d_l%d, %d, %d);" % (sk, l, sk, l))
    for nx in (False, True):
        for ny in (False, True):
            for (lx, ly) in [(1, 1), (2, 1), (1, 2), (2, 2)]:
                L.append("abs_sub_shape!(c19_%s_abs_sub_%s%d_%s%d, %s, %d, %s, %d);" % (
                    tier((lx, ly) in {(1, 1), (2, 1)}), "m" if nx else "p", lx, "m" if ny else "p", ly, str(nx).lower(), lx, str(ny).lower(), ly))
    for (lx, ly, nx, ny) in [(0, 0, False, False), (0, 1, False, True), (1, 0, True, False), (0, 2, False, False)]:
        L.append("abs_sub_shape!(c19_q_abs_sub_z_%s%d_%s%d, %s, %d, %s, %d);" % ("m" if nx else "p", lx, "m" if ny else "p", ly, str(nx).lower(), lx, str(ny).lower(), ly))
    for l in (0, 1, 2, 3):
        L.append("biguint_identity_shape!(c19_q_biguint_identity_%d, %d);" % (l, l))
    return L
GEN["c19_bigint"] = c19_bigint
