def c17_serde():
    L = []
    for neg in (False, True):
        for l in (0, 1, 2, 3):
            if neg and l == 0:
                continue
            L.append("ser_shape!(c17_%s_ser_%s%d, %s, %d);" % (tier(l <= 2), "m" if neg else "p", l, str(neg).lower(), l))
    for n in range(0, 7):
        for hk in (0, 1, 2, 3):
            q = (n in (0, 1, 2, 3, 4) and hk == 1) or (n == 3 and hk in (0, 2, 3)) or (n == 5 and hk == 0)
            L.append("de_shape!(c17_%s_de_%d_h%d, %d, %d, %d);" % (tier(q), n, hk, n, n // 2 + 1, hk))
        L.append("de_int_shape!(c17_%s_de_int_%d, %d, %d);" % (tier(n in (0, 1, 2, 3)), n, n, n // 2 + 1))
    return L
GEN["c17_serde"] = c17_serde
