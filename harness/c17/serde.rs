// C17 — serde format (anchored in src/bigint/serde.rs; needs --features serde)
#![allow(unused_imports, dead_code)]
use super::*;
use crate::bigint::verif_icommon::*;
use crate::biguint::verif_common as vc;
use crate::biguint::BigUint;
use alloc::{vec, vec::Vec};
use core::fmt;
use serde::de::value::{Error as DeError, SeqDeserializer};
use serde::de::{DeserializeSeed, IntoDeserializer, SeqAccess, Visitor};
use serde::ser::{Impossible, SerializeSeq, SerializeTuple};

// ------------------------------------------------------------------ recording serializer
#[derive(Debug)]
struct SerErr;
impl fmt::Display for SerErr {
    fn fmt(&self, _f: &mut fmt::Formatter<'_>) -> fmt::Result {
        Ok(())
    }
}
impl serde::ser::StdError for SerErr {}
impl serde::ser::Error for SerErr {
    fn custom<T: fmt::Display>(_msg: T) -> Self {
        SerErr
    }
}
/// what was emitted: events[k] = (kind, value); kinds: 1 = seq(len declared), 2 = u32 element, 3 = i8, 4 = tuple(len), 5 = end
struct Rec {
    ev: [(u8, u64); 16],
    n: usize,
}
impl Rec {
    fn push(&mut self, k: u8, v: u64) {
        if self.n < 16 {
            self.ev[self.n] = (k, v);
        }
        self.n += 1;
    }
}
struct RecSer<'a>(&'a mut Rec);
macro_rules! unsupported {
    ($($f:ident($t:ty)),*) => { $(fn $f(self, _v: $t) -> Result<(), SerErr> { Err(SerErr) })* };
}
impl<'a> serde::Serializer for RecSer<'a> {
    type Ok = ();
    type Error = SerErr;
    type SerializeSeq = RecSer<'a>;
    type SerializeTuple = RecSer<'a>;
    type SerializeTupleStruct = Impossible<(), SerErr>;
    type SerializeTupleVariant = Impossible<(), SerErr>;
    type SerializeMap = Impossible<(), SerErr>;
    type SerializeStruct = Impossible<(), SerErr>;
    type SerializeStructVariant = Impossible<(), SerErr>;
    unsupported!(serialize_bool(bool), serialize_i16(i16), serialize_i32(i32), serialize_i64(i64), serialize_u8(u8), serialize_u16(u16),
                 serialize_u64(u64), serialize_f32(f32), serialize_f64(f64), serialize_char(char), serialize_str(&str), serialize_bytes(&[u8]));
    fn serialize_i8(self, v: i8) -> Result<(), SerErr> {
        self.0.push(3, v as i64 as u64);
        Ok(())
    }
    fn serialize_u32(self, v: u32) -> Result<(), SerErr> {
        self.0.push(2, v as u64);
        Ok(())
    }
    fn serialize_none(self) -> Result<(), SerErr> { Err(SerErr) }
    fn serialize_some<T: ?Sized + serde::Serialize>(self, _v: &T) -> Result<(), SerErr> { Err(SerErr) }
    fn serialize_unit(self) -> Result<(), SerErr> { Err(SerErr) }
    fn serialize_unit_struct(self, _n: &'static str) -> Result<(), SerErr> { Err(SerErr) }
    fn serialize_unit_variant(self, _n: &'static str, _i: u32, _v: &'static str) -> Result<(), SerErr> { Err(SerErr) }
    fn serialize_newtype_struct<T: ?Sized + serde::Serialize>(self, _n: &'static str, _v: &T) -> Result<(), SerErr> { Err(SerErr) }
    fn serialize_newtype_variant<T: ?Sized + serde::Serialize>(self, _n: &'static str, _i: u32, _v: &'static str, _x: &T) -> Result<(), SerErr> { Err(SerErr) }
    fn serialize_seq(self, len: Option<usize>) -> Result<Self::SerializeSeq, SerErr> {
        match len {
            Some(l) => self.0.push(1, l as u64),
            None => self.0.push(1, u64::MAX),
        }
        Ok(self)
    }
    fn serialize_tuple(self, len: usize) -> Result<Self::SerializeTuple, SerErr> {
        self.0.push(4, len as u64);
        Ok(self)
    }
    fn serialize_tuple_struct(self, _n: &'static str, _l: usize) -> Result<Self::SerializeTupleStruct, SerErr> { Err(SerErr) }
    fn serialize_tuple_variant(self, _n: &'static str, _i: u32, _v: &'static str, _l: usize) -> Result<Self::SerializeTupleVariant, SerErr> { Err(SerErr) }
    fn serialize_map(self, _l: Option<usize>) -> Result<Self::SerializeMap, SerErr> { Err(SerErr) }
    fn serialize_struct(self, _n: &'static str, _l: usize) -> Result<Self::SerializeStruct, SerErr> { Err(SerErr) }
    fn serialize_struct_variant(self, _n: &'static str, _i: u32, _v: &'static str, _l: usize) -> Result<Self::SerializeStructVariant, SerErr> { Err(SerErr) }
    fn collect_str<T: ?Sized + fmt::Display>(self, _v: &T) -> Result<(), SerErr> { Err(SerErr) }
}
impl<'a> SerializeSeq for RecSer<'a> {
    type Ok = ();
    type Error = SerErr;
    fn serialize_element<T: ?Sized + serde::Serialize>(&mut self, v: &T) -> Result<(), SerErr> {
        v.serialize(RecSer(&mut *self.0))
    }
    fn end(self) -> Result<(), SerErr> {
        self.0.push(5, 0);
        Ok(())
    }
}
impl<'a> SerializeTuple for RecSer<'a> {
    type Ok = ();
    type Error = SerErr;
    fn serialize_element<T: ?Sized + serde::Serialize>(&mut self, v: &T) -> Result<(), SerErr> {
        v.serialize(RecSer(&mut *self.0))
    }
    fn end(self) -> Result<(), SerErr> {
        self.0.push(5, 0);
        Ok(())
    }
}

fn ref32(a: &[u64], i: usize) -> u64 {
    ((a[i / 2] >> (32 * (i % 2))) as u32) as u64
}
/// the events of a BigUint must be: seq(n32) elem* end  with the base-2^32 digits, no trailing zero element
fn check_biguint_events<const L: usize>(r: &Rec, start: usize, a0: &[u64; L]) -> usize {
    let n32: usize = if L == 0 { 0 } else { 2 * L - ((a0[L - 1] >> 32) == 0) as usize };
    kani::assert(r.ev[start] == (1, n32 as u64), "VERIF serialize: declared sequence length differs from the number of base-2^32 digits");
    let mut i = 0;
    while i < n32 {
        kani::assert(r.ev[start + 1 + i] == (2, ref32(a0, i)), "VERIF serialize: element is not the base-2^32 digit");
        i += 1;
    }
    kani::assert(r.ev[start + 1 + n32] == (5, 0), "VERIF serialize: sequence not ended after the declared elements");
    start + n32 + 2
}
macro_rules! ser_shape {
    ($name:ident, $neg:expr, $l:expr) => {
        #[kani::proof]
        #[kani::unwind(14)]
        fn $name() {
            let a0: [u64; $l] = vc::any_canon::<$l>();
            let mut r = Rec { ev: [(0, 0); 16], n: 0 };
            let u = vc::mk_from(&a0);
            kani::assert(serde::Serialize::serialize(&u, RecSer(&mut r)).is_ok(), "VERIF serialize failed");
            let end = check_biguint_events::<$l>(&r, 0, &a0);
            kani::assert(r.n == end, "VERIF serialize: extra events");
            // BigInt: 2-tuple (sign as i8, magnitude)
            let mut r2 = Rec { ev: [(0, 0); 16], n: 0 };
            let x = mkint($neg, &a0);
            kani::assert(serde::Serialize::serialize(&x, RecSer(&mut r2)).is_ok(), "VERIF serialize failed");
            let s: i64 = if $l == 0 { 0 } else if $neg { -1 } else { 1 };
            kani::assert(r2.ev[0] == (4, 2) && r2.ev[1] == (3, s as u64), "VERIF BigInt serialize: not a 2-tuple starting with the sign as -1/0/1");
            let end2 = check_biguint_events::<$l>(&r2, 2, &a0);
            kani::assert(r2.ev[end2] == (5, 0) && r2.n == end2 + 1, "VERIF BigInt serialize: tuple not closed");
        }
    };
}

// ------------------------------------------------------------------ token-replay deserializer
struct Toks<'a> {
    w: &'a [u32],
    i: usize,
    hint: Option<usize>,
}
impl<'de, 'a> SeqAccess<'de> for Toks<'a> {
    type Error = DeError;
    fn next_element_seed<T: DeserializeSeed<'de>>(&mut self, seed: T) -> Result<Option<T::Value>, DeError> {
        if self.i < self.w.len() {
            let v = self.w[self.i];
            self.i += 1;
            seed.deserialize(v.into_deserializer()).map(Some)
        } else {
            Ok(None)
        }
    }
    fn size_hint(&self) -> Option<usize> {
        self.hint
    }
}
struct ToksDe<'a>(Toks<'a>);
impl<'de, 'a> serde::Deserializer<'de> for ToksDe<'a> {
    type Error = DeError;
    fn deserialize_any<V: Visitor<'de>>(self, visitor: V) -> Result<V::Value, DeError> {
        visitor.visit_seq(self.0)
    }
    serde::forward_to_deserialize_any! {
        bool i8 i16 i32 i64 i128 u8 u16 u32 u64 u128 f32 f64 char str string bytes byte_buf option unit unit_struct
        newtype_struct seq tuple tuple_struct map struct enum identifier ignored_any
    }
}
fn hint_of(k: u8, n: usize) -> Option<usize> {
    match k {
        0 => None,
        1 => Some(n),
        2 => Some(if n > 0 { n - 1 } else { 0 }),
        _ => Some(usize::MAX), // absurd hint: must be capped, not allocated
    }
}
macro_rules! de_shape {
    ($name:ident, $n:expr, $w:expr, $hk:expr) => {
        #[kani::proof]
        #[kani::unwind(14)]
        #[kani::stub(alloc::vec::Vec::shrink_to_fit, vc::noop_shrink)]
        #[kani::stub(alloc::vec::Vec::with_capacity, vc::vec_with_capacity_ignored)]
        fn $name() {
            let s: [u32; $n] = kani::any();
            let mut e = [0u64; $w];
            let mut i = 0;
            while i < $n {
                e[i / 2] |= (s[i] as u64) << (32 * (i % 2));
                i += 1;
            }
            let t = Toks { w: &s, i: 0, hint: hint_of($hk, $n) };
            let r: Result<BigUint, DeError> = serde::Deserialize::deserialize(ToksDe(t));
            match r {
                Ok(u) => kani::assert(vc::is_canonical(&u) && vc::eq_window(vc::digits(&u), &e), "VERIF deserialize: value differs from sum w_i 2^(32 i) or not canonical"),
                Err(_) => kani::assert(false, "VERIF deserialize failed on a valid u32 sequence"),
            }
        }
    };
}

// (sign, sequence) pairs through a real Deserializer for BigInt
struct PairDe<'a> {
    sign: i8,
    w: &'a [u32],
}
struct PairAccess<'a> {
    sign: i8,
    w: &'a [u32],
    k: u8,
}
impl<'de, 'a> SeqAccess<'de> for PairAccess<'a> {
    type Error = DeError;
    fn next_element_seed<T: DeserializeSeed<'de>>(&mut self, seed: T) -> Result<Option<T::Value>, DeError> {
        self.k += 1;
        if self.k == 1 {
            seed.deserialize(self.sign.into_deserializer()).map(Some)
        } else if self.k == 2 {
            seed.deserialize(SeqDeserializer::<_, DeError>::new(self.w.iter().cloned())).map(Some)
        } else {
            Ok(None)
        }
    }
}
impl<'de, 'a> serde::Deserializer<'de> for PairDe<'a> {
    type Error = DeError;
    fn deserialize_any<V: Visitor<'de>>(self, visitor: V) -> Result<V::Value, DeError> {
        visitor.visit_seq(PairAccess { sign: self.sign, w: self.w, k: 0 })
    }
    serde::forward_to_deserialize_any! {
        bool i8 i16 i32 i64 i128 u8 u16 u32 u64 u128 f32 f64 char str string bytes byte_buf option unit unit_struct
        newtype_struct seq tuple tuple_struct map struct enum identifier ignored_any
    }
}
macro_rules! de_int_shape {
    ($name:ident, $n:expr, $w:expr) => {
        #[kani::proof]
        #[kani::unwind(14)]
        #[kani::stub(alloc::vec::Vec::shrink_to_fit, vc::noop_shrink)]
        #[kani::stub(alloc::vec::Vec::with_capacity, vc::vec_with_capacity_ignored)]
        fn $name() {
            let s: [u32; $n] = kani::any();
            let sign: i8 = kani::any();
            let mut e = [0u64; $w];
            let mut i = 0;
            while i < $n {
                e[i / 2] |= (s[i] as u64) << (32 * (i % 2));
                i += 1;
            }
            let r: Result<BigInt, DeError> = serde::Deserialize::deserialize(PairDe { sign, w: &s });
            match r {
                Ok(x) => {
                    kani::assert(sign >= -1 && sign <= 1, "VERIF deserialize accepted a sign other than -1, 0, 1");
                    kani::assert(int_canonical(&x), "VERIF deserialize: BigInt not canonical");
                    if sign == 0 {
                        kani::assert(mag(&x).is_empty(), "VERIF deserialize: sign 0 with non-zero digits must give zero");
                    } else {
                        kani::assert(vc::eq_window(mag(&x), &e) && (is_neg(&x) == (sign < 0 && !vc::ref_is_zero(&e))), "VERIF deserialize: BigInt value");
                    }
                }
                Err(_) => kani::assert(sign < -1 || sign > 1, "VERIF deserialize rejected a valid (sign, sequence) pair"),
            }
        }
    };
}

// BEGIN GENERATED c17_serde
ser_shape!(c17_q_ser_p0, false, 0);
ser_shape!(c17_q_ser_p1, false, 1);
ser_shape!(c17_q_ser_p2, false, 2);
ser_shape!(c17_t_ser_p3, false, 3);
ser_shape!(c17_q_ser_m1, true, 1);
ser_shape!(c17_q_ser_m2, true, 2);
ser_shape!(c17_t_ser_m3, true, 3);
de_shape!(c17_t_de_0_h0, 0, 1, 0);
de_shape!(c17_q_de_0_h1, 0, 1, 1);
de_shape!(c17_t_de_0_h2, 0, 1, 2);
de_shape!(c17_t_de_0_h3, 0, 1, 3);
de_int_shape!(c17_q_de_int_0, 0, 1);
de_shape!(c17_t_de_1_h0, 1, 1, 0);
de_shape!(c17_q_de_1_h1, 1, 1, 1);
de_shape!(c17_t_de_1_h2, 1, 1, 2);
de_shape!(c17_t_de_1_h3, 1, 1, 3);
de_int_shape!(c17_q_de_int_1, 1, 1);
de_shape!(c17_t_de_2_h0, 2, 2, 0);
de_shape!(c17_q_de_2_h1, 2, 2, 1);
de_shape!(c17_t_de_2_h2, 2, 2, 2);
de_shape!(c17_t_de_2_h3, 2, 2, 3);
de_int_shape!(c17_q_de_int_2, 2, 2);
de_shape!(c17_q_de_3_h0, 3, 2, 0);
de_shape!(c17_q_de_3_h1, 3, 2, 1);
de_shape!(c17_q_de_3_h2, 3, 2, 2);
de_shape!(c17_q_de_3_h3, 3, 2, 3);
de_int_shape!(c17_q_de_int_3, 3, 2);
de_shape!(c17_t_de_4_h0, 4, 3, 0);
de_shape!(c17_q_de_4_h1, 4, 3, 1);
de_shape!(c17_t_de_4_h2, 4, 3, 2);
de_shape!(c17_t_de_4_h3, 4, 3, 3);
de_int_shape!(c17_t_de_int_4, 4, 3);
de_shape!(c17_q_de_5_h0, 5, 3, 0);
de_shape!(c17_t_de_5_h1, 5, 3, 1);
de_shape!(c17_t_de_5_h2, 5, 3, 2);
de_shape!(c17_t_de_5_h3, 5, 3, 3);
de_int_shape!(c17_t_de_int_5, 5, 3);
de_shape!(c17_t_de_6_h0, 6, 4, 0);
de_shape!(c17_t_de_6_h1, 6, 4, 1);
de_shape!(c17_t_de_6_h2, 6, 4, 2);
de_shape!(c17_t_de_6_h3, 6, 4, 3);
de_int_shape!(c17_t_de_int_6, 6, 4);
// END GENERATED
