def c06_parse():
    L = []
    import itertools
    def pats(n, signed):
        if n == 0:
            return [""]
        firsts = "pux" + ("m" if signed else "")
        return [f + "".join(r) for f in firsts for r in itertools.product("ux", repeat=n - 1)]
    for n in range(0, 5):
        for radix in (10, 16, 2, 36, 8, 3):
            for signed in (False, True):
                for pat in pats(n, signed):
                    if signed and n > 0 and pat[0] != "m" and radix != 10:
                        continue   # the BigInt wrapper only adds the '-' handling; other first classes once (radix 10)
                    # a second-position '+' after '-' matters for BigInt ("-+1"): class x in position 2 includes '+'
                    # from_str_radix on symbolic text does not finish (DESIGN 9.2): three thorough-tier attempts are kept, nothing in the quick tier
                    q = False
                    if not (radix == 10 and pat in ("x", "px", "mx")):
                        continue
                    L.append('parse_shape!(c06_%s_parse_%s_r%d_%s, %d, %d, b"%s", %s);' % (
                        tier(q), "int" if signed else "uint", radix, pat if pat else "empty", n, radix, pat, str(signed).lower()))
    L.append("parse_bytes_shape!(c06_t_parse_bytes_1, 1);")
    for n in range(0, 5):
        for radix in (3, 10, 190, 255, 256, 2, 16, 8, 128):
            q = (n in (0, 1, 3) and radix in (10, 256, 16)) or (n == 2 and radix in (3, 255, 8))
            L.append("from_radix_shape!(c06_%s_from_radix_n%d_r%d, %d, %d);" % (tier(q), n, radix, n, radix))
    for w in range(0, 5):
        for r in ((0, 1, 37, 4294967295) if w in (0, 3, 4) else (0, 1, 257, 4294967295)):
            L.append("radix_range_mp!(c06_%s_radix_range_%d_r%d_mp, %d, %d);" % (tier(r in (1, 37, 257)), w, r, w, r))
    return L
GEN["c06_parse"] = c06_parse
