def c06_parse():
    L = []
    for n in range(0, 6):
        for radix in (2, 8, 10, 16, 36, 3, 7, 32):
            q = (n <= 3 and radix in (10, 16)) or (n == 4 and radix == 10) or (n == 2 and radix in (2, 36, 8))
            if n == 5 and radix not in (10,):
                continue
            L.append("parse_shape!(c06_%s_parse_n%d_r%d, %d, %d);" % (tier(q), n, radix, n, radix))
    for n in (1, 2, 3):
        L.append("parse_bytes_shape!(c06_%s_parse_bytes_%d, %d);" % (tier(n <= 2), n, n))
    for n in range(0, 5):
        for radix in (3, 10, 190, 255, 256, 2, 16, 8, 128):
            q = (n in (0, 1, 3) and radix in (10, 256, 16)) or (n == 2 and radix in (3, 255, 8))
            L.append("from_radix_shape!(c06_%s_from_radix_n%d_r%d, %d, %d);" % (tier(q), n, radix, n, radix))
    for w in range(0, 5):
        L.append("radix_range_mp!(c06_q_radix_range_%d_mp, %d);" % (w, w))
    return L
GEN["c06_parse"] = c06_parse
