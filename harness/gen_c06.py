def c06_parse():
    L = []
    import itertools
    def pats(n, signed):
        if n == 0:
            return [""]
        firsts = "pux" + ("m" if signed else "")
        return [f + "".join(r) for f in firsts for r in itertools.product("ux", repeat=n - 1)]
    for n in range(0, 5):
        for radix in (10, 16, 2, 36, 8, 3):
            for signed in (False, True):
                for pat in pats(n, signed):
                    if signed and n > 0 and pat[0] != "m" and radix != 10:
                        continue   # the BigInt wrapper only adds the '-' handling; other first classes once (radix 10)
                    # a second-position '+' after '-' matters for BigInt ("-+1"): class x in position 2 includes '+'
                    q = (radix == 10 and n <= 3) or (radix == 16 and n <= 2 and not signed) or (radix in (2, 36) and n == 2 and pat in ("xx", "px", "mx"))
                    if radix in (8, 3) and n != 2:
                        continue
                    L.append('parse_shape!(c06_%s_parse_%s_r%d_%s, %d, %d, b"%s", %s);' % (
                        tier(q), "int" if signed else "uint", radix, pat if pat else "empty", n, radix, pat, str(signed).lower()))
    for n in (1, 2, 3):
        L.append("parse_bytes_shape!(c06_%s_parse_bytes_%d, %d);" % (tier(n <= 2), n, n))
    for n in range(0, 5):
        for radix in (3, 10, 190, 255, 256, 2, 16, 8, 128):
            q = (n in (0, 1, 3) and radix in (10, 256, 16)) or (n == 2 and radix in (3, 255, 8))
            L.append("from_radix_shape!(c06_%s_from_radix_n%d_r%d, %d, %d);" % (tier(q), n, radix, n, radix))
    for w in range(0, 5):
        L.append("radix_range_mp!(c06_q_radix_range_%d_mp, %d);" % (w, w))
    return L
GEN["c06_parse"] = c06_parse
