C08_TYPES = [("u8", 8, False), ("u16", 16, False), ("u32", 32, False), ("u64", 64, False), ("usize", 64, False), ("u128", 128, False),
             ("i8", 8, True), ("i16", 16, True), ("i32", 32, True), ("i64", 64, True), ("isize", 64, True), ("i128", 128, True)]

def c08_convert():
    L = []
    sg = lambda n: "m" if n else "p"
    for (T, bits, signed) in C08_TYPES:
        for neg in (False, True):
            for l in (0, 1, 2, 3):
                if neg and l == 0:
                    continue
                # quick: the lengths at which the type's boundary lies, plus one above
                bl = 1 if bits <= 64 else 2
                q = l in (bl, bl + 1) and T in ("u8", "u64", "u128", "i8", "i64", "i128", "usize", "i32")
                L.append("to_prim_shape!(c08_%s_to_%s_%s%d, %s, to_%s, %d, %s, %s, %d);" % (
                    tier(q), T, sg(neg), l, T, T, bits, str(signed).lower(), str(neg).lower(), l))
        mac = "from_signed_shape" if signed else "from_unsigned_shape"
        L.append("%s!(c08_q_from_%s, %s, from_%s);" % (mac, T, T, T))
    return L
GEN["c08_convert"] = c08_convert
