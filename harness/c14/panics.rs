// C14 — documented failure cases that live nowhere else: integer roots (anchored in src/bigint.rs). The remaining must-panic and
// checked_* harnesses of C14 are the `_mp` / `checked` harnesses of C01, C03, C05, C06, C07, C12, C13, C18 (same files, same queries).
#![allow(unused_imports, dead_code)]
use super::*;
use crate::bigint::verif_icommon::*;
use crate::biguint::verif_common as vc;
use alloc::{vec, vec::Vec};
use num_integer::Roots;
use num_traits::{CheckedAdd, CheckedMul, CheckedSub};

fn uroot_model(x: &BigUint, n: u32) -> BigUint {
    if n == 0 {
        panic!("root degree n must be at least 1")
    }
    if vc::digits(x).is_empty() { BigUint::ZERO } else { vc::mk_from(&vc::any_canon::<1>()) }
}
fn usqrt_model(x: &BigUint) -> BigUint { uroot_model(x, 2) }
fn ucbrt_model(x: &BigUint) -> BigUint { uroot_model(x, 3) }

// even root of a negative number panics; odd roots and roots of non-negative numbers return with the sign of x
macro_rules! root_mp {
    ($name:ident, $which:expr) => {
        #[kani::proof]
        #[kani::unwind(34)]
        #[kani::stub(<crate::biguint::BigUint as num_integer::Roots>::nth_root, uroot_model)]
        #[kani::stub(<crate::biguint::BigUint as num_integer::Roots>::sqrt, usqrt_model)]
        #[kani::stub(<crate::biguint::BigUint as num_integer::Roots>::cbrt, ucbrt_model)]
        fn $name() {
            let a0: [u64; 2] = vc::any_canon::<2>();
            let x = mkint(true, &a0);
            if $which == 0 {
                let _ = x.sqrt();
            } else if $which == 1 {
                let n: u32 = kani::any();
                kani::assume(n % 2 == 0);
                let _ = x.nth_root(n);
            } else {
                let neg: bool = kani::any();
                let y = if neg { x } else { mkint(false, &a0) };
                let _ = y.nth_root(0);
            }
            kani::assert(false, "VERIF_SURVIVED even root of a negative number / zeroth root returned");
        }
    };
}
#[kani::proof]
#[kani::unwind(34)]
#[kani::stub(<crate::biguint::BigUint as num_integer::Roots>::nth_root, uroot_model)]
#[kani::stub(<crate::biguint::BigUint as num_integer::Roots>::sqrt, usqrt_model)]
#[kani::stub(<crate::biguint::BigUint as num_integer::Roots>::cbrt, ucbrt_model)]
fn c14_q_roots_return_with_sign() {
    let a0: [u64; 1] = vc::any_canon::<1>();
    let neg: bool = kani::any();
    let x = if neg { mkint(true, &a0) } else { mkint(false, &a0) };
    let n: u32 = kani::any();
    kani::assume(n >= 1 && (!neg || n % 2 == 1));
    let r = x.nth_root(n);
    kani::assert(int_canonical(&r) && is_neg(&r) == neg, "VERIF odd root must carry the sign of x (truncation toward zero)");
    let c = x.cbrt();
    kani::assert(int_canonical(&c) && is_neg(&c) == neg, "VERIF cbrt must carry the sign of x");
    if !neg {
        let s = x.sqrt();
        kani::assert(int_canonical(&s) && !is_neg(&s), "VERIF sqrt of a non-negative value");
    }
}
// checked_add / checked_sub / checked_mul of BigInt never panic and never return None
fn umul_any<'a, 'b>(a: &'a BigUint, b: &'b BigUint) -> BigUint where 'a: 'a, 'b: 'b {
    if vc::digits(a).is_empty() || vc::digits(b).is_empty() { BigUint::ZERO } else { vc::mk_from(&vc::any_canon::<1>()) }
}
macro_rules! checked_never_none {
    ($name:ident, $na:expr, $nb:expr) => {
        #[kani::proof]
        #[kani::unwind(34)]
        #[kani::stub(<&crate::biguint::BigUint as core::ops::Mul<&crate::biguint::BigUint>>::mul, umul_any)]
        #[kani::stub(alloc::vec::Vec::shrink_to_fit, vc::noop_shrink)]
        #[kani::stub(core::arch::x86_64::_addcarry_u64, vc::stub_addcarry)]
        #[kani::stub(core::arch::x86_64::_subborrow_u64, vc::stub_subborrow)]
        #[kani::stub(crate::biguint::addition::schoolbook_add_assign_x86_64, vc::model_add)]
        #[kani::stub(crate::biguint::subtraction::schoolbook_sub_assign_x86_64, vc::model_sub)]
        fn $name() {
            let a0: [u64; 1] = vc::any_canon::<1>();
            let b0: [u64; 1] = vc::any_canon::<1>();
            let a = mkint($na, &a0);
            let b = mkint($nb, &b0);
            kani::assert(a.checked_add(&b).is_some(), "VERIF BigInt::checked_add returned None");
            kani::assert(a.checked_sub(&b).is_some(), "VERIF BigInt::checked_sub returned None");
            kani::assert(a.checked_mul(&b).is_some(), "VERIF BigInt::checked_mul returned None");
        }
    };
}
checked_never_none!(c14_q_checked_never_none_pm, false, true);
checked_never_none!(c14_q_checked_never_none_mm, true, true);
checked_never_none!(c14_t_checked_never_none_pp, false, false);
root_mp!(c14_q_root_sqrt_neg_mp, 0);
root_mp!(c14_q_root_even_neg_mp, 1);
root_mp!(c14_q_root_zeroth_mp, 2);

// Signed scalar operands at their MINIMUM: -MIN does not exist in the scalar type, so a careless negation overflows (a debug-profile
// panic outside the documented set) although the mathematical result is perfectly representable. One query per scalar type; the BigInt
// is an arbitrary one-digit value of either sign; results compared in a 4-word two's-complement window.
fn dig(d: &[u64], i: usize) -> u64 { if i < d.len() { d[i] } else { 0 } }
fn min_window(wide: i128) -> [u64; 4] {
    [wide as u64, (wide >> 64) as u64, u64::MAX, u64::MAX]
}
fn shl_window(a: &[u64; 4], k: u32) -> [u64; 4] {
    // k < 128
    let (w, b) = ((k / 64) as usize, k % 64);
    let mut r = [0u64; 4];
    let mut i = 0;
    while i < 4 {
        if i >= w {
            let lo = a[i - w] << b;
            let hi = if b > 0 && i > w { a[i - w - 1] >> (64 - b) } else { 0 };
            r[i] = lo | hi;
        }
        i += 1;
    }
    r
}
macro_rules! min_scalar_addsub {
    ($name:ident, $T:ty) => {
        #[kani::proof]
        #[kani::unwind(34)]
        #[kani::stub(alloc::vec::Vec::shrink_to_fit, vc::noop_shrink)]
        #[kani::stub(core::arch::x86_64::_addcarry_u64, vc::stub_addcarry)]
        #[kani::stub(core::arch::x86_64::_subborrow_u64, vc::stub_subborrow)]
        #[kani::stub(crate::biguint::addition::schoolbook_add_assign_x86_64, vc::model_add)]
        #[kani::stub(crate::biguint::subtraction::schoolbook_sub_assign_x86_64, vc::model_sub)]
        fn $name() {
            let a0: [u64; 1] = vc::any_canon::<1>();
            let neg: bool = kani::any();
            let s: $T = <$T>::MIN;
            let m = min_window(s as i128);
            let t = tc::<4>(&mkint(neg, &a0));
            let mut x = mkint(neg, &a0);
            x += s;
            check_int::<4>(&x, &add_w(&t, &m));
            let mut y = mkint(neg, &a0);
            y -= s;
            check_int::<4>(&y, &sub_w(&t, &m));
            check_int::<4>(&(mkint(neg, &a0) + s), &add_w(&t, &m));
            check_int::<4>(&(s - mkint(neg, &a0)), &sub_w(&m, &t));
        }
    };
}
macro_rules! min_scalar_mul {
    ($name:ident, $T:ty) => {
        #[kani::proof]
        #[kani::unwind(34)]
        #[kani::stub(alloc::vec::Vec::shrink_to_fit, vc::noop_shrink)]
        #[kani::stub(core::arch::x86_64::_addcarry_u64, vc::stub_addcarry)]
        #[kani::stub(crate::biguint::addition::schoolbook_add_assign_x86_64, vc::model_add)]
        #[kani::stub(crate::biguint::shift::biguint_shl, crate::biguint::shift::verif_c07_biguint_shift::shl_fixedb_0)]
        fn $name() {
            let a0: [u64; 1] = vc::any_canon::<1>();
            let neg: bool = kani::any();
            let s: $T = <$T>::MIN;
            // a * MIN (a power of two: scalar_mul shifts; the shift kernel runs with the concrete word count 0) = -(a << (BITS - 1))
            let t = tc::<4>(&mkint(neg, &a0));
            let e = neg_w(&shl_window(&t, <$T>::BITS - 1));
            let x = mkint(neg, &a0) * s;
            kani::assert(int_canonical(&x) && is_neg(&x) != neg && mag(&x).len() <= 3, "VERIF a * MIN has the wrong sign or is not canonical");
            let m = [dig(mag(&x), 0), dig(mag(&x), 1), dig(mag(&x), 2), 0];
            kani::assert(eq_w(&(if neg { m } else { neg_w(&m) }), &e), "VERIF a * MIN != -(a << (BITS - 1))");
        }
    };
}
min_scalar_addsub!(c14_q_min_scalar_addsub_i8, i8);
min_scalar_addsub!(c14_q_min_scalar_addsub_i16, i16);
min_scalar_addsub!(c14_q_min_scalar_addsub_i32, i32);
min_scalar_addsub!(c14_q_min_scalar_addsub_i64, i64);
min_scalar_addsub!(c14_q_min_scalar_addsub_isize, isize);
min_scalar_addsub!(c14_q_min_scalar_addsub_i128, i128);
// thorough-tier attempt only: CBMC ran out of memory in propositional reduction (10 min) on the owned-shift path of scalar_mul
min_scalar_mul!(c14_t_min_scalar_mul_i64, i64);
