// C07 — bit queries and updates (anchored in src/bigint.rs; BigUint methods are public and reached from here too)
#![allow(unused_imports, dead_code)]
use super::*;
use crate::bigint::verif_icommon::*;
use crate::biguint::verif_common as vc;
use alloc::{vec, vec::Vec};

// BigUint: bit, bits, trailing_zeros, trailing_ones, count_ones against a bit-by-bit oracle
macro_rules! uquery_shape {
    ($name:ident, $l:expr) => {
        #[kani::proof]
        #[kani::unwind(34)]
        fn $name() {
            let a0: [u64; $l] = vc::any_canon::<$l>();
            let a = vc::mk_from(&a0);
            let i: u64 = kani::any();
            kani::assert(a.bit(i) == vc::ref_bit(&a0, i), "VERIF BigUint::bit");
            // bits(): position of the highest set bit + 1
            let nb = a.bits();
            if $l == 0 {
                kani::assert(nb == 0, "VERIF bits of zero");
            } else {
                kani::assert(nb >= 1 && nb <= 64 * $l && vc::ref_bit(&a0, nb - 1), "VERIF bits(): top bit not set");
                kani::assert(nb > 64 * ($l - 1), "VERIF bits(): not in the top digit");
                kani::assert(i < nb || !vc::ref_bit(&a0, i), "VERIF bits(): a set bit above");
            }
            // trailing_zeros: lowest set bit
            match a.trailing_zeros() {
                None => kani::assert($l == 0, "VERIF trailing_zeros None for non-zero"),
                Some(tz) => {
                    kani::assert($l > 0 && vc::ref_bit(&a0, tz), "VERIF trailing_zeros: bit not set");
                    kani::assert(i >= tz || !vc::ref_bit(&a0, i), "VERIF trailing_zeros: a set bit below");
                }
            }
            // trailing_ones: lowest clear bit
            let to = a.trailing_ones();
            kani::assert(!vc::ref_bit(&a0, to), "VERIF trailing_ones: bit set");
            kani::assert(i >= to || vc::ref_bit(&a0, i), "VERIF trailing_ones: a clear bit below");
            // count_ones
            let mut c: u64 = 0;
            let mut k = 0;
            while k < $l {
                c += a0[k].count_ones() as u64;
                k += 1;
            }
            kani::assert(a.count_ones() == c, "VERIF count_ones");
        }
    };
}
// BigUint::set_bit (set beyond the top => resize; clear the top bit => normalise); index limited to the window
macro_rules! uset_bit_shape {
    ($name:ident, $l:expr, $w:expr, $bit:expr) => {
        #[kani::proof]
        #[kani::unwind(34)]
        #[kani::stub(alloc::vec::Vec::shrink_to_fit, vc::noop_shrink)]
        fn $name() {
            let a0: [u64; $l] = vc::any_canon::<$l>();
            let mut a = vc::mk_from(&a0);
            let i: u64 = $bit;
            let v: bool = kani::any();
            a.set_bit(i, v);
            kani::assert(vc::is_canonical(&a), "VERIF set_bit result not canonical");
            let j: u64 = kani::any();
            kani::assume(j < 64 * $w + 64);
            let e = if j == i { v } else { vc::ref_bit(&a0, j) };
            kani::assert(vc::ref_bit(vc::digits(&a), j) == e, "VERIF set_bit changed/missed a bit");
            kani::assert(vc::digits(&a).len() <= $w, "VERIF set_bit grew beyond the index");
            kani::cover!($bit / 64 + 1 != $l || vc::digits(&a).len() < $l, "reach:top_cleared_normalised");
            kani::cover!($bit / 64 < $l || vc::digits(&a).len() > $l, "reach:resized");
        }
    };
}
// clearing a bit far beyond the top must not allocate / change anything
macro_rules! uclear_far_shape {
    ($name:ident, $l:expr) => {
        #[kani::proof]
        #[kani::unwind(34)]
        fn $name() {
            let a0: [u64; $l] = vc::any_canon::<$l>();
            let mut a = vc::mk_from(&a0);
            let i: u64 = kani::any();
            kani::assume(i >= 64 * $l);
            a.set_bit(i, false);
            kani::assert(vc::eq_window(vc::digits(&a), &a0) && vc::digits(&a).len() == $l, "VERIF clearing a bit beyond the top changed the value");
        }
    };
}

// BigInt::bit against the two's-complement window (any index; beyond the window = sign bit)
macro_rules! ibit_shape {
    ($name:ident, $neg:expr, $l:expr, $w:expr) => {
        #[kani::proof]
        #[kani::unwind(34)]
        fn $name() {
            let a0: [u64; $l] = vc::any_canon::<$l>();
            let x = mkint($neg, &a0);
            let t = tc::<$w>(&x);
            let i: u64 = kani::any();
            let e = if i >= 64 * $w { $neg && $l > 0 } else { vc::ref_bit(&t, i) };
            kani::assert(x.bit(i) == e, "VERIF BigInt::bit differs from the two's-complement expansion");
            kani::assert(x.trailing_zeros() == x.magnitude().trailing_zeros(), "VERIF BigInt::trailing_zeros");
            kani::assert(x.bits() == x.magnitude().bits(), "VERIF BigInt::bits");
        }
    };
}
// BigInt::set_bit against the window: index inside the window (so the result fits W digits)
macro_rules! iset_bit_shape {
    ($name:ident, $neg:expr, $l:expr, $w:expr, $bit:expr) => {
        #[kani::proof]
        #[kani::unwind(34)]
        #[kani::stub(alloc::vec::Vec::shrink_to_fit, vc::noop_shrink)]
        fn $name() {
            let a0: [u64; $l] = vc::any_canon::<$l>();
            let mut x = mkint($neg, &a0);
            let t = tc::<$w>(&x);
            let i: u64 = $bit;
            let v: bool = kani::any();
            x.set_bit(i, v);
            let mut e = t;
            let d = (i / 64) as usize;
            let m = 1u64 << (i % 64);
            if v {
                e[d] |= m;
            } else {
                e[d] &= !m;
            }
            check_int::<$w>(&x, &e);
            kani::cover!(true, "reach:end_of_harness");
        }
    };
}
// no-op cases far beyond the top: set on a negative value, clear on a non-negative value
macro_rules! iset_far_shape {
    ($name:ident, $neg:expr, $l:expr, $w:expr) => {
        #[kani::proof]
        #[kani::unwind(34)]
        fn $name() {
            let a0: [u64; $l] = vc::any_canon::<$l>();
            let mut x = mkint($neg, &a0);
            let t = tc::<$w>(&x);
            let i: u64 = kani::any();
            kani::assume(i >= 64 * $l);
            x.set_bit(i, $neg);
            check_int::<$w>(&x, &t);
        }
    };
}

// BEGIN GENERATED c07_bit_queries
uquery_shape!(c07_q_uquery_0, 0);
uset_bit_shape!(c07_t_uset_bit_0_b0, 0, 2, 0);
uset_bit_shape!(c07_t_uset_bit_0_b1, 0, 2, 1);
uset_bit_shape!(c07_t_uset_bit_0_b63, 0, 2, 63);
uset_bit_shape!(c07_t_uset_bit_0_b64, 0, 2, 64);
uset_bit_shape!(c07_t_uset_bit_0_b65, 0, 2, 65);
uset_bit_shape!(c07_t_uset_bit_0_b127, 0, 2, 127);
uclear_far_shape!(c07_q_uclear_far_0, 0);
uquery_shape!(c07_q_uquery_1, 1);
uset_bit_shape!(c07_q_uset_bit_1_b0, 1, 3, 0);
uset_bit_shape!(c07_t_uset_bit_1_b1, 1, 3, 1);
uset_bit_shape!(c07_q_uset_bit_1_b63, 1, 3, 63);
uset_bit_shape!(c07_q_uset_bit_1_b64, 1, 3, 64);
uset_bit_shape!(c07_t_uset_bit_1_b65, 1, 3, 65);
uset_bit_shape!(c07_q_uset_bit_1_b127, 1, 3, 127);
uset_bit_shape!(c07_q_uset_bit_1_b128, 1, 3, 128);
uset_bit_shape!(c07_t_uset_bit_1_b130, 1, 3, 130);
uset_bit_shape!(c07_t_uset_bit_1_b191, 1, 3, 191);
uclear_far_shape!(c07_q_uclear_far_1, 1);
uquery_shape!(c07_q_uquery_2, 2);
uset_bit_shape!(c07_q_uset_bit_2_b0, 2, 4, 0);
uset_bit_shape!(c07_t_uset_bit_2_b1, 2, 4, 1);
uset_bit_shape!(c07_q_uset_bit_2_b63, 2, 4, 63);
uset_bit_shape!(c07_q_uset_bit_2_b64, 2, 4, 64);
uset_bit_shape!(c07_t_uset_bit_2_b65, 2, 4, 65);
uset_bit_shape!(c07_q_uset_bit_2_b127, 2, 4, 127);
uset_bit_shape!(c07_q_uset_bit_2_b128, 2, 4, 128);
uset_bit_shape!(c07_t_uset_bit_2_b130, 2, 4, 130);
uset_bit_shape!(c07_t_uset_bit_2_b191, 2, 4, 191);
uset_bit_shape!(c07_t_uset_bit_2_b192, 2, 4, 192);
uclear_far_shape!(c07_t_uclear_far_2, 2);
uquery_shape!(c07_t_uquery_3, 3);
uset_bit_shape!(c07_t_uset_bit_3_b0, 3, 5, 0);
uset_bit_shape!(c07_t_uset_bit_3_b1, 3, 5, 1);
uset_bit_shape!(c07_t_uset_bit_3_b63, 3, 5, 63);
uset_bit_shape!(c07_t_uset_bit_3_b64, 3, 5, 64);
uset_bit_shape!(c07_t_uset_bit_3_b65, 3, 5, 65);
uset_bit_shape!(c07_t_uset_bit_3_b127, 3, 5, 127);
uset_bit_shape!(c07_t_uset_bit_3_b128, 3, 5, 128);
uset_bit_shape!(c07_t_uset_bit_3_b130, 3, 5, 130);
uset_bit_shape!(c07_t_uset_bit_3_b191, 3, 5, 191);
uset_bit_shape!(c07_t_uset_bit_3_b192, 3, 5, 192);
uclear_far_shape!(c07_t_uclear_far_3, 3);
ibit_shape!(c07_q_ibit_p0, false, 0, 1);
iset_bit_shape!(c07_t_iset_bit_p0_b0, false, 0, 3, 0);
iset_bit_shape!(c07_t_iset_bit_p0_b1, false, 0, 3, 1);
iset_bit_shape!(c07_t_iset_bit_p0_b63, false, 0, 3, 63);
iset_bit_shape!(c07_t_iset_bit_p0_b64, false, 0, 3, 64);
iset_bit_shape!(c07_t_iset_bit_p0_b65, false, 0, 3, 65);
iset_bit_shape!(c07_t_iset_bit_p0_b127, false, 0, 3, 127);
iset_far_shape!(c07_t_iset_far_p0, false, 0, 1);
ibit_shape!(c07_q_ibit_p1, false, 1, 2);
iset_bit_shape!(c07_q_iset_bit_p1_b0, false, 1, 4, 0);
iset_bit_shape!(c07_t_iset_bit_p1_b1, false, 1, 4, 1);
iset_bit_shape!(c07_q_iset_bit_p1_b63, false, 1, 4, 63);
iset_bit_shape!(c07_q_iset_bit_p1_b64, false, 1, 4, 64);
iset_bit_shape!(c07_t_iset_bit_p1_b65, false, 1, 4, 65);
iset_bit_shape!(c07_q_iset_bit_p1_b127, false, 1, 4, 127);
iset_bit_shape!(c07_q_iset_bit_p1_b128, false, 1, 4, 128);
iset_bit_shape!(c07_t_iset_bit_p1_b130, false, 1, 4, 130);
iset_bit_shape!(c07_t_iset_bit_p1_b191, false, 1, 4, 191);
iset_far_shape!(c07_q_iset_far_p1, false, 1, 2);
ibit_shape!(c07_q_ibit_p2, false, 2, 3);
iset_bit_shape!(c07_q_iset_bit_p2_b0, false, 2, 5, 0);
iset_bit_shape!(c07_t_iset_bit_p2_b1, false, 2, 5, 1);
iset_bit_shape!(c07_q_iset_bit_p2_b63, false, 2, 5, 63);
iset_bit_shape!(c07_q_iset_bit_p2_b64, false, 2, 5, 64);
iset_bit_shape!(c07_t_iset_bit_p2_b65, false, 2, 5, 65);
iset_bit_shape!(c07_q_iset_bit_p2_b127, false, 2, 5, 127);
iset_bit_shape!(c07_q_iset_bit_p2_b128, false, 2, 5, 128);
iset_bit_shape!(c07_t_iset_bit_p2_b130, false, 2, 5, 130);
iset_bit_shape!(c07_t_iset_bit_p2_b191, false, 2, 5, 191);
iset_bit_shape!(c07_t_iset_bit_p2_b192, false, 2, 5, 192);
iset_far_shape!(c07_t_iset_far_p2, false, 2, 3);
ibit_shape!(c07_t_ibit_p3, false, 3, 4);
iset_bit_shape!(c07_t_iset_bit_p3_b0, false, 3, 6, 0);
iset_bit_shape!(c07_t_iset_bit_p3_b1, false, 3, 6, 1);
iset_bit_shape!(c07_t_iset_bit_p3_b63, false, 3, 6, 63);
iset_bit_shape!(c07_t_iset_bit_p3_b64, false, 3, 6, 64);
iset_bit_shape!(c07_t_iset_bit_p3_b65, false, 3, 6, 65);
iset_bit_shape!(c07_t_iset_bit_p3_b127, false, 3, 6, 127);
iset_bit_shape!(c07_t_iset_bit_p3_b128, false, 3, 6, 128);
iset_bit_shape!(c07_t_iset_bit_p3_b130, false, 3, 6, 130);
iset_bit_shape!(c07_t_iset_bit_p3_b191, false, 3, 6, 191);
iset_bit_shape!(c07_t_iset_bit_p3_b192, false, 3, 6, 192);
iset_far_shape!(c07_t_iset_far_p3, false, 3, 4);
ibit_shape!(c07_q_ibit_m1, true, 1, 2);
iset_bit_shape!(c07_q_iset_bit_m1_b0, true, 1, 4, 0);
iset_bit_shape!(c07_t_iset_bit_m1_b1, true, 1, 4, 1);
iset_bit_shape!(c07_q_iset_bit_m1_b63, true, 1, 4, 63);
iset_bit_shape!(c07_q_iset_bit_m1_b64, true, 1, 4, 64);
iset_bit_shape!(c07_t_iset_bit_m1_b65, true, 1, 4, 65);
iset_bit_shape!(c07_q_iset_bit_m1_b127, true, 1, 4, 127);
iset_bit_shape!(c07_q_iset_bit_m1_b128, true, 1, 4, 128);
iset_bit_shape!(c07_t_iset_bit_m1_b130, true, 1, 4, 130);
iset_bit_shape!(c07_t_iset_bit_m1_b191, true, 1, 4, 191);
iset_far_shape!(c07_q_iset_far_m1, true, 1, 2);
ibit_shape!(c07_q_ibit_m2, true, 2, 3);
iset_bit_shape!(c07_q_iset_bit_m2_b0, true, 2, 5, 0);
iset_bit_shape!(c07_t_iset_bit_m2_b1, true, 2, 5, 1);
iset_bit_shape!(c07_q_iset_bit_m2_b63, true, 2, 5, 63);
iset_bit_shape!(c07_q_iset_bit_m2_b64, true, 2, 5, 64);
iset_bit_shape!(c07_t_iset_bit_m2_b65, true, 2, 5, 65);
iset_bit_shape!(c07_q_iset_bit_m2_b127, true, 2, 5, 127);
iset_bit_shape!(c07_q_iset_bit_m2_b128, true, 2, 5, 128);
iset_bit_shape!(c07_t_iset_bit_m2_b130, true, 2, 5, 130);
iset_bit_shape!(c07_t_iset_bit_m2_b191, true, 2, 5, 191);
iset_bit_shape!(c07_t_iset_bit_m2_b192, true, 2, 5, 192);
iset_far_shape!(c07_t_iset_far_m2, true, 2, 3);
ibit_shape!(c07_t_ibit_m3, true, 3, 4);
iset_bit_shape!(c07_t_iset_bit_m3_b0, true, 3, 6, 0);
iset_bit_shape!(c07_t_iset_bit_m3_b1, true, 3, 6, 1);
iset_bit_shape!(c07_t_iset_bit_m3_b63, true, 3, 6, 63);
iset_bit_shape!(c07_t_iset_bit_m3_b64, true, 3, 6, 64);
iset_bit_shape!(c07_t_iset_bit_m3_b65, true, 3, 6, 65);
iset_bit_shape!(c07_t_iset_bit_m3_b127, true, 3, 6, 127);
iset_bit_shape!(c07_t_iset_bit_m3_b128, true, 3, 6, 128);
iset_bit_shape!(c07_t_iset_bit_m3_b130, true, 3, 6, 130);
iset_bit_shape!(c07_t_iset_bit_m3_b191, true, 3, 6, 191);
iset_bit_shape!(c07_t_iset_bit_m3_b192, true, 3, 6, 192);
iset_far_shape!(c07_t_iset_far_m3, true, 3, 4);
// END GENERATED
