// C07 — BigUint shifts (anchored in src/biguint/shift.rs): x << k == x * 2^k, x >> k == floor(x / 2^k)
#![allow(unused_imports, dead_code, static_mut_refs)]
use super::*;
use crate::biguint::verif_common as vc;
use alloc::borrow::Cow;
use alloc::{vec, vec::Vec};

// shl2 / shr2 through Cow::Borrowed: word shift concrete, bit shift symbolic 0..63
macro_rules! shl2_shape {
    ($name:ident, $l:expr, $digits:expr, $w:expr) => {
        #[kani::proof]
        #[kani::unwind(34)]
        #[kani::stub(alloc::vec::Vec::shrink_to_fit, vc::noop_shrink)]
        fn $name() {
            let a0: [u64; $l] = vc::any_canon::<$l>();
            let a = vc::mk_from(&a0);
            let s: u8 = kani::any();
            kani::assume(s < 64);
            let r = biguint_shl2(Cow::Borrowed(&a), $digits, s);
            let (e, lost) = vc::ref_shl::<$w>(&a0, $digits, s as u32);
            kani::assert(!lost, "VERIF window too small");
            kani::assert(vc::eq_window(vc::digits(&r), &e), "VERIF x << k differs from x * 2^k");
            kani::assert(vc::is_canonical(&r), "VERIF result not canonical");
            kani::cover!($l == 0 || vc::digits(&r).len() == $l + $digits + 1, "reach:carry_digit_pushed");
            kani::cover!(s == 0, "reach:bit_shift_zero");
        }
    };
}
macro_rules! shr2_shape {
    ($name:ident, $l:expr, $digits:expr) => {
        #[kani::proof]
        #[kani::unwind(34)]
        #[kani::stub(alloc::vec::Vec::shrink_to_fit, vc::noop_shrink)]
        fn $name() {
            let a0: [u64; $l] = vc::any_canon::<$l>();
            let a = vc::mk_from(&a0);
            let s: u8 = kani::any();
            kani::assume(s < 64);
            let r = biguint_shr2(Cow::Borrowed(&a), $digits, s);
            let (e, _) = vc::ref_shr::<4>(&a0, $digits, s as u32);
            kani::assert(vc::eq_window(vc::digits(&r), &e), "VERIF x >> k differs from floor(x / 2^k)");
            kani::assert(vc::is_canonical(&r), "VERIF result not canonical");
            kani::cover!($digits >= $l || vc::digits(&r).len() == $l - $digits - 1, "reach:top_digit_vanished");
        }
    };
}
// by-value arms (Cow::Owned: into_owned / drain) at concrete bit shifts
macro_rules! shl2_owned_shape {
    ($name:ident, $l:expr, $digits:expr, $s:expr, $w:expr) => {
        #[kani::proof]
        #[kani::unwind(34)]
        #[kani::stub(alloc::vec::Vec::shrink_to_fit, vc::noop_shrink)]
        fn $name() {
            let a0: [u64; $l] = vc::any_canon::<$l>();
            let a = vc::mk_from(&a0);
            let r = biguint_shl2(Cow::Owned(a), $digits, $s);
            let (e, lost) = vc::ref_shl::<$w>(&a0, $digits, $s);
            kani::assert(!lost, "VERIF window too small");
            kani::assert(vc::eq_window(vc::digits(&r), &e), "VERIF (by value) x << k differs from x * 2^k");
            kani::assert(vc::is_canonical(&r), "VERIF result not canonical");
        }
    };
}
macro_rules! shr2_owned_shape {
    ($name:ident, $l:expr, $digits:expr, $s:expr) => {
        #[kani::proof]
        #[kani::unwind(34)]
        #[kani::stub(alloc::vec::Vec::shrink_to_fit, vc::noop_shrink)]
        fn $name() {
            let a0: [u64; $l] = vc::any_canon::<$l>();
            let a = vc::mk_from(&a0);
            let r = biguint_shr2(Cow::Owned(a), $digits, $s);
            let (e, _) = vc::ref_shr::<4>(&a0, $digits, $s);
            kani::assert(vc::eq_window(vc::digits(&r), &e), "VERIF (by value) x >> k differs from floor(x / 2^k)");
            kani::assert(vc::is_canonical(&r), "VERIF result not canonical");
        }
    };
}

// amount decomposition in biguint_shl / biguint_shr for every primitive shift type, with shl2/shr2 recorded
static mut REC_DIGITS: usize = 0;
static mut REC_BITS: u8 = 0;
static mut REC_CALLS: u32 = 0;
fn rec_shift2(n: Cow<'_, BigUint>, digits: usize, shift: u8) -> BigUint {
    unsafe {
        REC_DIGITS = digits;
        REC_BITS = shift;
        REC_CALLS += 1;
    }
    let _ = n;
    BigUint::ZERO
}
macro_rules! amount_shape {
    ($name:ident, $T:ty, $neg_possible:expr) => {
        #[kani::proof]
        #[kani::unwind(34)]
        #[kani::stub(biguint_shl2, rec_shift2)]
        #[kani::stub(crate::biguint::verif_common::symbolic, crate::biguint::verif_common::yes)]
        #[kani::stub(biguint_shr2, rec_shift2)]
        fn $name() {
            let a0: [u64; 1] = vc::any_canon::<1>();
            let a = vc::mk_from(&a0);
            let k: $T = kani::any();
            kani::assume(k >= 0 as $T);
            // amounts whose word part does not fit usize are out of scope for << (memory exhaustion)
            kani::assume((k as u128) / 64 <= usize::MAX as u128);
            let left: bool = kani::any();
            unsafe { REC_CALLS = 0; }
            if !vc::symbolic() {
                // native replay (only feasible for small amounts): compare with the window oracle
                if (k as u128) < 128 {
                    let r = if left { &a << k } else { &a >> k };
                    let e = if left { vc::ref_shl::<4>(&a0, (k as usize) / 64, (k as u32) % 64).0 } else { vc::ref_shr::<4>(&a0, (k as usize) / 64, (k as u32) % 64).0 };
                    kani::assert(vc::eq_window(vc::digits(&r), &e), "VERIF word part of the shift amount");
                }
                return;
            }
            let _ = if left { &a << k } else { &a >> k };
            kani::assert(unsafe { REC_CALLS } == 1, "VERIF shift kernel not called exactly once");
            kani::assert(unsafe { REC_DIGITS } as u128 == (k as u128) / 64, "VERIF word part of the shift amount");
            kani::assert(unsafe { REC_BITS } as u128 == (k as u128) % 64, "VERIF bit part of the shift amount");
        }
    };
}
macro_rules! amount_neg_mp {
    ($name:ident, $T:ty, $left:expr) => {
        #[kani::proof]
        #[kani::unwind(34)]
        #[kani::stub(biguint_shl2, rec_shift2)]
        #[kani::stub(crate::biguint::verif_common::symbolic, crate::biguint::verif_common::yes)]
        #[kani::stub(biguint_shr2, rec_shift2)]
        fn $name() {
            let a0: [u64; 1] = kani::any();
            let a = if a0[0] == 0 { BigUint::ZERO } else { vc::mk_from(&a0) };
            let k: $T = kani::any();
            kani::assume(k < 0 as $T);
            let _ = if $left { &a << k } else { &a >> k };
            kani::assert(false, "VERIF_SURVIVED shift by a negative amount returned");
        }
    };
}
// zero is a fixed point for every amount, including amounts that would overflow for non-zero values
macro_rules! amount_zero_shape {
    ($name:ident, $T:ty) => {
        #[kani::proof]
        #[kani::unwind(34)]
        fn $name() {
            let k: $T = kani::any();
            kani::assume(k >= 0 as $T);
            let z = BigUint::ZERO;
            let l = &z << k;
            let r = &z >> k;
            kani::assert(vc::digits(&l).is_empty() && vc::digits(&r).is_empty(), "VERIF 0 << k or 0 >> k is not 0");
        }
    };
}
// >> by an amount whose word part exceeds usize: saturates, result zero
#[kani::proof]
#[kani::unwind(34)]
#[kani::stub(biguint_shr2, rec_shift2)]
#[kani::stub(crate::biguint::verif_common::symbolic, crate::biguint::verif_common::yes)]
fn c07_q_shr_huge_u128() {
    let a0: [u64; 2] = vc::any_canon::<2>();
    let a = vc::mk_from(&a0);
    let k: u128 = kani::any();
    kani::assume(k / 64 > usize::MAX as u128);
    unsafe { REC_CALLS = 0; }
    if !vc::symbolic() {
        let r = &a >> k;
        kani::assert(vc::digits(&r).is_empty(), "VERIF x >> huge does not saturate the word count");
        return;
    }
    let _ = &a >> k;
    // saturates: the kernel is asked to drop usize::MAX words (=> zero, see c07_*_shr2_1_w3)
    kani::assert(unsafe { REC_CALLS } == 1 && unsafe { REC_DIGITS } == usize::MAX, "VERIF x >> huge does not saturate the word count");
}

// Stand-ins for biguint_shl / biguint_shr used by the BigInt shift harnesses (src/bigint/shift.rs): same code, but the
// word count handed to the REAL shl2/shr2 kernels is the concrete DG of the query (asserted equal to shift / 64), so the
// kernels run with a concrete word shift and a symbolic bit shift. The decomposition itself is decided by c07_*_amount_*.
macro_rules! fixed_word_shift {
    ($shl:ident, $shr:ident, $dg:expr) => {
        pub(crate) fn $shl<T: PrimInt>(n: Cow<'_, BigUint>, shift: T) -> BigUint {
            if shift < T::zero() {
                panic!("attempt to shift left with negative");
            }
            if n.is_zero() {
                return n.into_owned();
            }
            let bits = T::from(big_digit::BITS).unwrap();
            kani::assert((shift / bits).to_usize() == Some($dg), "VERIF harness word count mismatch");
            biguint_shl2(n, $dg, (shift % bits).to_u8().unwrap())
        }
        pub(crate) fn $shr<T: PrimInt>(n: Cow<'_, BigUint>, shift: T) -> BigUint {
            if shift < T::zero() {
                panic!("attempt to shift right with negative");
            }
            if n.is_zero() {
                return n.into_owned();
            }
            let bits = T::from(big_digit::BITS).unwrap();
            kani::assert((shift / bits).to_usize() == Some($dg), "VERIF harness word count mismatch");
            biguint_shr2(n, $dg, (shift % bits).to_u8().unwrap())
        }
    };
}
// same, but the kernels are entered through Cow::Borrowed (identical results; the by-value arms `into_owned`/`drain`
// are decided separately by c07_t_sh?2_owned_*): used where the caller passes an owned value and only the value matters
macro_rules! fixed_word_shift_borrowed {
    ($shl:ident, $shr:ident, $dg:expr) => {
        pub(crate) fn $shl<T: PrimInt>(n: Cow<'_, BigUint>, shift: T) -> BigUint {
            if shift < T::zero() {
                panic!("attempt to shift left with negative");
            }
            if n.is_zero() {
                return BigUint::ZERO;
            }
            let bits = T::from(big_digit::BITS).unwrap();
            kani::assert((shift / bits).to_usize() == Some($dg), "VERIF harness word count mismatch");
            let b: &BigUint = &n;
            biguint_shl2(Cow::Borrowed(b), $dg, (shift % bits).to_u8().unwrap())
        }
        pub(crate) fn $shr<T: PrimInt>(n: Cow<'_, BigUint>, shift: T) -> BigUint {
            if shift < T::zero() {
                panic!("attempt to shift right with negative");
            }
            if n.is_zero() {
                return BigUint::ZERO;
            }
            let bits = T::from(big_digit::BITS).unwrap();
            kani::assert((shift / bits).to_usize() == Some($dg), "VERIF harness word count mismatch");
            let b: &BigUint = &n;
            biguint_shr2(Cow::Borrowed(b), $dg, (shift % bits).to_u8().unwrap())
        }
    };
}
fixed_word_shift_borrowed!(shl_fixedb_0, shr_fixedb_0, 0);
fixed_word_shift_borrowed!(shl_fixedb_1, shr_fixedb_1, 1);
fixed_word_shift_borrowed!(shl_fixedb_7, shr_fixedb_7, 7);
fixed_word_shift_borrowed!(shl_fixedb_15, shr_fixedb_15, 15);
// same idea with a two-way case split on the word count (0 or 1): each arm enters the REAL kernel with a concrete word shift.
// Used by the C13 Stein-gcd harness on operands whose low word is zero (word shift 1 first, 0 inside the loop, 1 at the end).
pub(crate) fn shl_split01<T: PrimInt>(n: Cow<'_, BigUint>, shift: T) -> BigUint {
    if shift < T::zero() {
        panic!("attempt to shift left with negative");
    }
    if n.is_zero() {
        return BigUint::ZERO;
    }
    let bits = T::from(big_digit::BITS).unwrap();
    let dg = (shift / bits).to_usize();
    let sh = (shift % bits).to_u8().unwrap();
    let b: &BigUint = &n;
    if dg == Some(0) {
        biguint_shl2(Cow::Borrowed(b), 0, sh)
    } else {
        kani::assert(dg == Some(1), "VERIF harness word count mismatch");
        biguint_shl2(Cow::Borrowed(b), 1, sh)
    }
}
pub(crate) fn shr_split01<T: PrimInt>(n: Cow<'_, BigUint>, shift: T) -> BigUint {
    if shift < T::zero() {
        panic!("attempt to shift right with negative");
    }
    if n.is_zero() {
        return BigUint::ZERO;
    }
    let bits = T::from(big_digit::BITS).unwrap();
    let dg = (shift / bits).to_usize();
    let sh = (shift % bits).to_u8().unwrap();
    let b: &BigUint = &n;
    if dg == Some(0) {
        biguint_shr2(Cow::Borrowed(b), 0, sh)
    } else {
        kani::assert(dg == Some(1), "VERIF harness word count mismatch");
        biguint_shr2(Cow::Borrowed(b), 1, sh)
    }
}
// stand-ins for `BigUint <<= usize` (ShlAssign: mem::replace + by-value shift) used by the from_f64 harnesses: the REAL kernel is entered
// through Cow::Borrowed with the concrete word count of the query (asserted); the by-value wrapper is decided by c07_*_shl2_owned_*
macro_rules! fixed_word_shl_assign {
    ($name:ident, $dg:expr) => {
        pub(crate) fn $name(x: &mut BigUint, shift: usize) {
            if x.is_zero() {
                return;
            }
            kani::assert(shift / 64 == $dg, "VERIF harness word count mismatch");
            let r = {
                let b: &BigUint = &*x;
                biguint_shl2(Cow::Borrowed(b), $dg, (shift % 64) as u8)
            };
            *x = r;
        }
    };
}
fixed_word_shl_assign!(shl_assign_fixed_0, 0);
fixed_word_shl_assign!(shl_assign_fixed_1, 1);
fixed_word_shl_assign!(shl_assign_fixed_2, 2);
fixed_word_shl_assign!(shl_assign_fixed_15, 15);
fixed_word_shift!(shl_fixed_0, shr_fixed_0, 0);
fixed_word_shift!(shl_fixed_1, shr_fixed_1, 1);
fixed_word_shift!(shl_fixed_2, shr_fixed_2, 2);
fixed_word_shift!(shl_fixed_3, shr_fixed_3, 3);
fixed_word_shift!(shl_fixed_7, shr_fixed_7, 7);
fixed_word_shift!(shl_fixed_8, shr_fixed_8, 8);
fixed_word_shift!(shl_fixed_14, shr_fixed_14, 14);
fixed_word_shift!(shl_fixed_15, shr_fixed_15, 15);

// BEGIN GENERATED c07_biguint_shift
shl2_shape!(c07_t_shl2_0_w0, 0, 0, 1);
shr2_shape!(c07_q_shr2_0_w0, 0, 0);
shl2_shape!(c07_q_shl2_0_w1, 0, 1, 2);
shr2_shape!(c07_t_shr2_0_w1, 0, 1);
shl2_shape!(c07_t_shl2_0_w2, 0, 2, 3);
shr2_shape!(c07_t_shr2_0_w2, 0, 2);
shl2_shape!(c07_t_shl2_0_w3, 0, 3, 4);
shr2_shape!(c07_t_shr2_0_w3, 0, 3);
shl2_shape!(c07_q_shl2_1_w0, 1, 0, 2);
shr2_shape!(c07_q_shr2_1_w0, 1, 0);
shl2_shape!(c07_t_shl2_1_w1, 1, 1, 3);
shr2_shape!(c07_t_shr2_1_w1, 1, 1);
shl2_shape!(c07_q_shl2_1_w2, 1, 2, 4);
shr2_shape!(c07_t_shr2_1_w2, 1, 2);
shl2_shape!(c07_t_shl2_1_w3, 1, 3, 5);
shr2_shape!(c07_q_shr2_1_w3, 1, 3);
shl2_shape!(c07_t_shl2_2_w0, 2, 0, 3);
shr2_shape!(c07_t_shr2_2_w0, 2, 0);
shl2_shape!(c07_q_shl2_2_w1, 2, 1, 4);
shr2_shape!(c07_q_shr2_2_w1, 2, 1);
shl2_shape!(c07_t_shl2_2_w2, 2, 2, 5);
shr2_shape!(c07_q_shr2_2_w2, 2, 2);
shl2_shape!(c07_t_shl2_2_w3, 2, 3, 6);
shr2_shape!(c07_t_shr2_2_w3, 2, 3);
shl2_shape!(c07_q_shl2_3_w0, 3, 0, 4);
shr2_shape!(c07_q_shr2_3_w0, 3, 0);
shl2_shape!(c07_t_shl2_3_w1, 3, 1, 5);
shr2_shape!(c07_t_shr2_3_w1, 3, 1);
shl2_shape!(c07_t_shl2_3_w2, 3, 2, 6);
shr2_shape!(c07_q_shr2_3_w2, 3, 2);
shl2_shape!(c07_t_shl2_3_w3, 3, 3, 7);
shr2_shape!(c07_t_shr2_3_w3, 3, 3);
shl2_owned_shape!(c07_t_shl2_owned_2_w0_b0, 2, 0, 0, 3);
shr2_owned_shape!(c07_t_shr2_owned_3_w0_b0, 3, 0, 0);
shl2_owned_shape!(c07_t_shl2_owned_2_w0_b1, 2, 0, 1, 3);
shr2_owned_shape!(c07_t_shr2_owned_3_w0_b1, 3, 0, 1);
shl2_owned_shape!(c07_t_shl2_owned_2_w1_b63, 2, 1, 63, 4);
shr2_owned_shape!(c07_t_shr2_owned_3_w1_b63, 3, 1, 63);
shl2_owned_shape!(c07_t_shl2_owned_1_w2_b7, 1, 2, 7, 4);
shr2_owned_shape!(c07_t_shr2_owned_2_w2_b7, 2, 2, 7);
shl2_owned_shape!(c07_t_shl2_owned_2_w1_b0, 2, 1, 0, 4);
shr2_owned_shape!(c07_t_shr2_owned_3_w1_b0, 3, 1, 0);
amount_shape!(c07_q_amount_u8, u8, false);
amount_zero_shape!(c07_q_amount_zero_u8, u8);
amount_shape!(c07_t_amount_u16, u16, false);
amount_zero_shape!(c07_t_amount_zero_u16, u16);
amount_shape!(c07_t_amount_u32, u32, false);
amount_zero_shape!(c07_t_amount_zero_u32, u32);
amount_shape!(c07_q_amount_u64, u64, false);
amount_zero_shape!(c07_q_amount_zero_u64, u64);
amount_shape!(c07_q_amount_u128, u128, false);
amount_zero_shape!(c07_q_amount_zero_u128, u128);
amount_shape!(c07_t_amount_usize, usize, false);
amount_zero_shape!(c07_t_amount_zero_usize, usize);
amount_shape!(c07_t_amount_i8, i8, true);
amount_zero_shape!(c07_t_amount_zero_i8, i8);
amount_neg_mp!(c07_q_shl_neg_i8_mp, i8, true);
amount_neg_mp!(c07_t_shr_neg_i8_mp, i8, false);
amount_shape!(c07_t_amount_i16, i16, true);
amount_zero_shape!(c07_t_amount_zero_i16, i16);
amount_neg_mp!(c07_t_shl_neg_i16_mp, i16, true);
amount_neg_mp!(c07_t_shr_neg_i16_mp, i16, false);
amount_shape!(c07_q_amount_i32, i32, true);
amount_zero_shape!(c07_q_amount_zero_i32, i32);
amount_neg_mp!(c07_t_shl_neg_i32_mp, i32, true);
amount_neg_mp!(c07_q_shr_neg_i32_mp, i32, false);
amount_shape!(c07_t_amount_i64, i64, true);
amount_zero_shape!(c07_t_amount_zero_i64, i64);
amount_neg_mp!(c07_q_shl_neg_i64_mp, i64, true);
amount_neg_mp!(c07_t_shr_neg_i64_mp, i64, false);
amount_shape!(c07_q_amount_i128, i128, true);
amount_zero_shape!(c07_q_amount_zero_i128, i128);
amount_neg_mp!(c07_t_shl_neg_i128_mp, i128, true);
amount_neg_mp!(c07_q_shr_neg_i128_mp, i128, false);
amount_shape!(c07_t_amount_isize, isize, true);
amount_zero_shape!(c07_t_amount_zero_isize, isize);
amount_neg_mp!(c07_t_shl_neg_isize_mp, isize, true);
amount_neg_mp!(c07_t_shr_neg_isize_mp, isize, false);
// END GENERATED
