// C07 — BigUint & | ^ (anchored in src/biguint/bits.rs)
#![allow(unused_imports, dead_code)]
use super::*;
use crate::biguint::verif_common as vc;
use alloc::{vec, vec::Vec};

macro_rules! ubitop_shape {
    ($name:ident, $opk:expr, $la:expr, $lb:expr, |$a:ident, $b:ident| $e:expr) => {
        #[kani::proof]
        #[kani::unwind(34)]
        #[kani::stub(alloc::vec::Vec::shrink_to_fit, vc::noop_shrink)]
        fn $name() {
            let a0: [u64; $la] = vc::any_canon::<$la>();
            let b0: [u64; $lb] = vc::any_canon::<$lb>();
            let $a = vc::mk_from(&a0);
            let $b = vc::mk_from(&b0);
            let r: BigUint = $e;
            let mut e = [0u64; 4];
            let mut i = 0;
            while i < 4 {
                let x = vc::dig(&a0, i);
                let y = vc::dig(&b0, i);
                e[i] = match $opk {
                    0 => x & y,
                    1 => x | y,
                    _ => x ^ y,
                };
                i += 1;
            }
            kani::assert(vc::eq_window(vc::digits(&r), &e), "VERIF BigUint bit operation differs digit-wise");
            kani::assert(vc::is_canonical(&r), "VERIF result not canonical");
        }
    };
}
// BEGIN GENERATED c07_biguint_bits
ubitop_shape!(c07_t_uand_rr_0_0, 0, 0, 0, |a, b| &a & &b);
ubitop_shape!(c07_q_uand_rr_0_1, 0, 0, 1, |a, b| &a & &b);
ubitop_shape!(c07_t_uand_rr_0_2, 0, 0, 2, |a, b| &a & &b);
ubitop_shape!(c07_t_uand_rr_0_3, 0, 0, 3, |a, b| &a & &b);
ubitop_shape!(c07_t_uand_rr_1_0, 0, 1, 0, |a, b| &a & &b);
ubitop_shape!(c07_q_uand_rr_1_1, 0, 1, 1, |a, b| &a & &b);
ubitop_shape!(c07_q_uand_rr_1_2, 0, 1, 2, |a, b| &a & &b);
ubitop_shape!(c07_t_uand_rr_1_3, 0, 1, 3, |a, b| &a & &b);
ubitop_shape!(c07_t_uand_rr_2_0, 0, 2, 0, |a, b| &a & &b);
ubitop_shape!(c07_q_uand_rr_2_1, 0, 2, 1, |a, b| &a & &b);
ubitop_shape!(c07_q_uand_rr_2_2, 0, 2, 2, |a, b| &a & &b);
ubitop_shape!(c07_t_uand_rr_2_3, 0, 2, 3, |a, b| &a & &b);
ubitop_shape!(c07_q_uand_rr_3_0, 0, 3, 0, |a, b| &a & &b);
ubitop_shape!(c07_t_uand_rr_3_1, 0, 3, 1, |a, b| &a & &b);
ubitop_shape!(c07_t_uand_rr_3_2, 0, 3, 2, |a, b| &a & &b);
ubitop_shape!(c07_t_uand_rr_3_3, 0, 3, 3, |a, b| &a & &b);
ubitop_shape!(c07_t_uand_as_0_0, 0, 0, 0, |a, b| { let mut x = a; x &= &b; x });
ubitop_shape!(c07_q_uand_as_0_1, 0, 0, 1, |a, b| { let mut x = a; x &= &b; x });
ubitop_shape!(c07_t_uand_as_0_2, 0, 0, 2, |a, b| { let mut x = a; x &= &b; x });
ubitop_shape!(c07_t_uand_as_0_3, 0, 0, 3, |a, b| { let mut x = a; x &= &b; x });
ubitop_shape!(c07_t_uand_as_1_0, 0, 1, 0, |a, b| { let mut x = a; x &= &b; x });
ubitop_shape!(c07_q_uand_as_1_1, 0, 1, 1, |a, b| { let mut x = a; x &= &b; x });
ubitop_shape!(c07_q_uand_as_1_2, 0, 1, 2, |a, b| { let mut x = a; x &= &b; x });
ubitop_shape!(c07_t_uand_as_1_3, 0, 1, 3, |a, b| { let mut x = a; x &= &b; x });
ubitop_shape!(c07_t_uand_as_2_0, 0, 2, 0, |a, b| { let mut x = a; x &= &b; x });
ubitop_shape!(c07_q_uand_as_2_1, 0, 2, 1, |a, b| { let mut x = a; x &= &b; x });
ubitop_shape!(c07_q_uand_as_2_2, 0, 2, 2, |a, b| { let mut x = a; x &= &b; x });
ubitop_shape!(c07_t_uand_as_2_3, 0, 2, 3, |a, b| { let mut x = a; x &= &b; x });
ubitop_shape!(c07_q_uand_as_3_0, 0, 3, 0, |a, b| { let mut x = a; x &= &b; x });
ubitop_shape!(c07_t_uand_as_3_1, 0, 3, 1, |a, b| { let mut x = a; x &= &b; x });
ubitop_shape!(c07_t_uand_as_3_2, 0, 3, 2, |a, b| { let mut x = a; x &= &b; x });
ubitop_shape!(c07_t_uand_as_3_3, 0, 3, 3, |a, b| { let mut x = a; x &= &b; x });
ubitop_shape!(c07_t_uand_vv_1_2, 0, 1, 2, |a, b| a & b);
ubitop_shape!(c07_t_uand_vv_2_1, 0, 2, 1, |a, b| a & b);
ubitop_shape!(c07_t_uand_vv_2_2, 0, 2, 2, |a, b| a & b);
ubitop_shape!(c07_t_uand_rv_1_2, 0, 1, 2, |a, b| &a & b);
ubitop_shape!(c07_t_uand_rv_2_1, 0, 2, 1, |a, b| &a & b);
ubitop_shape!(c07_t_uand_rv_2_2, 0, 2, 2, |a, b| &a & b);
ubitop_shape!(c07_t_uor_rr_0_0, 1, 0, 0, |a, b| &a | &b);
ubitop_shape!(c07_q_uor_rr_0_1, 1, 0, 1, |a, b| &a | &b);
ubitop_shape!(c07_t_uor_rr_0_2, 1, 0, 2, |a, b| &a | &b);
ubitop_shape!(c07_t_uor_rr_0_3, 1, 0, 3, |a, b| &a | &b);
ubitop_shape!(c07_t_uor_rr_1_0, 1, 1, 0, |a, b| &a | &b);
ubitop_shape!(c07_q_uor_rr_1_1, 1, 1, 1, |a, b| &a | &b);
ubitop_shape!(c07_q_uor_rr_1_2, 1, 1, 2, |a, b| &a | &b);
ubitop_shape!(c07_t_uor_rr_1_3, 1, 1, 3, |a, b| &a | &b);
ubitop_shape!(c07_t_uor_rr_2_0, 1, 2, 0, |a, b| &a | &b);
ubitop_shape!(c07_q_uor_rr_2_1, 1, 2, 1, |a, b| &a | &b);
ubitop_shape!(c07_q_uor_rr_2_2, 1, 2, 2, |a, b| &a | &b);
ubitop_shape!(c07_t_uor_rr_2_3, 1, 2, 3, |a, b| &a | &b);
ubitop_shape!(c07_q_uor_rr_3_0, 1, 3, 0, |a, b| &a | &b);
ubitop_shape!(c07_t_uor_rr_3_1, 1, 3, 1, |a, b| &a | &b);
ubitop_shape!(c07_t_uor_rr_3_2, 1, 3, 2, |a, b| &a | &b);
ubitop_shape!(c07_t_uor_rr_3_3, 1, 3, 3, |a, b| &a | &b);
ubitop_shape!(c07_t_uor_as_0_0, 1, 0, 0, |a, b| { let mut x = a; x |= &b; x });
ubitop_shape!(c07_q_uor_as_0_1, 1, 0, 1, |a, b| { let mut x = a; x |= &b; x });
ubitop_shape!(c07_t_uor_as_0_2, 1, 0, 2, |a, b| { let mut x = a; x |= &b; x });
ubitop_shape!(c07_t_uor_as_0_3, 1, 0, 3, |a, b| { let mut x = a; x |= &b; x });
ubitop_shape!(c07_t_uor_as_1_0, 1, 1, 0, |a, b| { let mut x = a; x |= &b; x });
ubitop_shape!(c07_q_uor_as_1_1, 1, 1, 1, |a, b| { let mut x = a; x |= &b; x });
ubitop_shape!(c07_q_uor_as_1_2, 1, 1, 2, |a, b| { let mut x = a; x |= &b; x });
ubitop_shape!(c07_t_uor_as_1_3, 1, 1, 3, |a, b| { let mut x = a; x |= &b; x });
ubitop_shape!(c07_t_uor_as_2_0, 1, 2, 0, |a, b| { let mut x = a; x |= &b; x });
ubitop_shape!(c07_q_uor_as_2_1, 1, 2, 1, |a, b| { let mut x = a; x |= &b; x });
ubitop_shape!(c07_q_uor_as_2_2, 1, 2, 2, |a, b| { let mut x = a; x |= &b; x });
ubitop_shape!(c07_t_uor_as_2_3, 1, 2, 3, |a, b| { let mut x = a; x |= &b; x });
ubitop_shape!(c07_q_uor_as_3_0, 1, 3, 0, |a, b| { let mut x = a; x |= &b; x });
ubitop_shape!(c07_t_uor_as_3_1, 1, 3, 1, |a, b| { let mut x = a; x |= &b; x });
ubitop_shape!(c07_t_uor_as_3_2, 1, 3, 2, |a, b| { let mut x = a; x |= &b; x });
ubitop_shape!(c07_t_uor_as_3_3, 1, 3, 3, |a, b| { let mut x = a; x |= &b; x });
ubitop_shape!(c07_t_uor_vv_1_2, 1, 1, 2, |a, b| a | b);
ubitop_shape!(c07_t_uor_vv_2_1, 1, 2, 1, |a, b| a | b);
ubitop_shape!(c07_t_uor_vv_2_2, 1, 2, 2, |a, b| a | b);
ubitop_shape!(c07_t_uor_rv_1_2, 1, 1, 2, |a, b| &a | b);
ubitop_shape!(c07_t_uor_rv_2_1, 1, 2, 1, |a, b| &a | b);
ubitop_shape!(c07_t_uor_rv_2_2, 1, 2, 2, |a, b| &a | b);
ubitop_shape!(c07_t_uxor_rr_0_0, 2, 0, 0, |a, b| &a ^ &b);
ubitop_shape!(c07_q_uxor_rr_0_1, 2, 0, 1, |a, b| &a ^ &b);
ubitop_shape!(c07_t_uxor_rr_0_2, 2, 0, 2, |a, b| &a ^ &b);
ubitop_shape!(c07_t_uxor_rr_0_3, 2, 0, 3, |a, b| &a ^ &b);
ubitop_shape!(c07_t_uxor_rr_1_0, 2, 1, 0, |a, b| &a ^ &b);
ubitop_shape!(c07_q_uxor_rr_1_1, 2, 1, 1, |a, b| &a ^ &b);
ubitop_shape!(c07_q_uxor_rr_1_2, 2, 1, 2, |a, b| &a ^ &b);
ubitop_shape!(c07_t_uxor_rr_1_3, 2, 1, 3, |a, b| &a ^ &b);
ubitop_shape!(c07_t_uxor_rr_2_0, 2, 2, 0, |a, b| &a ^ &b);
ubitop_shape!(c07_q_uxor_rr_2_1, 2, 2, 1, |a, b| &a ^ &b);
ubitop_shape!(c07_q_uxor_rr_2_2, 2, 2, 2, |a, b| &a ^ &b);
ubitop_shape!(c07_t_uxor_rr_2_3, 2, 2, 3, |a, b| &a ^ &b);
ubitop_shape!(c07_q_uxor_rr_3_0, 2, 3, 0, |a, b| &a ^ &b);
ubitop_shape!(c07_t_uxor_rr_3_1, 2, 3, 1, |a, b| &a ^ &b);
ubitop_shape!(c07_t_uxor_rr_3_2, 2, 3, 2, |a, b| &a ^ &b);
ubitop_shape!(c07_t_uxor_rr_3_3, 2, 3, 3, |a, b| &a ^ &b);
ubitop_shape!(c07_t_uxor_as_0_0, 2, 0, 0, |a, b| { let mut x = a; x ^= &b; x });
ubitop_shape!(c07_q_uxor_as_0_1, 2, 0, 1, |a, b| { let mut x = a; x ^= &b; x });
ubitop_shape!(c07_t_uxor_as_0_2, 2, 0, 2, |a, b| { let mut x = a; x ^= &b; x });
ubitop_shape!(c07_t_uxor_as_0_3, 2, 0, 3, |a, b| { let mut x = a; x ^= &b; x });
ubitop_shape!(c07_t_uxor_as_1_0, 2, 1, 0, |a, b| { let mut x = a; x ^= &b; x });
ubitop_shape!(c07_q_uxor_as_1_1, 2, 1, 1, |a, b| { let mut x = a; x ^= &b; x });
ubitop_shape!(c07_q_uxor_as_1_2, 2, 1, 2, |a, b| { let mut x = a; x ^= &b; x });
ubitop_shape!(c07_t_uxor_as_1_3, 2, 1, 3, |a, b| { let mut x = a; x ^= &b; x });
ubitop_shape!(c07_t_uxor_as_2_0, 2, 2, 0, |a, b| { let mut x = a; x ^= &b; x });
ubitop_shape!(c07_q_uxor_as_2_1, 2, 2, 1, |a, b| { let mut x = a; x ^= &b; x });
ubitop_shape!(c07_q_uxor_as_2_2, 2, 2, 2, |a, b| { let mut x = a; x ^= &b; x });
ubitop_shape!(c07_t_uxor_as_2_3, 2, 2, 3, |a, b| { let mut x = a; x ^= &b; x });
ubitop_shape!(c07_q_uxor_as_3_0, 2, 3, 0, |a, b| { let mut x = a; x ^= &b; x });
ubitop_shape!(c07_t_uxor_as_3_1, 2, 3, 1, |a, b| { let mut x = a; x ^= &b; x });
ubitop_shape!(c07_t_uxor_as_3_2, 2, 3, 2, |a, b| { let mut x = a; x ^= &b; x });
ubitop_shape!(c07_t_uxor_as_3_3, 2, 3, 3, |a, b| { let mut x = a; x ^= &b; x });
ubitop_shape!(c07_t_uxor_vv_1_2, 2, 1, 2, |a, b| a ^ b);
ubitop_shape!(c07_t_uxor_vv_2_1, 2, 2, 1, |a, b| a ^ b);
ubitop_shape!(c07_t_uxor_vv_2_2, 2, 2, 2, |a, b| a ^ b);
ubitop_shape!(c07_t_uxor_rv_1_2, 2, 1, 2, |a, b| &a ^ b);
ubitop_shape!(c07_t_uxor_rv_2_1, 2, 2, 1, |a, b| &a ^ b);
ubitop_shape!(c07_t_uxor_rv_2_2, 2, 2, 2, |a, b| &a ^ b);
// END GENERATED
