// C07 — BigInt shifts (anchored in src/bigint/shift.rs): x >> k == floor(x / 2^k) (toward minus infinity), x << k == x * 2^k
#![allow(unused_imports, dead_code)]
use super::*;
use crate::bigint::verif_icommon::*;
use crate::biguint::verif_common as vc;
use crate::biguint::BigUint;
use alloc::{vec, vec::Vec};

/// arithmetic right shift of a two's-complement window by 64*digits + bits
fn sar_w<const W: usize>(x: &[u64; W], digits: usize, bits: u32) -> [u64; W] {
    let neg = is_neg_w(x);
    let fill = if neg { u64::MAX } else { 0 };
    let mut out = [fill; W];
    let mut i = 0;
    while i < W {
        let lo = if i + digits < W { x[i + digits] } else { fill };
        let hi = if i + digits + 1 < W { x[i + digits + 1] } else { fill };
        out[i] = if bits == 0 { lo } else { (lo >> bits) | (hi << (64 - bits)) };
        i += 1;
    }
    out
}

// &x >> k with k = 64*DG + s, s symbolic in 0..63 (by reference: Cow::Borrowed route)
macro_rules! shr_shape {
    ($name:ident, $neg:expr, $l:expr, $dg:expr, $w:expr, $fixed:ident) => {
        #[kani::proof]
        #[kani::unwind(34)]
        #[kani::stub(alloc::vec::Vec::shrink_to_fit, vc::noop_shrink)]
        #[kani::stub(crate::biguint::shift::biguint_shr, crate::biguint::shift::verif_c07_biguint_shift::$fixed)]
        #[kani::stub(core::arch::x86_64::_addcarry_u64, vc::stub_addcarry)]
        #[kani::stub(crate::biguint::addition::schoolbook_add_assign_x86_64, vc::model_add)]
        fn $name() {
            let a0: [u64; $l] = vc::any_canon::<$l>();
            let x = mkint($neg, &a0);
            let s: u32 = kani::any();
            kani::assume(s < 64);
            let k: u32 = ($dg as u32) * 64 + s;
            let r = &x >> k;
            let e = sar_w::<$w>(&tc::<$w>(&x), $dg, s);
            check_int::<$w>(&r, &e);
            kani::cover!(!$neg || $dg < $l || (vc::digits(&r.data).len() == 1 && vc::digits(&r.data)[0] == 1), "reach:negative_shifted_out_to_minus_one");
        }
    };
}
// shr_round_down alone for every shift type: true iff x < 0 and some one bit is shifted out
macro_rules! round_down_shape {
    ($name:ident, $T:ty, $l:expr) => {
        #[kani::proof]
        #[kani::unwind(34)]
        fn $name() {
            let a0: [u64; $l] = vc::any_canon::<$l>();
            let neg: bool = kani::any();
            let x = if neg { mkint(true, &a0) } else { mkint(false, &a0) };
            let k: $T = kani::any();
            kani::assume(k >= 0 as $T);
            let got = shr_round_down(&x, k);
            // oracle: any set bit of |x| below position k
            let mut tz: u128 = 0;
            let mut i = 0;
            while i < $l {
                if a0[i] != 0 {
                    tz = 64 * i as u128 + a0[i].trailing_zeros() as u128;
                    break;
                }
                i += 1;
            }
            let any = tz < (k as u128);
            kani::assert(got == (neg && any), "VERIF shr_round_down differs from 'negative and a one bit is shifted out'");
        }
    };
}
macro_rules! shl_shape {
    ($name:ident, $neg:expr, $l:expr, $dg:expr, $w:expr, $fixed:ident) => {
        #[kani::proof]
        #[kani::unwind(34)]
        #[kani::stub(alloc::vec::Vec::shrink_to_fit, vc::noop_shrink)]
        #[kani::stub(crate::biguint::shift::biguint_shl, crate::biguint::shift::verif_c07_biguint_shift::$fixed)]
        fn $name() {
            let a0: [u64; $l] = vc::any_canon::<$l>();
            let x = mkint($neg, &a0);
            let s: u32 = kani::any();
            kani::assume(s < 64);
            let k: u32 = ($dg as u32) * 64 + s;
            let r = &x << k;
            let (m, lost) = vc::ref_shl::<$w>(&a0, $dg, s);
            kani::assert(!lost, "VERIF window too small");
            kani::assert(vc::eq_window(mag(&r), &m), "VERIF x << k magnitude differs from |x| * 2^k");
            kani::assert(int_canonical(&r) && (is_neg(&r) == ($neg && $l > 0)), "VERIF x << k sign");
        }
    };
}

// the three FORMS of a BigInt right shift (x >> k, &x >> k, x >>= k) on top of the unsigned shift: rounding adjustment, sign of a
// result that became zero, order of the two. The unsigned shift (decided by c07_*_shr2_* / c07_*_amount_*) is under a contract here:
// it returns one arbitrary canonical value G (the same for all forms), so the query is about what BigInt does with it.
static mut GH_SHR: [u64; 2] = [0; 2];
static mut GH_SHR_LEN: usize = 0;
fn ushr_result() -> BigUint {
    let g = unsafe { GH_SHR };
    match unsafe { GH_SHR_LEN } {
        0 => BigUint::ZERO,
        1 => vc::mk_from(&[g[0]]),
        _ => vc::mk_from(&[g[0], g[1]]),
    }
}
fn ushr_val_contract(_x: BigUint, _k: u32) -> BigUint { ushr_result() }
fn ushr_ref_contract<'a>(_x: &'a BigUint, _k: u32) -> BigUint where 'a: 'a { ushr_result() }
fn ushr_assign_contract(x: &mut BigUint, _k: u32) { *x = ushr_result(); }
macro_rules! shr_forms_shape {
    ($name:ident, $neg:expr, $l:expr, $gl:expr) => {
        #[kani::proof]
        #[kani::unwind(34)]
        #[kani::stub(<crate::biguint::BigUint as core::ops::Shr<u32>>::shr, ushr_val_contract)]
        #[kani::stub(<&crate::biguint::BigUint as core::ops::Shr<u32>>::shr, ushr_ref_contract)]
        #[kani::stub(<crate::biguint::BigUint as core::ops::ShrAssign<u32>>::shr_assign, ushr_assign_contract)]
        #[kani::stub(crate::biguint::verif_common::symbolic, crate::biguint::verif_common::yes)]
        #[kani::stub(alloc::vec::Vec::shrink_to_fit, vc::noop_shrink)]
        #[kani::stub(core::arch::x86_64::_addcarry_u64, vc::stub_addcarry)]
        #[kani::stub(crate::biguint::addition::schoolbook_add_assign_x86_64, vc::model_add)]
        fn $name() {
            let a0: [u64; $l] = vc::any_canon::<$l>();
            let x = mkint($neg, &a0);
            let k: u32 = kani::any();
            kani::assume(k < 64 * ($l as u32 + 1));
            let g: [u64; $gl] = vc::any_canon::<$gl>();
            unsafe {
                GH_SHR = [vc::dig(&g, 0), vc::dig(&g, 1)];
                GH_SHR_LEN = $gl;
            }
            let r1 = x.clone() >> k;
            let mut r2 = x.clone();
            r2 >>= k;
            let r3 = &x >> k;
            if !vc::symbolic() {
                // native: the real unsigned shift ran; exact arithmetic-shift oracle
                let e = sar_w::<4>(&tc::<4>(&x), (k / 64) as usize, k % 64);
                check_int::<4>(&r1, &e);
                check_int::<4>(&r2, &e);
                check_int::<4>(&r3, &e);
                return;
            }
            let rd = shr_round_down(&x, k);
            let one: [u64; 1] = [1];
            let (m, _c) = vc::ref_add::<3>(&g, if rd { &one } else { &[] });
            let zero = vc::ref_is_zero(&m);
            kani::assert(int_canonical(&r1) && vc::eq_window(mag(&r1), &m) && is_neg(&r1) == ($neg && !zero), "VERIF BigInt >> k (by value): not (unsigned shift + rounding adjustment) with the sign of x");
            kani::assert(int_canonical(&r2) && vc::eq_window(mag(&r2), &m) && is_neg(&r2) == ($neg && !zero), "VERIF BigInt >>= k: not (unsigned shift + rounding adjustment) with the sign of x");
            kani::assert(int_canonical(&r3) && vc::eq_window(mag(&r3), &m) && is_neg(&r3) == ($neg && !zero), "VERIF &BigInt >> k: not (unsigned shift + rounding adjustment) with the sign of x");
            kani::cover!(!$neg || $gl > 0 || rd, "reach: negative value shifted out completely with a rounding adjustment");
        }
    };
}
shr_forms_shape!(c07_q_intshr_forms_m1_g0, true, 1, 0);
shr_forms_shape!(c07_q_intshr_forms_m1_g1, true, 1, 1);
shr_forms_shape!(c07_q_intshr_forms_m2_g0, true, 2, 0);
shr_forms_shape!(c07_q_intshr_forms_m2_g2, true, 2, 2);
shr_forms_shape!(c07_q_intshr_forms_p1_g0, false, 1, 0);
shr_forms_shape!(c07_q_intshr_forms_p2_g1, false, 2, 1);

// BEGIN GENERATED c07_bigint_shift
shr_shape!(c07_q_intshr_m1_w0, true, 1, 0, 3, shr_fixed_0);
shr_shape!(c07_q_intshr_m1_w1, true, 1, 1, 3, shr_fixed_1);
shr_shape!(c07_t_intshr_m2_w0, true, 2, 0, 4, shr_fixed_0);
shr_shape!(c07_q_intshr_m2_w1, true, 2, 1, 4, shr_fixed_1);
shr_shape!(c07_q_intshr_m2_w2, true, 2, 2, 4, shr_fixed_2);
shr_shape!(c07_t_intshr_m1_w2, true, 1, 2, 3, shr_fixed_2);
shr_shape!(c07_t_intshr_m3_w1, true, 3, 1, 5, shr_fixed_1);
shl_shape!(c07_q_intshl_m1_w0, true, 1, 0, 2, shl_fixed_0);
shl_shape!(c07_t_intshl_m2_w1, true, 2, 1, 4, shl_fixed_1);
shl_shape!(c07_t_intshl_m1_w2, true, 1, 2, 4, shl_fixed_2);
shr_shape!(c07_t_intshr_p1_w0, false, 1, 0, 3, shr_fixed_0);
shr_shape!(c07_t_intshr_p1_w1, false, 1, 1, 3, shr_fixed_1);
shr_shape!(c07_t_intshr_p2_w0, false, 2, 0, 4, shr_fixed_0);
shr_shape!(c07_q_intshr_p2_w1, false, 2, 1, 4, shr_fixed_1);
shr_shape!(c07_t_intshr_p2_w2, false, 2, 2, 4, shr_fixed_2);
shr_shape!(c07_t_intshr_p1_w2, false, 1, 2, 3, shr_fixed_2);
shr_shape!(c07_t_intshr_p3_w1, false, 3, 1, 5, shr_fixed_1);
shl_shape!(c07_t_intshl_p1_w0, false, 1, 0, 2, shl_fixed_0);
shl_shape!(c07_t_intshl_p2_w1, false, 2, 1, 4, shl_fixed_1);
shl_shape!(c07_t_intshl_p1_w2, false, 1, 2, 4, shl_fixed_2);
shr_shape!(c07_q_intshr_p0_w1, false, 0, 1, 2, shr_fixed_1);
round_down_shape!(c07_q_round_down_u8, u8, 2);
round_down_shape!(c07_t_round_down_u16, u16, 2);
round_down_shape!(c07_t_round_down_u32, u32, 2);
round_down_shape!(c07_t_round_down_u64, u64, 2);
round_down_shape!(c07_q_round_down_u128, u128, 2);
round_down_shape!(c07_t_round_down_usize, usize, 2);
round_down_shape!(c07_t_round_down_i8, i8, 2);
round_down_shape!(c07_t_round_down_i16, i16, 2);
round_down_shape!(c07_t_round_down_i32, i32, 2);
round_down_shape!(c07_q_round_down_i64, i64, 2);
round_down_shape!(c07_t_round_down_i128, i128, 2);
round_down_shape!(c07_t_round_down_isize, isize, 2);
// END GENERATED
