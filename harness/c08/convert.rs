// C08 — primitive integer conversions (anchored in src/bigint/convert.rs; BigUint's public conversions are reached from here too)
#![allow(unused_imports, dead_code)]
use super::*;
use crate::bigint::verif_icommon::*;
use crate::bigint::ToBigInt;
use crate::biguint::verif_common as vc;
use crate::biguint::ToBigUint;
use alloc::{vec, vec::Vec};
use core::convert::TryFrom;
use num_traits::{FromPrimitive, ToPrimitive};

const W: usize = 4;

/// does the two's-complement window value fit a `bits`-wide (un)signed primitive?  returns (fits, low 128 bits)
fn fits(w: &[u64; W], bits: u32, signed: bool) -> (bool, u128) {
    let lo = (w[0] as u128) | ((w[1] as u128) << 64);
    let neg = is_neg_w(w);
    let ext_ok = if neg { w[2] == u64::MAX && w[3] == u64::MAX } else { w[2] == 0 && w[3] == 0 };
    if !signed {
        let ok = !neg && ext_ok && (bits == 128 || (lo >> bits) == 0);
        (ok, lo)
    } else {
        let v = lo as i128;
        // representable in i128 at all: the sign of the low 128 bits agrees with the sign of the window
        let in128 = ext_ok && ((v < 0) == neg);
        let ok = in128 && (bits == 128 || { let s = v >> (bits - 1); s == 0 || s == -1 });
        (ok, lo)
    }
}

// BigInt -> primitive:  to_T / TryFrom<&BigInt> / TryFrom<BigInt> (Err carries the original back)
macro_rules! to_prim_shape {
    ($name:ident, $T:ty, $to:ident, $bits:expr, $signed:expr, $neg:expr, $l:expr) => {
        #[kani::proof]
        #[kani::unwind(34)]
        fn $name() {
            let a0: [u64; $l] = vc::any_canon::<$l>();
            let x = mkint($neg, &a0);
            let w = tc::<W>(&x);
            let (ok, lo) = fits(&w, $bits, $signed);
            match x.$to() {
                Some(v) => kani::assert(ok && v == lo as $T, "VERIF to_T: Some for a value that does not fit, or wrong value"),
                None => kani::assert(!ok, "VERIF to_T: None for a value that fits"),
            }
            match <$T>::try_from(&x) {
                Ok(v) => kani::assert(ok && v == lo as $T, "VERIF TryFrom<&BigInt>: wrong"),
                Err(_) => kani::assert(!ok, "VERIF TryFrom<&BigInt>: Err for a value that fits"),
            }
            match <$T>::try_from(x.clone()) {
                Ok(v) => kani::assert(ok && v == lo as $T, "VERIF TryFrom<BigInt>: wrong"),
                Err(e) => {
                    kani::assert(!ok, "VERIF TryFrom<BigInt>: Err for a value that fits");
                    check_int::<W>(&e.into_original(), &w);
                }
            }
            if !$neg {
                let u = vc::mk_from(&a0);
                match u.$to() {
                    Some(v) => kani::assert(ok && v == lo as $T, "VERIF BigUint::to_T wrong"),
                    None => kani::assert(!ok, "VERIF BigUint::to_T None for a value that fits"),
                }
                match <$T>::try_from(&u) {
                    Ok(v) => kani::assert(ok && v == lo as $T, "VERIF TryFrom<&BigUint>: wrong"),
                    Err(_) => kani::assert(!ok, "VERIF TryFrom<&BigUint>: Err for a value that fits"),
                }
                match <$T>::try_from(u) {
                    Ok(v) => kani::assert(ok && v == lo as $T, "VERIF TryFrom<BigUint>: wrong"),
                    Err(e) => {
                        kani::assert(!ok, "VERIF TryFrom<BigUint>: Err for a value that fits");
                        let o = e.into_original();
                        kani::assert(vc::eq_window(vc::digits(&o), &a0) && vc::digits(&o).len() == $l, "VERIF TryFrom<BigUint>: original not returned");
                    }
                }
            }
            kani::cover!(true, "reach:end_of_harness");
        }
    };
}

fn window_of_i128(v: i128) -> [u64; W] {
    let e = if v < 0 { u64::MAX } else { 0 };
    [v as u64, (v >> 64) as u64, e, e]
}
fn window_of_u128(v: u128) -> [u64; W] {
    [v as u64, (v >> 64) as u64, 0, 0]
}

// primitive -> BigInt / BigUint: every value of the type
macro_rules! from_signed_shape {
    ($name:ident, $T:ty, $from:ident) => {
        #[kani::proof]
        #[kani::unwind(34)]
        fn $name() {
            let n: $T = kani::any();
            let w = window_of_i128(n as i128);
            check_int::<W>(&BigInt::from(n), &w);
            match <BigInt as FromPrimitive>::$from(n) {
                Some(x) => check_int::<W>(&x, &w),
                None => kani::assert(false, "VERIF BigInt::from_T returned None"),
            }
            match n.to_bigint() {
                Some(x) => check_int::<W>(&x, &w),
                None => kani::assert(false, "VERIF T::to_bigint returned None"),
            }
            // negative into BigUint fails, non-negative converts exactly
            match BigUint::try_from(n) {
                Ok(u) => kani::assert(n >= 0 && vc::is_canonical(&u) && vc::eq_window(vc::digits(&u), &w), "VERIF BigUint::try_from(T)"),
                Err(_) => kani::assert(n < 0, "VERIF BigUint::try_from(T): Err for non-negative"),
            }
            match <BigUint as FromPrimitive>::$from(n) {
                Some(u) => kani::assert(n >= 0 && vc::is_canonical(&u) && vc::eq_window(vc::digits(&u), &w), "VERIF BigUint::from_T"),
                None => kani::assert(n < 0, "VERIF BigUint::from_T: None for non-negative"),
            }
            match n.to_biguint() {
                Some(u) => kani::assert(n >= 0 && vc::eq_window(vc::digits(&u), &w), "VERIF T::to_biguint"),
                None => kani::assert(n < 0, "VERIF T::to_biguint: None for non-negative"),
            }
        }
    };
}
macro_rules! from_unsigned_shape {
    ($name:ident, $T:ty, $from:ident) => {
        #[kani::proof]
        #[kani::unwind(34)]
        fn $name() {
            let n: $T = kani::any();
            let w = window_of_u128(n as u128);
            check_int::<W>(&BigInt::from(n), &w);
            let u = BigUint::from(n);
            kani::assert(vc::is_canonical(&u) && vc::eq_window(vc::digits(&u), &w), "VERIF BigUint::from(T)");
            match <BigInt as FromPrimitive>::$from(n) {
                Some(x) => check_int::<W>(&x, &w),
                None => kani::assert(false, "VERIF BigInt::from_T returned None"),
            }
            match <BigUint as FromPrimitive>::$from(n) {
                Some(u) => kani::assert(vc::is_canonical(&u) && vc::eq_window(vc::digits(&u), &w), "VERIF BigUint::from_T"),
                None => kani::assert(false, "VERIF BigUint::from_T returned None"),
            }
            match n.to_bigint() {
                Some(x) => check_int::<W>(&x, &w),
                None => kani::assert(false, "VERIF T::to_bigint returned None"),
            }
            match n.to_biguint() {
                Some(u) => kani::assert(vc::eq_window(vc::digits(&u), &w), "VERIF T::to_biguint"),
                None => kani::assert(false, "VERIF T::to_biguint returned None"),
            }
        }
    };
}
#[kani::proof]
#[kani::unwind(34)]
fn c08_q_from_bool() {
    let b: bool = kani::any();
    let w = window_of_u128(b as u128);
    check_int::<W>(&BigInt::from(b), &w);
    let u = BigUint::from(b);
    kani::assert(vc::is_canonical(&u) && vc::eq_window(vc::digits(&u), &w), "VERIF BigUint::from(bool)");
}

// BEGIN GENERATED c08_convert
to_prim_shape!(c08_t_to_u8_p0, u8, to_u8, 8, false, false, 0);
to_prim_shape!(c08_q_to_u8_p1, u8, to_u8, 8, false, false, 1);
to_prim_shape!(c08_q_to_u8_p2, u8, to_u8, 8, false, false, 2);
to_prim_shape!(c08_t_to_u8_p3, u8, to_u8, 8, false, false, 3);
to_prim_shape!(c08_q_to_u8_m1, u8, to_u8, 8, false, true, 1);
to_prim_shape!(c08_q_to_u8_m2, u8, to_u8, 8, false, true, 2);
to_prim_shape!(c08_t_to_u8_m3, u8, to_u8, 8, false, true, 3);
from_unsigned_shape!(c08_q_from_u8, u8, from_u8);
to_prim_shape!(c08_t_to_u16_p0, u16, to_u16, 16, false, false, 0);
to_prim_shape!(c08_t_to_u16_p1, u16, to_u16, 16, false, false, 1);
to_prim_shape!(c08_t_to_u16_p2, u16, to_u16, 16, false, false, 2);
to_prim_shape!(c08_t_to_u16_p3, u16, to_u16, 16, false, false, 3);
to_prim_shape!(c08_t_to_u16_m1, u16, to_u16, 16, false, true, 1);
to_prim_shape!(c08_t_to_u16_m2, u16, to_u16, 16, false, true, 2);
to_prim_shape!(c08_t_to_u16_m3, u16, to_u16, 16, false, true, 3);
from_unsigned_shape!(c08_q_from_u16, u16, from_u16);
to_prim_shape!(c08_t_to_u32_p0, u32, to_u32, 32, false, false, 0);
to_prim_shape!(c08_t_to_u32_p1, u32, to_u32, 32, false, false, 1);
to_prim_shape!(c08_t_to_u32_p2, u32, to_u32, 32, false, false, 2);
to_prim_shape!(c08_t_to_u32_p3, u32, to_u32, 32, false, false, 3);
to_prim_shape!(c08_t_to_u32_m1, u32, to_u32, 32, false, true, 1);
to_prim_shape!(c08_t_to_u32_m2, u32, to_u32, 32, false, true, 2);
to_prim_shape!(c08_t_to_u32_m3, u32, to_u32, 32, false, true, 3);
from_unsigned_shape!(c08_q_from_u32, u32, from_u32);
to_prim_shape!(c08_t_to_u64_p0, u64, to_u64, 64, false, false, 0);
to_prim_shape!(c08_q_to_u64_p1, u64, to_u64, 64, false, false, 1);
to_prim_shape!(c08_q_to_u64_p2, u64, to_u64, 64, false, false, 2);
to_prim_shape!(c08_t_to_u64_p3, u64, to_u64, 64, false, false, 3);
to_prim_shape!(c08_q_to_u64_m1, u64, to_u64, 64, false, true, 1);
to_prim_shape!(c08_q_to_u64_m2, u64, to_u64, 64, false, true, 2);
to_prim_shape!(c08_t_to_u64_m3, u64, to_u64, 64, false, true, 3);
from_unsigned_shape!(c08_q_from_u64, u64, from_u64);
to_prim_shape!(c08_t_to_usize_p0, usize, to_usize, 64, false, false, 0);
to_prim_shape!(c08_q_to_usize_p1, usize, to_usize, 64, false, false, 1);
to_prim_shape!(c08_q_to_usize_p2, usize, to_usize, 64, false, false, 2);
to_prim_shape!(c08_t_to_usize_p3, usize, to_usize, 64, false, false, 3);
to_prim_shape!(c08_q_to_usize_m1, usize, to_usize, 64, false, true, 1);
to_prim_shape!(c08_q_to_usize_m2, usize, to_usize, 64, false, true, 2);
to_prim_shape!(c08_t_to_usize_m3, usize, to_usize, 64, false, true, 3);
from_unsigned_shape!(c08_q_from_usize, usize, from_usize);
to_prim_shape!(c08_t_to_u128_p0, u128, to_u128, 128, false, false, 0);
to_prim_shape!(c08_t_to_u128_p1, u128, to_u128, 128, false, false, 1);
to_prim_shape!(c08_q_to_u128_p2, u128, to_u128, 128, false, false, 2);
to_prim_shape!(c08_q_to_u128_p3, u128, to_u128, 128, false, false, 3);
to_prim_shape!(c08_t_to_u128_m1, u128, to_u128, 128, false, true, 1);
to_prim_shape!(c08_q_to_u128_m2, u128, to_u128, 128, false, true, 2);
to_prim_shape!(c08_q_to_u128_m3, u128, to_u128, 128, false, true, 3);
from_unsigned_shape!(c08_q_from_u128, u128, from_u128);
to_prim_shape!(c08_t_to_i8_p0, i8, to_i8, 8, true, false, 0);
to_prim_shape!(c08_q_to_i8_p1, i8, to_i8, 8, true, false, 1);
to_prim_shape!(c08_q_to_i8_p2, i8, to_i8, 8, true, false, 2);
to_prim_shape!(c08_t_to_i8_p3, i8, to_i8, 8, true, false, 3);
to_prim_shape!(c08_q_to_i8_m1, i8, to_i8, 8, true, true, 1);
to_prim_shape!(c08_q_to_i8_m2, i8, to_i8, 8, true, true, 2);
to_prim_shape!(c08_t_to_i8_m3, i8, to_i8, 8, true, true, 3);
from_signed_shape!(c08_q_from_i8, i8, from_i8);
to_prim_shape!(c08_t_to_i16_p0, i16, to_i16, 16, true, false, 0);
to_prim_shape!(c08_t_to_i16_p1, i16, to_i16, 16, true, false, 1);
to_prim_shape!(c08_t_to_i16_p2, i16, to_i16, 16, true, false, 2);
to_prim_shape!(c08_t_to_i16_p3, i16, to_i16, 16, true, false, 3);
to_prim_shape!(c08_t_to_i16_m1, i16, to_i16, 16, true, true, 1);
to_prim_shape!(c08_t_to_i16_m2, i16, to_i16, 16, true, true, 2);
to_prim_shape!(c08_t_to_i16_m3, i16, to_i16, 16, true, true, 3);
from_signed_shape!(c08_q_from_i16, i16, from_i16);
to_prim_shape!(c08_t_to_i32_p0, i32, to_i32, 32, true, false, 0);
to_prim_shape!(c08_q_to_i32_p1, i32, to_i32, 32, true, false, 1);
to_prim_shape!(c08_q_to_i32_p2, i32, to_i32, 32, true, false, 2);
to_prim_shape!(c08_t_to_i32_p3, i32, to_i32, 32, true, false, 3);
to_prim_shape!(c08_q_to_i32_m1, i32, to_i32, 32, true, true, 1);
to_prim_shape!(c08_q_to_i32_m2, i32, to_i32, 32, true, true, 2);
to_prim_shape!(c08_t_to_i32_m3, i32, to_i32, 32, true, true, 3);
from_signed_shape!(c08_q_from_i32, i32, from_i32);
to_prim_shape!(c08_t_to_i64_p0, i64, to_i64, 64, true, false, 0);
to_prim_shape!(c08_q_to_i64_p1, i64, to_i64, 64, true, false, 1);
to_prim_shape!(c08_q_to_i64_p2, i64, to_i64, 64, true, false, 2);
to_prim_shape!(c08_t_to_i64_p3, i64, to_i64, 64, true, false, 3);
to_prim_shape!(c08_q_to_i64_m1, i64, to_i64, 64, true, true, 1);
to_prim_shape!(c08_q_to_i64_m2, i64, to_i64, 64, true, true, 2);
to_prim_shape!(c08_t_to_i64_m3, i64, to_i64, 64, true, true, 3);
from_signed_shape!(c08_q_from_i64, i64, from_i64);
to_prim_shape!(c08_t_to_isize_p0, isize, to_isize, 64, true, false, 0);
to_prim_shape!(c08_t_to_isize_p1, isize, to_isize, 64, true, false, 1);
to_prim_shape!(c08_t_to_isize_p2, isize, to_isize, 64, true, false, 2);
to_prim_shape!(c08_t_to_isize_p3, isize, to_isize, 64, true, false, 3);
to_prim_shape!(c08_t_to_isize_m1, isize, to_isize, 64, true, true, 1);
to_prim_shape!(c08_t_to_isize_m2, isize, to_isize, 64, true, true, 2);
to_prim_shape!(c08_t_to_isize_m3, isize, to_isize, 64, true, true, 3);
from_signed_shape!(c08_q_from_isize, isize, from_isize);
to_prim_shape!(c08_t_to_i128_p0, i128, to_i128, 128, true, false, 0);
to_prim_shape!(c08_t_to_i128_p1, i128, to_i128, 128, true, false, 1);
to_prim_shape!(c08_q_to_i128_p2, i128, to_i128, 128, true, false, 2);
to_prim_shape!(c08_q_to_i128_p3, i128, to_i128, 128, true, false, 3);
to_prim_shape!(c08_t_to_i128_m1, i128, to_i128, 128, true, true, 1);
to_prim_shape!(c08_q_to_i128_m2, i128, to_i128, 128, true, true, 2);
to_prim_shape!(c08_q_to_i128_m3, i128, to_i128, 128, true, true, 3);
from_signed_shape!(c08_q_from_i128, i128, from_i128);
// END GENERATED
