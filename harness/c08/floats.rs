// C08 — float export / import (anchored in src/biguint/convert.rs)
#![allow(unused_imports, dead_code)]
use super::*;
use crate::biguint::verif_common as vc;
use alloc::{vec, vec::Vec};

// exact powers of two for the only way powi is used here: 2.0.powi(e), 0 <= e <= MAX_EXP
// (CBMC's __builtin_powi model is not exact; e == MAX_EXP yields +inf by construction of the bit pattern)
fn powi_f64_exact(x: f64, n: i32) -> f64 {
    kani::assert(x == 2.0 && n >= 0 && n <= 1024, "VERIF powi stub used outside its domain");
    f64::from_bits(((n as u64) + 1023) << 52)
}
fn powi_f32_exact(x: f32, n: i32) -> f32 {
    kani::assert(x == 2.0 && n >= 0 && n <= 128, "VERIF powi stub used outside its domain");
    f32::from_bits(((n as u32) + 127) << 23)
}

// high_bits_to_u64: the top 64 bits with every lower one bit folded into the LSB (round-to-odd)
macro_rules! high_bits_shape {
    ($name:ident, $l:expr) => {
        #[kani::proof]
        #[kani::unwind(10)]
        fn $name() {
            let a0: [u64; $l] = vc::any_canon::<$l>();
            let a = vc::mk_from(&a0);
            let got = high_bits_to_u64(&a);
            let nbits: u64 = if $l == 0 { 0 } else { 64 * ($l as u64) - a0[$l - 1].leading_zeros() as u64 };
            let e = if nbits <= 64 {
                vc::dig(&a0, 0)
            } else {
                let sh = nbits - 64;
                let (w, sticky) = vc::ref_shr::<2>(&a0, (sh / 64) as usize, (sh % 64) as u32);
                w[0] | (sticky as u64)
            };
            kani::assert(got == e, "VERIF high_bits_to_u64 is not (top 64 bits | sticky)");
            kani::assert($l <= 1 || (got >> 63) == 1, "VERIF mantissa not normalised");
            kani::cover!($l < 2 || (got & 1 == 1 && (a0[$l - 1] >> 63) == 1), "reach:sticky_from_far_below");
        }
    };
}

// to_f64 / to_f32 end to end against the primitive cast of the same value (<= 128 bits)
macro_rules! to_float_shape {
    ($name:ident, $l:expr) => {
        #[kani::proof]
        #[kani::unwind(10)]
        #[kani::stub(f64::powi, powi_f64_exact)]
        #[kani::stub(f32::powi, powi_f32_exact)]
        fn $name() {
            let a0: [u64; $l] = vc::any_canon::<$l>();
            let a = vc::mk_from(&a0);
            let v: u128 = (vc::dig(&a0, 0) as u128) | ((vc::dig(&a0, 1) as u128) << 64);
            match a.to_f64() {
                Some(f) => kani::assert(f == v as f64, "VERIF to_f64 differs from the correctly rounded cast"),
                None => kani::assert(false, "VERIF to_f64 returned None"),
            }
            match a.to_f32() {
                Some(f) => kani::assert(f == v as f32, "VERIF to_f32 differs from the correctly rounded cast"),
                None => kani::assert(false, "VERIF to_f32 returned None"),
            }
        }
    };
}
high_bits_shape!(c08_q_high_bits_0, 0);
high_bits_shape!(c08_q_high_bits_1, 1);
high_bits_shape!(c08_q_high_bits_2, 2);
high_bits_shape!(c08_q_high_bits_3, 3);
high_bits_shape!(c08_t_high_bits_4, 4);
high_bits_shape!(c08_t_high_bits_6, 6);
to_float_shape!(c08_q_to_float_0, 0);
to_float_shape!(c08_q_to_float_1, 1);
to_float_shape!(c08_q_to_float_2, 2);
