// C08 — float export / import (anchored in src/biguint/convert.rs)
#![allow(unused_imports, dead_code)]
use super::*;
use crate::biguint::verif_common as vc;
use alloc::{vec, vec::Vec};

// exact powers of two for the only way powi is used here: 2.0.powi(e), 0 <= e <= MAX_EXP
// (CBMC's __builtin_powi model is not exact; e == MAX_EXP yields +inf by construction of the bit pattern)
fn powi_f64_exact(x: f64, n: i32) -> f64 {
    kani::assert(x == 2.0 && n >= 0 && n <= 1024, "VERIF powi stub used outside its domain");
    f64::from_bits(((n as u64) + 1023) << 52)
}
fn powi_f32_exact(x: f32, n: i32) -> f32 {
    kani::assert(x == 2.0 && n >= 0 && n <= 128, "VERIF powi stub used outside its domain");
    f32::from_bits(((n as u32) + 127) << 23)
}

// high_bits_to_u64: the top 64 bits with every lower one bit folded into the LSB (round-to-odd)
macro_rules! high_bits_shape {
    ($name:ident, $l:expr) => {
        #[kani::proof]
        #[kani::unwind(34)]
        fn $name() {
            let a0: [u64; $l] = vc::any_canon::<$l>();
            let a = vc::mk_from(&a0);
            let got = high_bits_to_u64(&a);
            let nbits: u64 = if $l == 0 { 0 } else { 64 * ($l as u64) - a0[$l - 1].leading_zeros() as u64 };
            let e = if nbits <= 64 {
                vc::dig(&a0, 0)
            } else {
                let sh = nbits - 64;
                let (w, sticky) = vc::ref_shr::<2>(&a0, (sh / 64) as usize, (sh % 64) as u32);
                w[0] | (sticky as u64)
            };
            kani::assert(got == e, "VERIF high_bits_to_u64 is not (top 64 bits | sticky)");
            kani::assert($l <= 1 || (got >> 63) == 1, "VERIF mantissa not normalised");
            kani::cover!($l < 2 || (got & 1 == 1 && (a0[$l - 1] >> 63) == 1), "reach:sticky_from_far_below");
        }
    };
}

// to_f64 / to_f32 end to end against the primitive cast of the same value (<= 128 bits)
macro_rules! to_float_shape {
    ($name:ident, $l:expr) => {
        #[kani::proof]
        #[kani::unwind(34)]
        #[kani::stub(f64::powi, powi_f64_exact)]
        #[kani::stub(f32::powi, powi_f32_exact)]
        fn $name() {
            let a0: [u64; $l] = vc::any_canon::<$l>();
            let a = vc::mk_from(&a0);
            let v: u128 = (vc::dig(&a0, 0) as u128) | ((vc::dig(&a0, 1) as u128) << 64);
            match a.to_f64() {
                Some(f) => kani::assert(f == v as f64, "VERIF to_f64 differs from the correctly rounded cast"),
                None => kani::assert(false, "VERIF to_f64 returned None"),
            }
            match a.to_f32() {
                Some(f) => kani::assert(f == v as f32, "VERIF to_f32 differs from the correctly rounded cast"),
                None => kani::assert(false, "VERIF to_f32 returned None"),
            }
        }
    };
}

// to_f64 for any length against an explicit IEEE-754 construction (round-to-nearest-even on the exact value,
// overflow to +inf) that does not go through CBMC's int->float cast
macro_rules! to_f64_bits_shape {
    ($name:ident, $l:expr) => {
        #[kani::proof]
        #[kani::unwind(34)]
        #[kani::stub(f64::powi, powi_f64_exact)]
        fn $name() {
            let a0: [u64; $l] = vc::any_canon::<$l>();
            let a = vc::mk_from(&a0);
            let nbits: u64 = 64 * ($l as u64) - a0[$l - 1].leading_zeros() as u64;
            // exact top 64 bits + sticky, independent of high_bits_to_u64
            let sh = nbits - 64;
            let (w, sticky) = vc::ref_shr::<2>(&a0, (sh / 64) as usize, (sh % 64) as u32);
            let m = w[0];
            let mut mant = m >> 11; // 53 bits, top bit set
            let rem = m & 0x7ff;
            let above = rem > 0x400 || (rem == 0x400 && sticky);
            let tie = rem == 0x400 && !sticky;
            if above || (tie && (mant & 1) == 1) {
                mant += 1;
            }
            let mut e = nbits - 1; // unbiased exponent of the leading bit
            if mant == (1u64 << 53) {
                mant >>= 1;
                e += 1;
            }
            let expect = if e > 1023 { f64::INFINITY } else { f64::from_bits(((e + 1023) << 52) | (mant & ((1u64 << 52) - 1))) };
            match a.to_f64() {
                Some(f) => kani::assert(f.to_bits() == expect.to_bits(), "VERIF to_f64 is not the nearest float (ties-to-even) / wrong overflow"),
                None => kani::assert(false, "VERIF to_f64 returned None"),
            }
            kani::cover!(tie, "reach:exact_tie");
            kani::cover!($l < 3 || (rem == 0x400 && sticky && a0[$l - 2] == 0), "reach:deciding_bit_far_down");
            kani::cover!($l != 16 || e > 1023, "reach:rounds_up_to_infinity");
        }
    };
}
to_f64_bits_shape!(c08_q_to_f64_bits_2, 2);
to_f64_bits_shape!(c08_q_to_f64_bits_3, 3);
to_f64_bits_shape!(c08_t_to_f64_bits_5, 5);
to_f64_bits_shape!(c08_q_to_f64_bits_16, 16);
to_f64_bits_shape!(c08_t_to_f64_bits_17, 17);

// from_f64 on a symbolic bit pattern of one exponent class (word shift DG concrete, see c07 fixed_word_shift)
macro_rules! from_f64_shape {
    ($name:ident, $dg:expr, $w:expr, $fixed:ident) => {
        #[kani::proof]
        #[kani::unwind(24)]
        #[kani::stub(alloc::vec::Vec::shrink_to_fit, vc::noop_shrink)]
        #[kani::stub(crate::biguint::shift::biguint_shl, crate::biguint::shift::verif_c07_biguint_shift::$fixed)]
        fn $name() {
            let bits: u64 = kani::any();
            let field = (bits >> 52) & 0x7ff;
            kani::assume(field >= 1075 + 64 * $dg && field <= 1075 + 64 * $dg + 63 && field != 0x7ff);
            let n = f64::from_bits(bits);
            let neg = (bits >> 63) == 1;
            let mant = (bits & ((1u64 << 52) - 1)) | (1u64 << 52);
            let e = field - 1075;
            let (expect, lost) = vc::ref_shl::<$w>(&[mant], $dg, (e % 64) as u32);
            kani::assert(!lost, "VERIF window too small");
            match BigUint::from_f64(n) {
                Some(u) => kani::assert(!neg && vc::is_canonical(&u) && vc::eq_window(vc::digits(&u), &expect), "VERIF BigUint::from_f64 value"),
                None => kani::assert(neg, "VERIF BigUint::from_f64 None for a positive finite float"),
            }
        }
    };
}
// variant with a CONCRETE exponent field and sign, symbolic 52-bit fraction
macro_rules! from_f64_field_shape {
    ($name:ident, $field:expr, $w:expr, $fixed:ident) => {
        #[kani::proof]
        #[kani::unwind(24)]
        #[kani::stub(alloc::vec::Vec::shrink_to_fit, vc::noop_shrink)]
        #[kani::stub(crate::biguint::shift::biguint_shl, crate::biguint::shift::verif_c07_biguint_shift::$fixed)]
        fn $name() {
            let frac: u64 = kani::any();
            let bits: u64 = (($field as u64) << 52) | (frac & ((1u64 << 52) - 1));
            let n = f64::from_bits(bits);
            let mant = (bits & ((1u64 << 52) - 1)) | (1u64 << 52);
            let e: u64 = $field - 1075;
            let (expect, lost) = vc::ref_shl::<$w>(&[mant], (e / 64) as usize, (e % 64) as u32);
            kani::assert(!lost, "VERIF window too small");
            match BigUint::from_f64(n) {
                Some(u) => kani::assert(vc::is_canonical(&u) && vc::eq_window(vc::digits(&u), &expect), "VERIF BigUint::from_f64 value"),
                None => kani::assert(false, "VERIF BigUint::from_f64 None for a positive finite float"),
            }
        }
    };
}
from_f64_field_shape!(c08_t_from_f64_field_1075, 1075, 2, shl_fixedb_0);
from_f64_shape!(c08_t_from_f64_w0, 0, 2, shl_fixedb_0);

// small / special floats: |n| < 2^52 (fraction truncated toward zero), zeros, subnormals, NaN, infinities
#[kani::proof]
#[kani::unwind(24)]
#[kani::stub(alloc::vec::Vec::shrink_to_fit, vc::noop_shrink)]
#[kani::stub(crate::biguint::shift::biguint_shr, crate::biguint::shift::verif_c07_biguint_shift::shr_fixed_0)]
fn c08_t_from_f64_small() {
    let bits: u64 = kani::any();
    let field = (bits >> 52) & 0x7ff;
    kani::assume(field < 1075 || field == 0x7ff);
    let n = f64::from_bits(bits);
    let neg = (bits >> 63) == 1;
    let r = BigUint::from_f64(n);
    if field == 0x7ff {
        kani::assert(r.is_none(), "VERIF from_f64(NaN/inf) is not None");
    } else if field < 1023 {
        // |n| < 1 (incl. -0.0 and subnormals): truncates to zero for either sign
        match r {
            Some(u) => kani::assert(vc::digits(&u).is_empty(), "VERIF from_f64(|n| < 1) is not zero"),
            None => kani::assert(false, "VERIF from_f64(|n| < 1) is None"),
        }
    } else {
        let mant = (bits & ((1u64 << 52) - 1)) | (1u64 << 52);
        let v = mant >> (1075 - field);
        match r {
            Some(u) => kani::assert(!neg && vc::is_canonical(&u) && vc::digits(&u).len() == 1 && vc::digits(&u)[0] == v, "VERIF from_f64 truncation toward zero"),
            None => kani::assert(neg, "VERIF from_f64 None for a positive float"),
        }
    }
}
// f32 goes through f64 exactly (num-traits default): spot the delegation on all f32 bit patterns of one class
#[kani::proof]
#[kani::unwind(24)]
#[kani::stub(alloc::vec::Vec::shrink_to_fit, vc::noop_shrink)]
#[kani::stub(crate::biguint::shift::biguint_shr, crate::biguint::shift::verif_c07_biguint_shift::shr_fixed_0)]
fn c08_t_from_f32_small() {
    let bits: u32 = kani::any();
    let field = (bits >> 23) & 0xff;
    kani::assume(field < 150 || field == 0xff);
    let n = f32::from_bits(bits);
    let neg = (bits >> 31) == 1;
    let r = BigUint::from_f32(n);
    if field == 0xff {
        kani::assert(r.is_none(), "VERIF from_f32(NaN/inf) is not None");
    } else if field < 127 {
        match r {
            Some(u) => kani::assert(vc::digits(&u).is_empty(), "VERIF from_f32(|n| < 1) is not zero"),
            None => kani::assert(false, "VERIF from_f32(|n| < 1) is None"),
        }
    } else {
        let mant = (bits & ((1u32 << 23) - 1)) | (1u32 << 23);
        let v = (mant >> (150 - field)) as u64;
        match r {
            Some(u) => kani::assert(!neg && vc::digits(&u).len() == 1 && vc::digits(&u)[0] == v, "VERIF from_f32 truncation toward zero"),
            None => kani::assert(neg, "VERIF from_f32 None for a positive float"),
        }
    }
}
high_bits_shape!(c08_q_high_bits_0, 0);
high_bits_shape!(c08_q_high_bits_1, 1);
high_bits_shape!(c08_q_high_bits_2, 2);
high_bits_shape!(c08_q_high_bits_3, 3);
high_bits_shape!(c08_t_high_bits_4, 4);
high_bits_shape!(c08_t_high_bits_6, 6);
to_float_shape!(c08_q_to_float_0, 0);
to_float_shape!(c08_q_to_float_1, 1);
to_float_shape!(c08_q_to_float_2, 2);
// powers-of-two neighbourhoods around the primitive widths (2^64 and 2^128: where a "fast path through u64/u128" would saturate or wrap): thorough-tier attempts (solver resource error after 150 s, like the other from_f64 queries)
from_f64_field_shape!(c08_t_from_f64_field_1151, 1151, 3, shl_fixedb_1);
from_f64_field_shape!(c08_t_from_f64_field_1087, 1087, 2, shl_fixedb_0);
from_f64_field_shape!(c08_t_from_f64_field_1150, 1150, 3, shl_fixedb_1);
/// bit-level model of f64::trunc (IEEE-754 binary64: clear the fraction bits below the binary point; |x| < 1 -> signed zero;
/// NaN / infinity / already integral values unchanged)
fn trunc_model(x: f64) -> f64 {
    let bits = x.to_bits();
    let field = (bits >> 52) & 0x7ff;
    if field >= 1075 {
        x
    } else if field < 1023 {
        f64::from_bits(bits & (1u64 << 63))
    } else {
        let frac_bits = 1075 - field; // 1..=52 fraction bits below the point
        f64::from_bits(bits & !((1u64 << frac_bits) - 1))
    }
}
/// class-pinned stand-in for BigUint::from(u64) on a non-zero argument (the real one pushes in a data-dependent loop, which makes the
/// length symbolic for the solver; From<u64> itself is decided by c08_q_from_u64)
fn from_u64_nonzero(n: u64) -> BigUint {
    kani::assert(n != 0, "VERIF harness class mismatch: zero mantissa");
    vc::mk_from(&[n])
}
// thorough-tier attempt: with trunc, From<u64> and `<<=` replaced by models/pinned stand-ins the query still ends in a CBMC abort (memory) after 100 s
macro_rules! from_f64_trunc_model_shape {
    ($name:ident, $field:expr, $w:expr, $fixed:ident) => {
        #[kani::proof]
        #[kani::unwind(24)]
        #[kani::stub(<f64 as num_traits::float::FloatCore>::trunc, trunc_model)]
        #[kani::stub(<crate::biguint::BigUint as core::convert::From<u64>>::from, from_u64_nonzero)]
        #[kani::stub(alloc::vec::Vec::shrink_to_fit, vc::noop_shrink)]
        #[kani::stub(<crate::biguint::BigUint as core::ops::ShlAssign<usize>>::shl_assign, crate::biguint::shift::verif_c07_biguint_shift::$fixed)]
        fn $name() {
            let frac: u64 = kani::any();
            let bits: u64 = (($field as u64) << 52) | (frac & ((1u64 << 52) - 1));
            let n = f64::from_bits(bits);
            let mant = (bits & ((1u64 << 52) - 1)) | (1u64 << 52);
            let e: u64 = $field - 1075;
            let (expect, lost) = vc::ref_shl::<$w>(&[mant], (e / 64) as usize, (e % 64) as u32);
            kani::assert(!lost, "VERIF window too small");
            match BigUint::from_f64(n) {
                Some(u) => kani::assert(vc::is_canonical(&u) && vc::eq_window(vc::digits(&u), &expect), "VERIF BigUint::from_f64 value"),
                None => kani::assert(false, "VERIF BigUint::from_f64 None for a positive finite float"),
            }
        }
    };
}
from_f64_trunc_model_shape!(c08_t_from_f64_tm_1151, 1151, 3, shl_assign_fixed_1);
