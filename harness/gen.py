#!/usr/bin/env python3
"""Regenerates the macro-instantiation blocks (between `// BEGIN GENERATED <key>` and `// END GENERATED`)
of the harness files. Run by hand after changing a shape table; the output is committed."""
import re, sys
from pathlib import Path
H = Path(__file__).resolve().parent
GEN = {}

def tier(q):
    return "q" if q else "t"

def c01_biguint_addition():
    L = []
    quick = {(0, 0), (1, 0), (1, 1), (2, 1), (4, 4), (5, 5), (6, 5), (6, 6), (7, 3), (9, 5), (10, 10), (11, 10), (11, 11), (11, 6)}
    for la in range(0, 12):
        for lb in range(0, la + 1):
            L.append("add2_shape!(c01_%s_add2_%d_%d, %d, %d);" % (tier((la, lb) in quick), la, lb, la, lb))
    qa = {(0, 0), (0, 2), (2, 0), (1, 1), (1, 2), (2, 1), (2, 3), (3, 3), (5, 6), (6, 5), (5, 5)}
    shapes = [(a, b) for a in range(0, 5) for b in range(0, 5)] + [(5, 5), (5, 6), (6, 5), (6, 6), (10, 11), (11, 10), (10, 5), (5, 10)]
    for (la, lb) in shapes:
        w = max(la, lb) + 1
        L.append("add_assign_shape!(c01_%s_addassign_%d_%d, %d, %d, %d, 0);" % (tier((la, lb) in qa), la, lb, la, lb, w))
    for (la, lb) in [(1, 1), (2, 3), (3, 2)]:
        w = max(la, lb) + 1
        L.append("add_assign_shape!(c01_t_addassign_cap_%d_%d, %d, %d, %d, 3);" % (la, lb, la, lb, w))
    qr = {(0, 0), (1, 2), (2, 1), (2, 2), (0, 1)}
    for la in range(0, 4):
        for lb in range(0, 4):
            w = max(la, lb) + 1
            L.append("add_refref_shape!(c01_%s_addrefref_%d_%d, %d, %d, %d);" % (tier((la, lb) in qr), la, lb, la, lb, w))
    for (la, lb, ea, eb, q) in [(1, 2, 0, 0, True), (1, 2, 4, 0, True), (2, 1, 0, 4, True), (2, 2, 1, 0, False), (0, 2, 3, 0, False), (3, 1, 0, 3, False), (3, 3, 0, 1, False)]:
        w = max(la, lb) + 1
        L.append("add_valval_shape!(c01_%s_addvalval_%d_%d_c%d_%d, %d, %d, %d, %d, %d);" % (tier(q), la, lb, ea, eb, la, lb, w, ea, eb))
    return L
GEN["c01_biguint_addition"] = c01_biguint_addition

def regen():
    for f in H.rglob("*.rs"):
        t = f.read_text()
        def sub(m):
            key = m.group(1)
            if key not in GEN:
                print("no generator for", key, "in", f); return m.group(0)
            return "// BEGIN GENERATED %s\n%s\n// END GENERATED" % (key, "\n".join(GEN[key]()))
        t2 = re.sub(r"// BEGIN GENERATED (\w+)\n.*?// END GENERATED", sub, t, flags=re.S)
        if t2 != t:
            f.write_text(t2); print("regenerated", f)

if __name__ == "__main__":
    for p in H.glob("gen_*.py"):
        exec(compile(p.read_text(), str(p), "exec"))
    regen()
