def c02_bigint_mul():
    L = []
    sg = lambda n: "m" if n else "p"
    forms = [("rr", "&a * &b"), ("vv", "a * b"), ("vr", "a * &b"), ("rv", "&a * b"), ("as", "{ let mut x = a; x *= &b; x }"), ("av", "{ let mut x = a; x *= b; x }"),
             ("ck", "a.checked_mul(&b).unwrap()")]
    for fk, ft in forms:
        for (na, la, nb, lb) in [(False, 1, False, 1), (False, 1, True, 1), (True, 1, False, 2), (True, 2, True, 1), (False, 0, True, 1), (True, 1, False, 0), (False, 0, False, 0)]:
            L.append("imul_shape!(c02_%s_imul_%s_%s%d_%s%d, %s, %d, %s, %d, |a, b| %s);" % (
                tier(fk in ("rr", "as", "vv")), fk, sg(na), la, sg(nb), lb, str(na).lower(), la, str(nb).lower(), lb, ft))
    return L
GEN["c02_bigint_mul"] = c02_bigint_mul
