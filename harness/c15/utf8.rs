// C15 — the unchecked byte-to-String conversions only ever see ASCII (anchored in src/biguint/convert.rs)
#![allow(unused_imports, dead_code, static_mut_refs)]
use super::*;
use crate::biguint::verif_common as vc;
use alloc::{vec, vec::Vec};

// the ASCII mapping itself, for EVERY radix 2..=36 and every digit value below the radix, with the digit production under contract
// (to_radix_le -> three arbitrary digits < radix): every output byte is in [0-9a-z] and maps back to its digit
fn to_radix_le_model(_u: &BigUint, radix: u32) -> Vec<u8> {
    let d: [u8; 3] = kani::any();
    kani::assume((d[0] as u32) < radix && (d[1] as u32) < radix && (d[2] as u32) < radix);
    unsafe { GH_D = d; }
    d.to_vec()
}
static mut GH_D: [u8; 3] = [0; 3];
#[kani::proof]
#[kani::unwind(12)]
#[kani::stub(to_radix_le, to_radix_le_model)]
#[kani::stub(crate::biguint::verif_common::symbolic, crate::biguint::verif_common::yes)]
fn c15_q_ascii_mapping_all_radices() {
    let radix: u32 = kani::any();
    kani::assume(radix >= 2 && radix <= 36);
    let x = vc::mk_from(&[5]);
    if !vc::symbolic() {
        return;
    }
    let out = to_str_radix_reversed(&x, radix);
    kani::assert(out.len() == 3, "VERIF to_str_radix_reversed changed the number of digits");
    let mut i = 0;
    while i < 3 {
        let b = out[i];
        kani::assert((b >= b'0' && b <= b'9') || (b >= b'a' && b <= b'z'), "VERIF to_str_radix_reversed produced a byte outside [0-9a-z] (from_utf8_unchecked would be unsound)");
        let dv = if b <= b'9' { b - b'0' } else { b - b'a' + 10 };
        kani::assert(dv == unsafe { GH_D[i] }, "VERIF ASCII digit does not map back to the digit value");
        i += 1;
    }
}

// to_radix_le yields digits < radix for every radix 2..=36 (symbolic radix), hence to_str_radix_reversed yields only [0-9a-z];
// narrow values (a full 64-bit digit means up to 64 divisions by a symbolic radix)
macro_rules! ascii_shape {
    ($name:ident, $bits:expr, $unw:expr, $radix:expr) => {
        #[kani::proof]
        #[kani::unwind($unw)]
        #[kani::stub(alloc::vec::Vec::with_capacity, vc::vec_with_capacity_ignored)]
        fn $name() {
            let v: u64 = kani::any();
            kani::assume(v < (1u64 << $bits));
            let radix: u32 = $radix;
            let x = if v == 0 { BigUint::ZERO } else { vc::mk_from(&[v]) };
            let out = to_str_radix_reversed(&x, radix);
            kani::assert(!out.is_empty() && out.len() <= $bits + 1, "VERIF to_str_radix_reversed length");
            let i: usize = kani::any();
            kani::assume(i < out.len());
            let b = out[i];
            kani::assert((b >= b'0' && b <= b'9') || (b >= b'a' && b <= b'z'), "VERIF to_str_radix_reversed produced a byte outside [0-9a-z] (from_utf8_unchecked would be unsound)");
            let dv = if b <= b'9' { (b - b'0') as u32 } else { (b - b'a') as u32 + 10 };
            kani::assert(dv < radix, "VERIF digit >= radix");
            kani::assert(v == 0 || out[out.len() - 1] != b'0', "VERIF leading zero digit");
        }
    };
}
ascii_shape!(c15_t_ascii_r10, 8, 12, 10);
ascii_shape!(c15_t_ascii_r36, 8, 12, 36);
ascii_shape!(c15_t_ascii_r2, 6, 12, 2);
ascii_shape!(c15_t_ascii_r8, 6, 12, 8);
ascii_shape!(c15_t_ascii_r3, 8, 12, 3);
ascii_shape!(c15_t_ascii_r16, 16, 12, 16);
ascii_shape!(c15_t_ascii_r35, 8, 12, 35);
ascii_shape!(c15_t_ascii_r10_16bit, 16, 20, 10);
