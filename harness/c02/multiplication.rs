// C02 — multiplication: carry/index/dispatch logic decided with the 64x64 products ABSTRACTED (anchored in src/biguint/multiplication.rs).
// The word kernels mac_with_carry / mul_with_carry themselves are decided at full width by the MIR->SMT engine (mir:mac_with_carry@W64 ...).
// Here they are replaced by their contract with the product b*c drawn from an uninterpreted table (a fresh u128 <= (2^64-1)^2 per call,
// recorded in call order), so that every caller is checked against  result = sum of (recorded products) * 2^(64*position).
#![allow(unused_imports, dead_code, static_mut_refs)]
use super::*;
use crate::biguint::verif_common as vc;
use alloc::{vec, vec::Vec};

const MAXP: usize = 12;
static mut GH_P: [u128; MAXP] = [0; MAXP];
static mut GH_N: usize = 0;
const MAXSQ: u128 = 0xffff_ffff_ffff_fffe_0000_0000_0000_0001; // (2^64-1)^2

fn fresh_product(b: u64, c: u64) -> u128 {
    let p: u128 = kani::any();
    kani::assume(p <= MAXSQ);
    // the few facts about real products that callers rely on
    kani::assume(!(b == 0 || c == 0) || p == 0);
    kani::assume(b != 1 || p == c as u128);
    kani::assume(c != 1 || p == b as u128);
    kani::assume(b == 0 || c == 0 || (p >= b as u128 && p >= c as u128));
    unsafe {
        kani::assume(GH_N < MAXP);
        GH_P[GH_N] = p;
        GH_N += 1;
    }
    p
}
fn mac_with_carry_contract(a: u64, b: u64, c: u64, acc: &mut u128) -> u64 {
    kani::assert(*acc <= u64::MAX as u128, "VERIF mac_with_carry called with a carry that does not fit one digit");
    let p = fresh_product(b, c);
    *acc += a as u128;
    *acc += p;
    let lo = *acc as u64;
    *acc >>= 64;
    lo
}
fn mul_with_carry_contract(a: u64, b: u64, acc: &mut u128) -> u64 {
    kani::assert(*acc <= u64::MAX as u128, "VERIF mul_with_carry called with a carry that does not fit one digit");
    let p = fresh_product(a, b);
    *acc += p;
    let lo = *acc as u64;
    *acc >>= 64;
    lo
}
/// window value  sum_k  P[k] * 2^(64*pos(k))
fn add_product_at<const W: usize>(w: &mut [u64; W], p: u128, pos: usize) -> bool {
    let mut carry: u128 = 0;
    let parts = [p as u64, (p >> 64) as u64];
    let mut i = 0;
    let mut lost = false;
    while i < W + 1 {
        if i >= pos {
            let add = if i - pos < 2 { parts[i - pos] as u128 } else { 0 };
            if i < W {
                let s = w[i] as u128 + add + carry;
                w[i] = s as u64;
                carry = s >> 64;
            } else if add + carry != 0 {
                lost = true;
            }
        }
        i += 1;
    }
    lost
}

// mac_digit(acc, b, c): acc += b * c  (acc longer than b by 1 or 2 digits); final-carry assertion unreachable when the sum fits
macro_rules! mac_digit_shape {
    ($name:ident, $lb:expr, $la:expr) => {
        #[kani::proof]
        #[kani::unwind(12)]
        #[kani::stub(mac_with_carry, mac_with_carry_contract)]
        #[kani::stub(crate::biguint::verif_common::symbolic, crate::biguint::verif_common::yes)]
        #[kani::stub(core::arch::x86_64::_addcarry_u64, vc::stub_addcarry)]
        #[kani::stub(crate::biguint::addition::schoolbook_add_assign_x86_64, vc::model_add)]
        fn $name() {
            let acc0: [u64; $la] = kani::any();
            let b: [u64; $lb] = kani::any();
            let c: u64 = kani::any();
            unsafe { GH_N = 0; }
            // expected = acc0 + sum P_j 2^(64 j), where the P_j are the products the contract will hand out (c == 0: none)
            let mut acc = acc0;
            // the real function asserts that the result fits; restrict to inputs for which it mathematically does:
            // the top digit of acc0 is zero when la == lb + 1 and the running value stays below 2^(64 la)
            kani::assume(acc0[$la - 1] == 0);
            mac_digit(&mut acc, &b, c);
            if !vc::symbolic() {
                // native replay: exact reference acc0 + b*c
                let prod = vc::ref_mul::<$la>(&b, &[c]);
                let (sum, _) = vc::ref_add::<$la>(&acc0, &prod);
                let mut i = 0;
                while i < $la {
                    kani::assert(acc[i] == sum[i], "VERIF mac_digit: acc != acc0 + b*c (carry or position error)");
                    i += 1;
                }
                // native witness search over corner digits (acc0 = low digits all-ones to provoke carries)
                let mut k = 0;
                while k < vc::pow12($lb) {
                    let bb = vc::corner_operand::<$lb>(k);
                    let mut j = 0;
                    while j < 12 {
                        let cc = vc::CORNERS[j];
                        let mut a1 = [u64::MAX; $la];
                        a1[$la - 1] = 0;
                        if $la > $lb + 1 { a1[$la - 2] = 0; }
                        let a_before = a1;
                        mac_digit(&mut a1, &bb, cc);
                        let (s2, _) = vc::ref_add::<$la>(&a_before, &vc::ref_mul::<$la>(&bb, &[cc]));
                        let mut i = 0;
                        while i < $la {
                            kani::assert(a1[i] == s2[i], "VERIF mac_digit: acc != acc0 + b*c (carry or position error)");
                            i += 1;
                        }
                        j += 1;
                    }
                    k += 1;
                }
                return;
            }
            let mut e = [0u64; $la];
            let mut i = 0;
            while i < $la {
                e[i] = acc0[i];
                i += 1;
            }
            let n = unsafe { GH_N };
            kani::assert(n == if c == 0 { 0 } else { $lb }, "VERIF mac_digit performed a different number of digit products than b.len()");
            let mut lost = false;
            let mut j = 0;
            while j < $lb {
                if j < n {
                    lost |= add_product_at::<$la>(&mut e, unsafe { GH_P[j] }, j);
                }
                j += 1;
            }
            kani::assert(!lost, "VERIF (harness) window too small");
            let mut i = 0;
            while i < $la {
                kani::assert(acc[i] == e[i], "VERIF mac_digit: acc != acc0 + b*c (carry or position error)");
                i += 1;
            }
        }
    };
}

// mac3 in the long-multiplication regime with mac_digit's word kernel under contract: acc += b * c.
// products are recorded in call order: row i (digit of the SHORTER operand x), column j (digit of y).
macro_rules! mac3_shape {
    ($name:ident, $lb:expr, $lc:expr, $w:expr) => {
        #[kani::proof]
        #[kani::unwind(12)]
        #[kani::stub(mac_with_carry, mac_with_carry_contract)]
        #[kani::stub(crate::biguint::verif_common::symbolic, crate::biguint::verif_common::yes)]
        #[kani::stub(core::arch::x86_64::_addcarry_u64, vc::stub_addcarry)]
        #[kani::stub(crate::biguint::addition::schoolbook_add_assign_x86_64, vc::model_add)]
        fn $name() {
            let mut b: [u64; $lb] = kani::any();
            let mut c: [u64; $lc] = kani::any();
            // CONCRETE non-zero low digits, so that the zero-stripping prologue folds away (it is decided by c02_*_zero_strip_*);
            // the remaining digits are symbolic and may be zero (mac_digit's c == 0 early exit is then a recorded non-event)
            b[0] = 0x9e37_79b9_7f4a_7c15;
            c[0] = 3;
            let mut i = 1;
            while i < $lb { kani::assume(b[i] != 0); i += 1; }
            let mut i = 1;
            while i < $lc { kani::assume(c[i] != 0); i += 1; }
            unsafe { GH_N = 0; }
            let mut acc = [0u64; $w];
            mac3(&mut acc, &b, &c);
            if !vc::symbolic() {
                let prod = vc::ref_mul::<$w>(&b, &c);
                let mut i = 0;
                while i < $w {
                    kani::assert(acc[i] == prod[i], "VERIF mac3: acc != sum of digit products at their positions");
                    i += 1;
                }
                let mut k = 0;
                while k < vc::pow12($lb) {
                    let bb = vc::corner_operand::<$lb>(k);
                    let mut j = 0;
                    while j < vc::pow12($lc) {
                        let cc = vc::corner_operand::<$lc>(j);
                        let mut a1 = [0u64; $w];
                        mac3(&mut a1, &bb, &cc);
                        let p = vc::ref_mul::<$w>(&bb, &cc);
                        let mut i = 0;
                        while i < $w {
                            kani::assert(a1[i] == p[i], "VERIF mac3: acc != sum of digit products at their positions");
                            i += 1;
                        }
                        j += 1;
                    }
                    k += 1;
                }
                return;
            }
            let (lx, ly) = if $lb < $lc { ($lb, $lc) } else { ($lc, $lb) };
            kani::assert(unsafe { GH_N } == lx * ly, "VERIF mac3 did not form every digit product exactly once");
            let mut e = [0u64; $w];
            let mut lost = false;
            let mut k = 0;
            while k < lx * ly {
                let (row, col) = (k / ly, k % ly);
                lost |= add_product_at::<$w>(&mut e, unsafe { GH_P[k] }, row + col);
                k += 1;
            }
            kani::assert(!lost, "VERIF (harness) window too small");
            let mut i = 0;
            while i < $w {
                kani::assert(acc[i] == e[i], "VERIF mac3: acc != sum of digit products at their positions");
                i += 1;
            }
        }
    };
}
// zero-stripping prologue of mac3: low zero digits only shift the position; an all-zero operand contributes nothing
static mut REC_POS: usize = 0;
static mut REC_LB: usize = 0;
static mut REC_CALLS: u32 = 0;
fn mac_digit_rec(acc: &mut [u64], b: &[u64], _c: u64) {
    unsafe {
        REC_CALLS += 1;
        REC_LB = b.len();
        REC_POS = acc.len();
    }
}
macro_rules! zero_strip_shape {
    ($name:ident, $zb:expr, $zc:expr) => {
        #[kani::proof]
        #[kani::unwind(12)]
        #[kani::stub(mac_digit, mac_digit_rec)]
        #[kani::stub(crate::biguint::verif_common::symbolic, crate::biguint::verif_common::yes)]
        fn $name() {
            // b = [0; zb] ++ [nonzero], c = [0; zc] ++ [nonzero, nonzero]
            let mut b = [0u64; $zb + 1];
            let mut c = [0u64; $zc + 2];
            // concrete digits: this harness is about index arithmetic only (symbolic values would make the strip count symbolic)
            let (x, y, z): (u64, u64, u64) = (5, 7, u64::MAX);
            b[$zb] = x;
            c[$zc] = y;
            c[$zc + 1] = z;
            let mut acc = [0u64; $zb + $zc + 4];
            unsafe { REC_CALLS = 0; }
            mac3(&mut acc, &b, &c);
            if !vc::symbolic() {
                let prod = vc::ref_mul::<{ $zb + $zc + 4 }>(&b, &c);
                let mut i = 0;
                while i < $zb + $zc + 4 {
                    kani::assert(acc[i] == prod[i], "VERIF mac3 accumulates at the wrong digit offset after zero stripping");
                    i += 1;
                }
                return;
            }
            // one row (the 1-digit operand is the shorter one), starting at digit position zb + zc
            kani::assert(unsafe { REC_CALLS } == 1 && unsafe { REC_LB } == 2, "VERIF mac3 rows after zero stripping");
            kani::assert(unsafe { REC_POS } == ($zb + $zc + 4) - ($zb + $zc), "VERIF mac3 accumulates at the wrong digit offset after zero stripping");
        }
    };
}
#[kani::proof]
#[kani::unwind(12)]
#[kani::stub(mac_digit, mac_digit_rec)]
#[kani::stub(crate::biguint::verif_common::symbolic, crate::biguint::verif_common::yes)]
fn c02_q_zero_operand() {
    let c: [u64; 2] = kani::any();
    let mut acc = [0u64; 5];
    unsafe { REC_CALLS = 0; }
    mac3(&mut acc, &[0, 0], &c);
    mac3(&mut acc, &c, &[0]);
    if !vc::symbolic() {
        kani::assert(vc::ref_is_zero(&acc), "VERIF mac3 with an all-zero operand must not accumulate anything");
        return;
    }
    kani::assert(unsafe { REC_CALLS } == 0, "VERIF mac3 with an all-zero operand must not accumulate anything");
}

// scalar_mul: 0 -> zero, 1 -> unchanged, power of two -> shift, otherwise digit loop + push of the final carry
macro_rules! scalar_mul_shape {
    ($name:ident, $l:expr) => {
        #[kani::proof]
        #[kani::unwind(12)]
        #[kani::stub(mul_with_carry, mul_with_carry_contract)]
        #[kani::stub(crate::biguint::verif_common::symbolic, crate::biguint::verif_common::yes)]
        #[kani::stub(alloc::vec::Vec::shrink_to_fit, vc::noop_shrink)]
        #[kani::stub(<BigUint as core::ops::ShlAssign<u32>>::shl_assign, shl_assign_unreachable)]
        fn $name() {
            let a0: [u64; $l] = vc::any_canon::<$l>();
            let d: u64 = kani::any();
            kani::assume(!d.is_power_of_two());
            let mut a = vc::mk_from(&a0);
            unsafe { GH_N = 0; }
            scalar_mul(&mut a, d);
            if !vc::symbolic() {
                let prod = vc::ref_mul::<{ $l + 1 }>(&a0, &[d]);
                kani::assert(vc::eq_window(vc::digits(&a), &prod), "VERIF scalar_mul: result != sum of digit products (carry dropped?)");
                kani::assert(vc::is_canonical(&a), "VERIF scalar_mul result not canonical");
                // native witness search (abstract counterexample): same operation over corner digits
                let mut k = 0;
                while k < vc::pow12($l) {
                    let x0 = vc::corner_operand::<$l>(k);
                    if $l == 0 || x0[$l - 1] != 0 {
                        let mut j = 0;
                        while j < 12 {
                            let dd = vc::CORNERS[j];
                            let mut x = vc::mk_from(&x0);
                            scalar_mul(&mut x, dd);
                            let p = vc::ref_mul::<{ $l + 1 }>(&x0, &[dd]);
                            kani::assert(vc::eq_window(vc::digits(&x), &p), "VERIF scalar_mul: result != sum of digit products (carry dropped?)");
                            kani::assert(vc::is_canonical(&x), "VERIF scalar_mul result not canonical");
                            j += 1;
                        }
                    }
                    k += 1;
                }
                return;
            }
            if d == 0 {
                kani::assert(vc::digits(&a).is_empty(), "VERIF x * 0 != 0");
            } else {
                let mut e = [0u64; $l + 1];
                let mut lost = false;
                let mut j = 0;
                kani::assert(unsafe { GH_N } == $l, "VERIF scalar_mul did not multiply every digit once");
                while j < $l {
                    lost |= add_product_at::<{ $l + 1 }>(&mut e, unsafe { GH_P[j] }, j);
                    j += 1;
                }
                kani::assert(!lost && vc::eq_window(vc::digits(&a), &e), "VERIF scalar_mul: result != sum of digit products (carry dropped?)");
                kani::assert(vc::is_canonical(&a), "VERIF scalar_mul result not canonical");
            }
            kani::cover!($l == 0 || vc::digits(&a).len() == $l + 1, "reach:carry_digit_pushed");
        }
    };
}
fn shl_assign_unreachable(_a: &mut BigUint, _k: u32) {
    kani::assert(false, "VERIF scalar_mul took the shift path for a multiplier that is not a power of two");
}
static mut SHL_K: u32 = 0;
static mut SHL_CALLS: u32 = 0;
fn shl_assign_rec(_a: &mut BigUint, k: u32) {
    unsafe { SHL_K = k; SHL_CALLS += 1; }
}
// power-of-two and identity fast paths: the shift amount handed to <<= (the shift itself is C07's claim)
macro_rules! scalar_mul_pow2_shape {
    ($name:ident, $l:expr) => {
        #[kani::proof]
        #[kani::unwind(12)]
        #[kani::stub(mul_with_carry, mul_with_carry_contract)]
        #[kani::stub(crate::biguint::verif_common::symbolic, crate::biguint::verif_common::yes)]
        #[kani::stub(<BigUint as core::ops::ShlAssign<u32>>::shl_assign, shl_assign_rec)]
        #[kani::stub(crate::biguint::verif_common::symbolic, crate::biguint::verif_common::yes)]
        fn $name() {
            let a0: [u64; $l] = vc::any_canon::<$l>();
            let k: u32 = kani::any();
            kani::assume(k < 64);
            let mut a = vc::mk_from(&a0);
            unsafe { SHL_CALLS = 0; GH_N = 0; }
            scalar_mul(&mut a, 1u64 << k);
            if !vc::symbolic() {
                let (e, _) = vc::ref_shl::<{ $l + 1 }>(&a0, 0, k);
                kani::assert(vc::eq_window(vc::digits(&a), &e), "VERIF x * 2^k must be x <<= k");
                return;
            }
            if k == 0 {
                kani::assert(unsafe { SHL_CALLS } == 0 && unsafe { GH_N } == 0 && vc::eq_window(vc::digits(&a), &a0), "VERIF x * 1 must leave x unchanged");
            } else {
                kani::assert(unsafe { SHL_CALLS } == 1 && unsafe { SHL_K } == k && unsafe { GH_N } == 0, "VERIF x * 2^k must be x <<= k");
            }
        }
    };
}

// dispatch of Mul / MulAssign for BigUint: zero, single digit (scalar path), general (mul3), with recorders
static mut D_KIND: u8 = 0; // 1 = scalar_mul, 2 = mul3
static mut D_SCALAR: u64 = 0;
static mut D_LX: usize = 0;
static mut D_LY: usize = 0;
fn scalar_mul_rec(a: &mut BigUint, b: u64) {
    unsafe { D_KIND = 1; D_SCALAR = b; D_LX = vc::digits(a).len(); }
}
fn mul3_rec(x: &[u64], y: &[u64]) -> BigUint {
    unsafe { D_KIND = 2; D_LX = x.len(); D_LY = y.len(); }
    BigUint::ZERO
}
macro_rules! dispatch_shape {
    ($name:ident, $la:expr, $lb:expr, |$a:ident, $b:ident| $e:expr) => {
        #[kani::proof]
        #[kani::unwind(12)]
        #[kani::stub(scalar_mul, scalar_mul_rec)]
        #[kani::stub(crate::biguint::verif_common::symbolic, crate::biguint::verif_common::yes)]
        #[kani::stub(mul3, mul3_rec)]
        fn $name() {
            let a0: [u64; $la] = vc::any_canon::<$la>();
            let b0: [u64; $lb] = vc::any_canon::<$lb>();
            let $a = vc::mk_from(&a0);
            let $b = vc::mk_from(&b0);
            unsafe { D_KIND = 0; }
            let r: BigUint = $e;
            if !vc::symbolic() {
                let prod = vc::ref_mul::<{ $la + $lb + 1 }>(&a0, &b0);
                kani::assert(vc::eq_window(vc::digits(&r), &prod) && vc::is_canonical(&r), "VERIF product differs from the schoolbook reference (native replay)");
                return;
            }
            if $la == 0 || $lb == 0 {
                kani::assert(unsafe { D_KIND } == 0 && vc::digits(&r).is_empty(), "VERIF x * 0 must be 0 without multiplying");
            } else if $lb == 1 {
                kani::assert(unsafe { D_KIND } == 1 && unsafe { D_SCALAR } == b0[0] && unsafe { D_LX } == $la, "VERIF single-digit right operand must go to the scalar path with that digit");
            } else if $la == 1 {
                kani::assert(unsafe { D_KIND } == 1 && unsafe { D_SCALAR } == a0[0] && unsafe { D_LX } == $lb, "VERIF single-digit left operand must go to the scalar path with that digit");
            } else {
                kani::assert(unsafe { D_KIND } == 2 && unsafe { D_LX } == $la && unsafe { D_LY } == $lb, "VERIF general operands must go to mul3 with both digit slices");
            }
        }
    };
}
// scalar multiplier forms: BigUint *= u32 / u64 / u128 (and `x * s`): a scalar that fits one digit goes to scalar_mul with that digit,
// a wider u128 goes to mul3 with its two digits [lo, hi]; a zero big operand stays a canonical zero
macro_rules! scalar_dispatch_shape {
    ($name:ident, $la:expr, $T:ty, |$a:ident, $s:ident| $e:expr) => {
        #[kani::proof]
        #[kani::unwind(12)]
        #[kani::stub(scalar_mul, scalar_mul_rec)]
        #[kani::stub(crate::biguint::verif_common::symbolic, crate::biguint::verif_common::yes)]
        #[kani::stub(mul3, mul3_rec)]
        fn $name() {
            let a0: [u64; $la] = vc::any_canon::<$la>();
            let $s: $T = kani::any();
            let $a = vc::mk_from(&a0);
            unsafe { D_KIND = 0; }
            let sv: u128 = $s as u128;
            let r: BigUint = $e;
            if !vc::symbolic() {
                let prod = vc::ref_mul::<{ $la + 3 }>(&a0, &[sv as u64, (sv >> 64) as u64]);
                kani::assert(vc::eq_window(vc::digits(&r), &prod) && vc::is_canonical(&r), "VERIF product by a scalar differs from the schoolbook reference (native replay)");
                return;
            }
            if sv <= u64::MAX as u128 {
                kani::assert(unsafe { D_KIND } == 1 && unsafe { D_SCALAR } == sv as u64 && unsafe { D_LX } == $la, "VERIF one-digit scalar must go to scalar_mul with that digit");
            } else {
                kani::assert(unsafe { D_KIND } == 2 && unsafe { D_LX } == $la && unsafe { D_LY } == 2, "VERIF two-digit scalar must go to mul3 with [lo, hi]");
            }
        }
    };
}
scalar_dispatch_shape!(c02_q_sdispatch_u128_assign_0, 0, u128, |a, s| { let mut x = a; x *= s; x });
scalar_dispatch_shape!(c02_q_sdispatch_u128_assign_2, 2, u128, |a, s| { let mut x = a; x *= s; x });
scalar_dispatch_shape!(c02_q_sdispatch_u128_val_1, 1, u128, |a, s| a * s);
scalar_dispatch_shape!(c02_q_sdispatch_u128_left_1, 1, u128, |a, s| s * a);
scalar_dispatch_shape!(c02_q_sdispatch_u64_assign_0, 0, u64, |a, s| { let mut x = a; x *= s; x });
scalar_dispatch_shape!(c02_q_sdispatch_u64_val_2, 2, u64, |a, s| a * s);
scalar_dispatch_shape!(c02_q_sdispatch_u32_ref_1, 1, u32, |a, s| &a * s);
scalar_dispatch_shape!(c02_t_sdispatch_usize_assign_1, 1, usize, |a, s| { let mut x = a; x *= s; x });
scalar_dispatch_shape!(c02_t_sdispatch_u8_left_2, 2, u8, |a, s| s * &a);

// mul3 sizing: product buffer x.len() + y.len() + 1, result normalised
static mut M_ACC: usize = 0;
fn mac3_rec(acc: &mut [u64], b: &[u64], c: &[u64]) {
    unsafe { M_ACC = acc.len(); }
    // leave an arbitrary product of the right size
    let mut i = 0;
    while i < acc.len() {
        acc[i] = kani::any();
        i += 1;
    }
    let _ = (b, c);
}
#[kani::proof]
#[kani::unwind(12)]
#[kani::stub(mac3, mac3_rec)]
#[kani::stub(crate::biguint::verif_common::symbolic, crate::biguint::verif_common::yes)]
#[kani::stub(alloc::vec::Vec::shrink_to_fit, vc::noop_shrink)]
fn c02_q_mul3_sizing() {
    let x: [u64; 2] = kani::any();
    let y: [u64; 3] = kani::any();
    let r = mul3(&x, &y);
    if !vc::symbolic() {
        kani::assert(vc::eq_window(vc::digits(&r), &vc::ref_mul::<6>(&x, &y)) && vc::is_canonical(&r), "VERIF mul3 result not canonical");
        return;
    }
    kani::assert(unsafe { M_ACC } == 6, "VERIF mul3 product buffer is not x.len() + y.len() + 1 digits");
    kani::assert(vc::is_canonical(&r), "VERIF mul3 result not canonical");
}

// sub_sign: |a - b| and its sign on possibly un-normalised slices (used for the Karatsuba middle term)
macro_rules! sub_sign_shape {
    ($name:ident, $la:expr, $lb:expr) => {
        #[kani::proof]
        #[kani::unwind(12)]
        #[kani::stub(alloc::vec::Vec::shrink_to_fit, vc::noop_shrink)]
        #[kani::stub(core::arch::x86_64::_subborrow_u64, vc::stub_subborrow)]
        #[kani::stub(crate::biguint::subtraction::schoolbook_sub_assign_x86_64, vc::model_sub)]
        fn $name() {
            let a: [u64; $la] = kani::any();
            let b: [u64; $lb] = kani::any();
            let (s, d) = sub_sign(&a, &b);
            let c = vc::ref_cmp(&a, &b);
            let (e, _) = if c >= 0 { vc::ref_sub::<4>(&a, &b) } else { vc::ref_sub::<4>(&b, &a) };
            kani::assert(vc::is_canonical(&d) && vc::eq_window(vc::digits(&d), &e), "VERIF sub_sign magnitude != |a - b|");
            kani::assert(s == if c > 0 { Plus } else if c < 0 { Minus } else { NoSign }, "VERIF sub_sign sign");
        }
    };
}

mac_digit_shape!(c02_q_mac_digit_1_2, 1, 2);
mac_digit_shape!(c02_q_mac_digit_2_3, 2, 3);
mac_digit_shape!(c02_q_mac_digit_2_4, 2, 4);
mac_digit_shape!(c02_t_mac_digit_3_4, 3, 4);
mac_digit_shape!(c02_t_mac_digit_4_5, 4, 5);
mac3_shape!(c02_q_mac3_1_1, 1, 1, 3);
mac3_shape!(c02_q_mac3_1_2, 1, 2, 4);
mac3_shape!(c02_q_mac3_2_1, 2, 1, 4);
mac3_shape!(c02_q_mac3_2_2, 2, 2, 5);
mac3_shape!(c02_t_mac3_2_3, 2, 3, 6);
mac3_shape!(c02_t_mac3_3_3, 3, 3, 7);
zero_strip_shape!(c02_q_zero_strip_0_1, 0, 1);
zero_strip_shape!(c02_q_zero_strip_1_0, 1, 0);
zero_strip_shape!(c02_q_zero_strip_2_1, 2, 1);
scalar_mul_shape!(c02_q_scalar_mul_1, 1);
scalar_mul_shape!(c02_q_scalar_mul_2, 2);
scalar_mul_shape!(c02_t_scalar_mul_3, 3);
scalar_mul_shape!(c02_q_scalar_mul_0, 0);
scalar_mul_pow2_shape!(c02_q_scalar_mul_pow2_1, 1);
scalar_mul_pow2_shape!(c02_q_scalar_mul_pow2_2, 2);
dispatch_shape!(c02_q_dispatch_rr_2_2, 2, 2, |a, b| &a * &b);
dispatch_shape!(c02_q_dispatch_rr_2_1, 2, 1, |a, b| &a * &b);
dispatch_shape!(c02_q_dispatch_vv_1_3, 1, 3, |a, b| a * b);
dispatch_shape!(c02_q_dispatch_vr_0_2, 0, 2, |a, b| a * &b);
dispatch_shape!(c02_q_dispatch_rv_2_0, 2, 0, |a, b| &a * b);
dispatch_shape!(c02_q_dispatch_assign_3_2, 3, 2, |a, b| { let mut x = a; x *= &b; x });
dispatch_shape!(c02_q_dispatch_assign_1_2, 1, 2, |a, b| { let mut x = a; x *= b; x });
dispatch_shape!(c02_t_dispatch_assign_2_1, 2, 1, |a, b| { let mut x = a; x *= &b; x });
dispatch_shape!(c02_t_dispatch_rv_1_1, 1, 1, |a, b| &a * b);
sub_sign_shape!(c02_t_sub_sign_2_2, 2, 2);




