// C02 — BigInt multiplication: sign = product of signs, NoSign exactly for a zero product (anchored in src/bigint/multiplication.rs)
#![allow(unused_imports, dead_code)]
use super::*;
use crate::bigint::verif_icommon::*;
use crate::biguint::verif_common as vc;
use crate::biguint::BigUint;
use alloc::{vec, vec::Vec};

// the unsigned product is replaced by a model: zero iff a factor is zero, otherwise an arbitrary canonical value
fn umul_model(a: &BigUint, b: &BigUint) -> BigUint {
    if vc::digits(a).is_empty() || vc::digits(b).is_empty() { BigUint::ZERO } else { vc::mk_from(&vc::any_canon::<2>()) }
}
fn umul_rr<'a, 'b>(a: &'a BigUint, b: &'b BigUint) -> BigUint where 'a: 'a, 'b: 'b { umul_model(a, b) }
fn umul_vv(a: BigUint, b: BigUint) -> BigUint { umul_model(&a, &b) }
fn umul_vr<'a>(a: BigUint, b: &'a BigUint) -> BigUint where 'a: 'a { umul_model(&a, b) }
fn umul_rv<'a>(a: &'a BigUint, b: BigUint) -> BigUint where 'a: 'a { umul_model(a, &b) }
fn umul_assign_r<'a>(a: &mut BigUint, b: &'a BigUint) where 'a: 'a { *a = umul_model(a, b); }
fn umul_assign_v(a: &mut BigUint, b: BigUint) { *a = umul_model(a, &b); }

macro_rules! imul_shape {
    ($name:ident, $na:expr, $la:expr, $nb:expr, $lb:expr, |$a:ident, $b:ident| $e:expr) => {
        #[kani::proof]
        #[kani::unwind(34)]
        #[kani::stub(<&BigUint as core::ops::Mul<&BigUint>>::mul, umul_rr)]
        #[kani::stub(<BigUint as core::ops::Mul<BigUint>>::mul, umul_vv)]
        #[kani::stub(<BigUint as core::ops::Mul<&BigUint>>::mul, umul_vr)]
        #[kani::stub(<&BigUint as core::ops::Mul<BigUint>>::mul, umul_rv)]
        #[kani::stub(<BigUint as core::ops::MulAssign<&BigUint>>::mul_assign, umul_assign_r)]
        #[kani::stub(<BigUint as core::ops::MulAssign<BigUint>>::mul_assign, umul_assign_v)]
        fn $name() {
            let a0: [u64; $la] = vc::any_canon::<$la>();
            let b0: [u64; $lb] = vc::any_canon::<$lb>();
            let $a = mkint($na, &a0);
            let $b = mkint($nb, &b0);
            let r: BigInt = $e;
            kani::assert(int_canonical(&r), "VERIF BigInt product not canonical (NoSign iff zero)");
            if $la == 0 || $lb == 0 {
                kani::assert(mag(&r).is_empty(), "VERIF product with zero is not zero");
            } else {
                kani::assert(!mag(&r).is_empty() && (is_neg(&r) == ($na != $nb)), "VERIF sign of the product is not the product of the signs");
            }
        }
    };
}
// BEGIN GENERATED c02_bigint_mul
imul_shape!(c02_q_imul_rr_p1_p1, false, 1, false, 1, |a, b| &a * &b);
imul_shape!(c02_q_imul_rr_p1_m1, false, 1, true, 1, |a, b| &a * &b);
imul_shape!(c02_q_imul_rr_m1_p2, true, 1, false, 2, |a, b| &a * &b);
imul_shape!(c02_q_imul_rr_m2_m1, true, 2, true, 1, |a, b| &a * &b);
imul_shape!(c02_q_imul_rr_p0_m1, false, 0, true, 1, |a, b| &a * &b);
imul_shape!(c02_q_imul_rr_m1_p0, true, 1, false, 0, |a, b| &a * &b);
imul_shape!(c02_q_imul_rr_p0_p0, false, 0, false, 0, |a, b| &a * &b);
imul_shape!(c02_q_imul_vv_p1_p1, false, 1, false, 1, |a, b| a * b);
imul_shape!(c02_q_imul_vv_p1_m1, false, 1, true, 1, |a, b| a * b);
imul_shape!(c02_q_imul_vv_m1_p2, true, 1, false, 2, |a, b| a * b);
imul_shape!(c02_q_imul_vv_m2_m1, true, 2, true, 1, |a, b| a * b);
imul_shape!(c02_q_imul_vv_p0_m1, false, 0, true, 1, |a, b| a * b);
imul_shape!(c02_q_imul_vv_m1_p0, true, 1, false, 0, |a, b| a * b);
imul_shape!(c02_q_imul_vv_p0_p0, false, 0, false, 0, |a, b| a * b);
imul_shape!(c02_t_imul_vr_p1_p1, false, 1, false, 1, |a, b| a * &b);
imul_shape!(c02_t_imul_vr_p1_m1, false, 1, true, 1, |a, b| a * &b);
imul_shape!(c02_t_imul_vr_m1_p2, true, 1, false, 2, |a, b| a * &b);
imul_shape!(c02_t_imul_vr_m2_m1, true, 2, true, 1, |a, b| a * &b);
imul_shape!(c02_t_imul_vr_p0_m1, false, 0, true, 1, |a, b| a * &b);
imul_shape!(c02_t_imul_vr_m1_p0, true, 1, false, 0, |a, b| a * &b);
imul_shape!(c02_t_imul_vr_p0_p0, false, 0, false, 0, |a, b| a * &b);
imul_shape!(c02_t_imul_rv_p1_p1, false, 1, false, 1, |a, b| &a * b);
imul_shape!(c02_t_imul_rv_p1_m1, false, 1, true, 1, |a, b| &a * b);
imul_shape!(c02_t_imul_rv_m1_p2, true, 1, false, 2, |a, b| &a * b);
imul_shape!(c02_t_imul_rv_m2_m1, true, 2, true, 1, |a, b| &a * b);
imul_shape!(c02_t_imul_rv_p0_m1, false, 0, true, 1, |a, b| &a * b);
imul_shape!(c02_t_imul_rv_m1_p0, true, 1, false, 0, |a, b| &a * b);
imul_shape!(c02_t_imul_rv_p0_p0, false, 0, false, 0, |a, b| &a * b);
imul_shape!(c02_q_imul_as_p1_p1, false, 1, false, 1, |a, b| { let mut x = a; x *= &b; x });
imul_shape!(c02_q_imul_as_p1_m1, false, 1, true, 1, |a, b| { let mut x = a; x *= &b; x });
imul_shape!(c02_q_imul_as_m1_p2, true, 1, false, 2, |a, b| { let mut x = a; x *= &b; x });
imul_shape!(c02_q_imul_as_m2_m1, true, 2, true, 1, |a, b| { let mut x = a; x *= &b; x });
imul_shape!(c02_q_imul_as_p0_m1, false, 0, true, 1, |a, b| { let mut x = a; x *= &b; x });
imul_shape!(c02_q_imul_as_m1_p0, true, 1, false, 0, |a, b| { let mut x = a; x *= &b; x });
imul_shape!(c02_q_imul_as_p0_p0, false, 0, false, 0, |a, b| { let mut x = a; x *= &b; x });
imul_shape!(c02_t_imul_av_p1_p1, false, 1, false, 1, |a, b| { let mut x = a; x *= b; x });
imul_shape!(c02_t_imul_av_p1_m1, false, 1, true, 1, |a, b| { let mut x = a; x *= b; x });
imul_shape!(c02_t_imul_av_m1_p2, true, 1, false, 2, |a, b| { let mut x = a; x *= b; x });
imul_shape!(c02_t_imul_av_m2_m1, true, 2, true, 1, |a, b| { let mut x = a; x *= b; x });
imul_shape!(c02_t_imul_av_p0_m1, false, 0, true, 1, |a, b| { let mut x = a; x *= b; x });
imul_shape!(c02_t_imul_av_m1_p0, true, 1, false, 0, |a, b| { let mut x = a; x *= b; x });
imul_shape!(c02_t_imul_av_p0_p0, false, 0, false, 0, |a, b| { let mut x = a; x *= b; x });
imul_shape!(c02_t_imul_ck_p1_p1, false, 1, false, 1, |a, b| a.checked_mul(&b).unwrap());
imul_shape!(c02_t_imul_ck_p1_m1, false, 1, true, 1, |a, b| a.checked_mul(&b).unwrap());
imul_shape!(c02_t_imul_ck_m1_p2, true, 1, false, 2, |a, b| a.checked_mul(&b).unwrap());
imul_shape!(c02_t_imul_ck_m2_m1, true, 2, true, 1, |a, b| a.checked_mul(&b).unwrap());
imul_shape!(c02_t_imul_ck_p0_m1, false, 0, true, 1, |a, b| a.checked_mul(&b).unwrap());
imul_shape!(c02_t_imul_ck_m1_p0, true, 1, false, 0, |a, b| a.checked_mul(&b).unwrap());
imul_shape!(c02_t_imul_ck_p0_p0, false, 0, false, 0, |a, b| a.checked_mul(&b).unwrap());
// END GENERATED
