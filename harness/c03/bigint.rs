// C03 — BigInt division conventions, decided with the unsigned quotient/remainder under its CONTRACT:
// `biguint::division::div_rem_ref` is replaced by a model returning arbitrary canonical (q, r) of the query's
// concrete lengths with r < d and |a| = P + r, where P is an abstract stand-in for q*d (P = 0 iff q = 0).
// The expected (Q, R) of each convention is computed from its definition over a two's-complement window and
// cross-checked by the linear identity a = Q*b + R expressed through P (oracle self-check).
#![allow(unused_imports, dead_code, static_mut_refs)]
use super::*;
use crate::bigint::verif_icommon::*;
use crate::biguint::verif_common as vc;
use alloc::{vec, vec::Vec};
use num_integer::Integer;
use num_traits::{CheckedDiv, CheckedEuclid, Euclid};

const W: usize = 4;
static mut GH_Q: [u64; W] = [0; W];
static mut GH_R: [u64; W] = [0; W];
static mut GH_P: [u64; W] = [0; W];
static mut GH_CALLS: u32 = 0;

fn widen<const N: usize>(x: &[u64; N]) -> [u64; W] {
    let mut o = [0u64; W];
    let mut i = 0;
    while i < N {
        o[i] = x[i];
        i += 1;
    }
    o
}

fn widen_slice(x: &[u64]) -> [u64; W] {
    let mut o = [0u64; W];
    let mut i = 0;
    while i < x.len() && i < W {
        o[i] = x[i];
        i += 1;
    }
    o
}

/// contract model of the unsigned division (see file header); LQ/LR = concrete result lengths of this query
fn divrem_contract_body<const LQ: usize, const LR: usize>(u: &BigUint, d: &BigUint) -> (BigUint, BigUint) {
    if vc::digits(d).is_empty() {
        panic!("attempt to divide by zero")
    }
    let q = vc::any_canon::<LQ>();
    let r = vc::any_canon::<LR>();
    let p: [u64; W] = kani::any();
    kani::assume(vc::ref_cmp(&r, vc::digits(d)) < 0);
    let (s, c) = vc::ref_add::<W>(&p, &r);
    kani::assume(!c && vc::eq_window(vc::digits(u), &s));
    kani::assume(vc::ref_is_zero(&p) == (LQ == 0));
    unsafe {
        GH_CALLS += 1;
        GH_Q = widen(&q);
        GH_R = widen(&r);
        GH_P = p;
    }
    (vc::mk_from(&q), vc::mk_from(&r))
}
macro_rules! contract_fn {
    ($name:ident, $lq:expr, $lr:expr) => {
        pub(crate) fn $name(u: &BigUint, d: &BigUint) -> (BigUint, BigUint) {
            divrem_contract_body::<$lq, $lr>(u, d)
        }
    };
}
contract_fn!(divrem_contract_0_0, 0, 0);
contract_fn!(divrem_contract_0_1, 0, 1);
contract_fn!(divrem_contract_0_2, 0, 2);
contract_fn!(divrem_contract_1_0, 1, 0);
contract_fn!(divrem_contract_1_1, 1, 1);
contract_fn!(divrem_contract_1_2, 1, 2);
contract_fn!(divrem_contract_2_0, 2, 0);
contract_fn!(divrem_contract_2_1, 2, 1);

pub(crate) const TRUNC: u8 = 0;
pub(crate) const FLOOR: u8 = 1;
pub(crate) const EUCLID: u8 = 2;
pub(crate) const CEIL: u8 = 3;

/// expected (Q, R) windows of a convention, from its definition, given the unsigned (q, r, d, P)
fn expected(conv: u8, na: bool, nb: bool, a_tc: &[u64; W], d: &[u64; W]) -> ([u64; W], [u64; W]) {
    let (q, r, p) = unsafe { (GH_Q, GH_R, GH_P) };
    let rz = vc::ref_is_zero(&r);
    let one: [u64; W] = [1, 0, 0, 0];
    let q1 = add_w(&q, &one);
    let dmr = sub_w(d, &r);
    let pd = add_w(&p, d); // (q+1)*d
    let zero = [0u64; W];
    // (Q, R, |Q|*d)
    let (qq, rr, qd_abs) = if conv == TRUNC {
        (if na != nb { neg_w(&q) } else { q }, if na { neg_w(&r) } else { r }, p)
    } else if conv == FLOOR {
        if na == nb {
            (q, if nb { neg_w(&r) } else { r }, p)
        } else if rz {
            (neg_w(&q), zero, p)
        } else {
            (neg_w(&q1), if nb { neg_w(&dmr) } else { dmr }, pd)
        }
    } else if conv == EUCLID {
        if !na {
            (if nb { neg_w(&q) } else { q }, r, p)
        } else if rz {
            (if nb { q } else { neg_w(&q) }, zero, p)
        } else {
            (if nb { q1 } else { neg_w(&q1) }, dmr, pd)
        }
    } else {
        if na == nb {
            if rz {
                (q, zero, p)
            } else {
                (q1, zero, pd)
            }
        } else {
            (neg_w(&q), zero, p)
        }
    };
    if conv != CEIL {
        // oracle self-check: a = Q*b + R, with Q*b = sign(Q)*sign(b)*(|Q|*d)
        let qneg = is_neg_w(&qq);
        let qb = if qneg != nb { neg_w(&qd_abs) } else { qd_abs };
        kani::assert(eq_w(a_tc, &add_w(&qb, &rr)), "VERIF-ORACLE self-check a = Q*b + R failed (bug in the check, not in the code)");
    }
    (qq, rr)
}

pub(crate) const API_DIV_REM: u8 = 0;
pub(crate) const API_DIV: u8 = 1;
pub(crate) const API_REM: u8 = 2;
pub(crate) const API_DIV_FLOOR: u8 = 3;
pub(crate) const API_MOD_FLOOR: u8 = 4;
pub(crate) const API_DIV_MOD_FLOOR: u8 = 5;
pub(crate) const API_DIV_CEIL: u8 = 6;
pub(crate) const API_DIV_EUCLID: u8 = 7;
pub(crate) const API_REM_EUCLID: u8 = 8;
pub(crate) const API_DIV_REM_EUCLID: u8 = 9;
pub(crate) const API_CHECKED_DIV: u8 = 10;
pub(crate) const API_CHECKED_DIV_EUCLID: u8 = 11;
pub(crate) const API_CHECKED_REM_EUCLID: u8 = 12;
pub(crate) const API_CHECKED_DIV_REM_EUCLID: u8 = 13;
pub(crate) const API_DIV_VV: u8 = 14;
pub(crate) const API_REM_VV: u8 = 15;
pub(crate) const API_DIV_ASSIGN: u8 = 16;
pub(crate) const API_REM_ASSIGN: u8 = 17;

fn conv_of(api: u8) -> u8 {
    match api {
        API_DIV_REM | API_DIV | API_REM | API_CHECKED_DIV | API_DIV_VV | API_REM_VV | API_DIV_ASSIGN | API_REM_ASSIGN => TRUNC,
        API_DIV_FLOOR | API_MOD_FLOOR | API_DIV_MOD_FLOOR => FLOOR,
        API_DIV_CEIL => CEIL,
        _ => EUCLID,
    }
}

fn run_api(api: u8, a: BigInt, b: BigInt) -> (Option<BigInt>, Option<BigInt>) {
    match api {
        API_DIV_REM => {
            let (q, r) = a.div_rem(&b);
            (Some(q), Some(r))
        }
        API_DIV => (Some(&a / &b), None),
        API_REM => (None, Some(&a % &b)),
        API_DIV_VV => (Some(a / b), None),
        API_REM_VV => (None, Some(a % b)),
        API_DIV_ASSIGN => {
            let mut x = a;
            x /= &b;
            (Some(x), None)
        }
        API_REM_ASSIGN => {
            let mut x = a;
            x %= &b;
            (None, Some(x))
        }
        API_DIV_FLOOR => (Some(a.div_floor(&b)), None),
        API_MOD_FLOOR => (None, Some(a.mod_floor(&b))),
        API_DIV_MOD_FLOOR => {
            let (q, r) = a.div_mod_floor(&b);
            (Some(q), Some(r))
        }
        API_DIV_CEIL => (Some(Integer::div_ceil(&a, &b)), None),
        API_DIV_EUCLID => (Some(a.div_euclid(&b)), None),
        API_REM_EUCLID => (None, Some(a.rem_euclid(&b))),
        API_DIV_REM_EUCLID => {
            let (q, r) = a.div_rem_euclid(&b);
            (Some(q), Some(r))
        }
        API_CHECKED_DIV => match CheckedDiv::checked_div(&a, &b) {
            Some(q) => (Some(q), None),
            None => {
                kani::assert(false, "VERIF checked_div returned None for a non-zero divisor");
                (None, None)
            }
        },
        API_CHECKED_DIV_EUCLID => match a.checked_div_euclid(&b) {
            Some(q) => (Some(q), None),
            None => {
                kani::assert(false, "VERIF checked_div_euclid returned None for a non-zero divisor");
                (None, None)
            }
        },
        API_CHECKED_REM_EUCLID => match a.checked_rem_euclid(&b) {
            Some(r) => (None, Some(r)),
            None => {
                kani::assert(false, "VERIF checked_rem_euclid returned None for a non-zero divisor");
                (None, None)
            }
        },
        _ => match a.checked_div_rem_euclid(&b) {
            Some((q, r)) => (Some(q), Some(r)),
            None => {
                kani::assert(false, "VERIF checked_div_rem_euclid returned None for a non-zero divisor");
                (None, None)
            }
        },
    }
}

// one query: API x (sign a, len a) x (sign b, len b) x (len q, len r); every digit symbolic.
// `big_d`: the divisor is assumed >= 2^32 so that `%` takes the div_rem route (the u32/i32 fast path of `%`
// goes through rem_digit and is covered by the *_small harnesses below).
macro_rules! conv_shape {
    ($name:ident, $api:expr, $na:expr, $la:expr, $nb:expr, $lb:expr, $stub:ident) => {
        #[kani::proof]
        #[kani::unwind(34)]
        #[kani::stub(crate::biguint::division::div_rem_ref, $stub)]
        #[kani::stub(crate::biguint::verif_common::symbolic, crate::biguint::verif_common::yes)]
        #[kani::stub(core::arch::x86_64::_addcarry_u64, vc::stub_addcarry)]
        #[kani::stub(core::arch::x86_64::_subborrow_u64, vc::stub_subborrow)]
        #[kani::stub(crate::biguint::addition::schoolbook_add_assign_x86_64, vc::model_add)]
        #[kani::stub(crate::biguint::subtraction::schoolbook_sub_assign_x86_64, vc::model_sub)]
        fn $name() {
            let a0: [u64; $la] = vc::any_canon::<$la>();
            let b0: [u64; $lb] = vc::any_canon::<$lb>();
            if $lb == 1 {
                kani::assume(b0[0] > 0xffff_ffff);
            }
            unsafe {
                GH_CALLS = 0;
            }
            let a = mkint($na, &a0);
            let b = mkint($nb, &b0);
            let a_tc = tc::<W>(&a);
            let (q, r) = run_api($api, a, b);
            if !vc::symbolic() {
                // native replay of a counterexample: the stubs are not applied, so take (q, r, q*d) from the real unsigned routines
                let (ua, ub) = (vc::mk_from(&a0), vc::mk_from(&b0));
                let (uq, ur) = Integer::div_rem(&ua, &ub);
                let up = &uq * &ub;
                unsafe {
                    GH_Q = widen_slice(vc::digits(&uq));
                    GH_R = widen_slice(vc::digits(&ur));
                    GH_P = widen_slice(vc::digits(&up));
                    GH_CALLS = 1;
                }
            }
            kani::assert(unsafe { GH_CALLS } == 1, "VERIF expected exactly one unsigned division");
            let mut dw = [0u64; W];
            let mut i = 0;
            while i < $lb {
                dw[i] = b0[i];
                i += 1;
            }
            let (eq, er) = expected(conv_of($api), $na, $nb, &a_tc, &dw);
            if let Some(q) = q {
                check_int::<W>(&q, &eq);
            }
            if let Some(r) = r {
                check_int::<W>(&r, &er);
            }
            if !vc::symbolic() {
                // native witness search: the counterexample was found with the quotient/remainder ABSTRACT, so its operands need not
                // show the defect with real arithmetic (e.g. they may divide exactly). Same API, same signs and lengths, over the corner
                // digit table, against the real unsigned division. This only confirms; it never decides.
                let mut ka = 0;
                while ka < vc::pow12($la) {
                    let ca: [u64; $la] = vc::corner_operand::<$la>(ka);
                    let mut kb = 0;
                    while kb < vc::pow12($lb) {
                        let cb: [u64; $lb] = vc::corner_operand::<$lb>(kb);
                        let ok_shape = ca.last().map_or(true, |&d| d != 0) && cb.last().map_or(false, |&d| d != 0) && !($lb == 1 && cb[0] <= 0xffff_ffff);
                        if ok_shape {
                            let (ua, ub) = (vc::mk_from(&ca), vc::mk_from(&cb));
                            let (uq, ur) = Integer::div_rem(&ua, &ub);
                            let up = &uq * &ub;
                            unsafe {
                                GH_Q = widen_slice(vc::digits(&uq));
                                GH_R = widen_slice(vc::digits(&ur));
                                GH_P = widen_slice(vc::digits(&up));
                            }
                            let x = mkint($na, &ca);
                            let x_tc = tc::<W>(&x);
                            let (q2, r2) = run_api($api, x, mkint($nb, &cb));
                            let (eq2, er2) = expected(conv_of($api), $na, $nb, &x_tc, &widen_slice(&cb));
                            if let Some(q2) = q2 {
                                check_int::<W>(&q2, &eq2);
                            }
                            if let Some(r2) = r2 {
                                check_int::<W>(&r2, &er2);
                            }
                        }
                        kb += 1;
                    }
                    ka += 1;
                }
            }
            kani::cover!(true, "reach:end_of_harness");
        }
    };
}

// zero divisor: every division API must panic (BigInt and via BigUint), checked_* must return None.
macro_rules! zero_div_mp {
    ($name:ident, $api:expr, $na:expr, $la:expr) => {
        #[kani::proof]
        #[kani::unwind(34)]
        fn $name() {
            let a0: [u64; $la] = vc::any_canon::<$la>();
            let a = mkint($na, &a0);
            let b = BigInt::ZERO;
            let _ = run_api($api, a, b);
            kani::assert(false, "VERIF_SURVIVED division by zero returned");
        }
    };
}
macro_rules! zero_div_checked {
    ($name:ident, $na:expr, $la:expr) => {
        #[kani::proof]
        #[kani::unwind(34)]
        fn $name() {
            let a0: [u64; $la] = vc::any_canon::<$la>();
            let a = mkint($na, &a0);
            let b = BigInt::ZERO;
            kani::assert(CheckedDiv::checked_div(&a, &b).is_none(), "VERIF checked_div(_, 0) is not None");
            kani::assert(a.checked_div(&b).is_none(), "VERIF BigInt::checked_div(_, 0) is not None");
            kani::assert(a.checked_div_euclid(&b).is_none(), "VERIF checked_div_euclid(_, 0) is not None");
            kani::assert(a.checked_rem_euclid(&b).is_none(), "VERIF checked_rem_euclid(_, 0) is not None");
            kani::assert(a.checked_div_rem_euclid(&b).is_none(), "VERIF checked_div_rem_euclid(_, 0) is not None");
        }
    };
}

// BEGIN GENERATED c03_bigint
conv_shape!(c03_q_conv_div_rem_p1_p1_q1_r1, API_DIV_REM, false, 1, false, 1, divrem_contract_1_1);
conv_shape!(c03_q_conv_div_rem_p1_p1_q1_r0, API_DIV_REM, false, 1, false, 1, divrem_contract_1_0);
conv_shape!(c03_q_conv_div_rem_p1_p1_q0_r1, API_DIV_REM, false, 1, false, 1, divrem_contract_0_1);
conv_shape!(c03_q_conv_div_rem_p2_p1_q2_r1, API_DIV_REM, false, 2, false, 1, divrem_contract_2_1);
conv_shape!(c03_t_conv_div_rem_p2_p1_q1_r1, API_DIV_REM, false, 2, false, 1, divrem_contract_1_1);
conv_shape!(c03_t_conv_div_rem_p2_p1_q1_r0, API_DIV_REM, false, 2, false, 1, divrem_contract_1_0);
conv_shape!(c03_t_conv_div_rem_p2_p1_q2_r0, API_DIV_REM, false, 2, false, 1, divrem_contract_2_0);
conv_shape!(c03_t_conv_div_rem_p2_p2_q1_r2, API_DIV_REM, false, 2, false, 2, divrem_contract_1_2);
conv_shape!(c03_t_conv_div_rem_p2_p2_q1_r1, API_DIV_REM, false, 2, false, 2, divrem_contract_1_1);
conv_shape!(c03_t_conv_div_rem_p2_p2_q0_r2, API_DIV_REM, false, 2, false, 2, divrem_contract_0_2);
conv_shape!(c03_t_conv_div_rem_p2_p2_q1_r0, API_DIV_REM, false, 2, false, 2, divrem_contract_1_0);
conv_shape!(c03_t_conv_div_rem_p1_p2_q0_r1, API_DIV_REM, false, 1, false, 2, divrem_contract_0_1);
conv_shape!(c03_q_conv_div_rem_p1_m1_q1_r1, API_DIV_REM, false, 1, true, 1, divrem_contract_1_1);
conv_shape!(c03_q_conv_div_rem_p1_m1_q1_r0, API_DIV_REM, false, 1, true, 1, divrem_contract_1_0);
conv_shape!(c03_q_conv_div_rem_p1_m1_q0_r1, API_DIV_REM, false, 1, true, 1, divrem_contract_0_1);
conv_shape!(c03_q_conv_div_rem_p2_m1_q2_r1, API_DIV_REM, false, 2, true, 1, divrem_contract_2_1);
conv_shape!(c03_t_conv_div_rem_p2_m1_q1_r1, API_DIV_REM, false, 2, true, 1, divrem_contract_1_1);
conv_shape!(c03_t_conv_div_rem_p2_m1_q1_r0, API_DIV_REM, false, 2, true, 1, divrem_contract_1_0);
conv_shape!(c03_t_conv_div_rem_p2_m1_q2_r0, API_DIV_REM, false, 2, true, 1, divrem_contract_2_0);
conv_shape!(c03_t_conv_div_rem_p2_m2_q1_r2, API_DIV_REM, false, 2, true, 2, divrem_contract_1_2);
conv_shape!(c03_t_conv_div_rem_p2_m2_q1_r1, API_DIV_REM, false, 2, true, 2, divrem_contract_1_1);
conv_shape!(c03_t_conv_div_rem_p2_m2_q0_r2, API_DIV_REM, false, 2, true, 2, divrem_contract_0_2);
conv_shape!(c03_t_conv_div_rem_p2_m2_q1_r0, API_DIV_REM, false, 2, true, 2, divrem_contract_1_0);
conv_shape!(c03_t_conv_div_rem_p1_m2_q0_r1, API_DIV_REM, false, 1, true, 2, divrem_contract_0_1);
conv_shape!(c03_q_conv_div_rem_m1_p1_q1_r1, API_DIV_REM, true, 1, false, 1, divrem_contract_1_1);
conv_shape!(c03_q_conv_div_rem_m1_p1_q1_r0, API_DIV_REM, true, 1, false, 1, divrem_contract_1_0);
conv_shape!(c03_q_conv_div_rem_m1_p1_q0_r1, API_DIV_REM, true, 1, false, 1, divrem_contract_0_1);
conv_shape!(c03_q_conv_div_rem_m2_p1_q2_r1, API_DIV_REM, true, 2, false, 1, divrem_contract_2_1);
conv_shape!(c03_t_conv_div_rem_m2_p1_q1_r1, API_DIV_REM, true, 2, false, 1, divrem_contract_1_1);
conv_shape!(c03_t_conv_div_rem_m2_p1_q1_r0, API_DIV_REM, true, 2, false, 1, divrem_contract_1_0);
conv_shape!(c03_t_conv_div_rem_m2_p1_q2_r0, API_DIV_REM, true, 2, false, 1, divrem_contract_2_0);
conv_shape!(c03_t_conv_div_rem_m2_p2_q1_r2, API_DIV_REM, true, 2, false, 2, divrem_contract_1_2);
conv_shape!(c03_t_conv_div_rem_m2_p2_q1_r1, API_DIV_REM, true, 2, false, 2, divrem_contract_1_1);
conv_shape!(c03_t_conv_div_rem_m2_p2_q0_r2, API_DIV_REM, true, 2, false, 2, divrem_contract_0_2);
conv_shape!(c03_t_conv_div_rem_m2_p2_q1_r0, API_DIV_REM, true, 2, false, 2, divrem_contract_1_0);
conv_shape!(c03_t_conv_div_rem_m1_p2_q0_r1, API_DIV_REM, true, 1, false, 2, divrem_contract_0_1);
conv_shape!(c03_q_conv_div_rem_m1_m1_q1_r1, API_DIV_REM, true, 1, true, 1, divrem_contract_1_1);
conv_shape!(c03_q_conv_div_rem_m1_m1_q1_r0, API_DIV_REM, true, 1, true, 1, divrem_contract_1_0);
conv_shape!(c03_q_conv_div_rem_m1_m1_q0_r1, API_DIV_REM, true, 1, true, 1, divrem_contract_0_1);
conv_shape!(c03_q_conv_div_rem_m2_m1_q2_r1, API_DIV_REM, true, 2, true, 1, divrem_contract_2_1);
conv_shape!(c03_t_conv_div_rem_m2_m1_q1_r1, API_DIV_REM, true, 2, true, 1, divrem_contract_1_1);
conv_shape!(c03_t_conv_div_rem_m2_m1_q1_r0, API_DIV_REM, true, 2, true, 1, divrem_contract_1_0);
conv_shape!(c03_t_conv_div_rem_m2_m1_q2_r0, API_DIV_REM, true, 2, true, 1, divrem_contract_2_0);
conv_shape!(c03_t_conv_div_rem_m2_m2_q1_r2, API_DIV_REM, true, 2, true, 2, divrem_contract_1_2);
conv_shape!(c03_t_conv_div_rem_m2_m2_q1_r1, API_DIV_REM, true, 2, true, 2, divrem_contract_1_1);
conv_shape!(c03_t_conv_div_rem_m2_m2_q0_r2, API_DIV_REM, true, 2, true, 2, divrem_contract_0_2);
conv_shape!(c03_t_conv_div_rem_m2_m2_q1_r0, API_DIV_REM, true, 2, true, 2, divrem_contract_1_0);
conv_shape!(c03_t_conv_div_rem_m1_m2_q0_r1, API_DIV_REM, true, 1, true, 2, divrem_contract_0_1);
conv_shape!(c03_q_conv_div_rem_z0_p1_q0_r0, API_DIV_REM, false, 0, false, 1, divrem_contract_0_0);
conv_shape!(c03_q_conv_div_rem_z0_m1_q0_r0, API_DIV_REM, false, 0, true, 1, divrem_contract_0_0);
conv_shape!(c03_q_conv_div_p1_p1_q1_r1, API_DIV, false, 1, false, 1, divrem_contract_1_1);
conv_shape!(c03_t_conv_div_p1_p1_q1_r0, API_DIV, false, 1, false, 1, divrem_contract_1_0);
conv_shape!(c03_t_conv_div_p1_p1_q0_r1, API_DIV, false, 1, false, 1, divrem_contract_0_1);
conv_shape!(c03_t_conv_div_p2_p1_q2_r1, API_DIV, false, 2, false, 1, divrem_contract_2_1);
conv_shape!(c03_t_conv_div_p2_p1_q1_r1, API_DIV, false, 2, false, 1, divrem_contract_1_1);
conv_shape!(c03_t_conv_div_p2_p1_q1_r0, API_DIV, false, 2, false, 1, divrem_contract_1_0);
conv_shape!(c03_t_conv_div_p2_p1_q2_r0, API_DIV, false, 2, false, 1, divrem_contract_2_0);
conv_shape!(c03_q_conv_div_p1_m1_q1_r1, API_DIV, false, 1, true, 1, divrem_contract_1_1);
conv_shape!(c03_t_conv_div_p1_m1_q1_r0, API_DIV, false, 1, true, 1, divrem_contract_1_0);
conv_shape!(c03_t_conv_div_p1_m1_q0_r1, API_DIV, false, 1, true, 1, divrem_contract_0_1);
conv_shape!(c03_t_conv_div_p2_m1_q2_r1, API_DIV, false, 2, true, 1, divrem_contract_2_1);
conv_shape!(c03_t_conv_div_p2_m1_q1_r1, API_DIV, false, 2, true, 1, divrem_contract_1_1);
conv_shape!(c03_t_conv_div_p2_m1_q1_r0, API_DIV, false, 2, true, 1, divrem_contract_1_0);
conv_shape!(c03_t_conv_div_p2_m1_q2_r0, API_DIV, false, 2, true, 1, divrem_contract_2_0);
conv_shape!(c03_q_conv_div_m1_p1_q1_r1, API_DIV, true, 1, false, 1, divrem_contract_1_1);
conv_shape!(c03_t_conv_div_m1_p1_q1_r0, API_DIV, true, 1, false, 1, divrem_contract_1_0);
conv_shape!(c03_t_conv_div_m1_p1_q0_r1, API_DIV, true, 1, false, 1, divrem_contract_0_1);
conv_shape!(c03_t_conv_div_m2_p1_q2_r1, API_DIV, true, 2, false, 1, divrem_contract_2_1);
conv_shape!(c03_t_conv_div_m2_p1_q1_r1, API_DIV, true, 2, false, 1, divrem_contract_1_1);
conv_shape!(c03_t_conv_div_m2_p1_q1_r0, API_DIV, true, 2, false, 1, divrem_contract_1_0);
conv_shape!(c03_t_conv_div_m2_p1_q2_r0, API_DIV, true, 2, false, 1, divrem_contract_2_0);
conv_shape!(c03_q_conv_div_m1_m1_q1_r1, API_DIV, true, 1, true, 1, divrem_contract_1_1);
conv_shape!(c03_t_conv_div_m1_m1_q1_r0, API_DIV, true, 1, true, 1, divrem_contract_1_0);
conv_shape!(c03_t_conv_div_m1_m1_q0_r1, API_DIV, true, 1, true, 1, divrem_contract_0_1);
conv_shape!(c03_t_conv_div_m2_m1_q2_r1, API_DIV, true, 2, true, 1, divrem_contract_2_1);
conv_shape!(c03_t_conv_div_m2_m1_q1_r1, API_DIV, true, 2, true, 1, divrem_contract_1_1);
conv_shape!(c03_t_conv_div_m2_m1_q1_r0, API_DIV, true, 2, true, 1, divrem_contract_1_0);
conv_shape!(c03_t_conv_div_m2_m1_q2_r0, API_DIV, true, 2, true, 1, divrem_contract_2_0);
conv_shape!(c03_t_conv_div_z0_p1_q0_r0, API_DIV, false, 0, false, 1, divrem_contract_0_0);
conv_shape!(c03_t_conv_div_z0_m1_q0_r0, API_DIV, false, 0, true, 1, divrem_contract_0_0);
conv_shape!(c03_q_conv_rem_p1_p1_q1_r1, API_REM, false, 1, false, 1, divrem_contract_1_1);
conv_shape!(c03_q_conv_rem_p1_p1_q1_r0, API_REM, false, 1, false, 1, divrem_contract_1_0);
conv_shape!(c03_q_conv_rem_p1_p1_q0_r1, API_REM, false, 1, false, 1, divrem_contract_0_1);
conv_shape!(c03_q_conv_rem_p2_p1_q2_r1, API_REM, false, 2, false, 1, divrem_contract_2_1);
conv_shape!(c03_t_conv_rem_p2_p1_q1_r1, API_REM, false, 2, false, 1, divrem_contract_1_1);
conv_shape!(c03_t_conv_rem_p2_p1_q1_r0, API_REM, false, 2, false, 1, divrem_contract_1_0);
conv_shape!(c03_t_conv_rem_p2_p1_q2_r0, API_REM, false, 2, false, 1, divrem_contract_2_0);
conv_shape!(c03_t_conv_rem_p2_p2_q1_r2, API_REM, false, 2, false, 2, divrem_contract_1_2);
conv_shape!(c03_t_conv_rem_p2_p2_q1_r1, API_REM, false, 2, false, 2, divrem_contract_1_1);
conv_shape!(c03_t_conv_rem_p2_p2_q0_r2, API_REM, false, 2, false, 2, divrem_contract_0_2);
conv_shape!(c03_t_conv_rem_p2_p2_q1_r0, API_REM, false, 2, false, 2, divrem_contract_1_0);
conv_shape!(c03_t_conv_rem_p1_p2_q0_r1, API_REM, false, 1, false, 2, divrem_contract_0_1);
conv_shape!(c03_q_conv_rem_p1_m1_q1_r1, API_REM, false, 1, true, 1, divrem_contract_1_1);
conv_shape!(c03_q_conv_rem_p1_m1_q1_r0, API_REM, false, 1, true, 1, divrem_contract_1_0);
conv_shape!(c03_q_conv_rem_p1_m1_q0_r1, API_REM, false, 1, true, 1, divrem_contract_0_1);
conv_shape!(c03_q_conv_rem_p2_m1_q2_r1, API_REM, false, 2, true, 1, divrem_contract_2_1);
conv_shape!(c03_t_conv_rem_p2_m1_q1_r1, API_REM, false, 2, true, 1, divrem_contract_1_1);
conv_shape!(c03_t_conv_rem_p2_m1_q1_r0, API_REM, false, 2, true, 1, divrem_contract_1_0);
conv_shape!(c03_t_conv_rem_p2_m1_q2_r0, API_REM, false, 2, true, 1, divrem_contract_2_0);
conv_shape!(c03_t_conv_rem_p2_m2_q1_r2, API_REM, false, 2, true, 2, divrem_contract_1_2);
conv_shape!(c03_t_conv_rem_p2_m2_q1_r1, API_REM, false, 2, true, 2, divrem_contract_1_1);
conv_shape!(c03_t_conv_rem_p2_m2_q0_r2, API_REM, false, 2, true, 2, divrem_contract_0_2);
conv_shape!(c03_t_conv_rem_p2_m2_q1_r0, API_REM, false, 2, true, 2, divrem_contract_1_0);
conv_shape!(c03_t_conv_rem_p1_m2_q0_r1, API_REM, false, 1, true, 2, divrem_contract_0_1);
conv_shape!(c03_q_conv_rem_m1_p1_q1_r1, API_REM, true, 1, false, 1, divrem_contract_1_1);
conv_shape!(c03_q_conv_rem_m1_p1_q1_r0, API_REM, true, 1, false, 1, divrem_contract_1_0);
conv_shape!(c03_q_conv_rem_m1_p1_q0_r1, API_REM, true, 1, false, 1, divrem_contract_0_1);
conv_shape!(c03_q_conv_rem_m2_p1_q2_r1, API_REM, true, 2, false, 1, divrem_contract_2_1);
conv_shape!(c03_t_conv_rem_m2_p1_q1_r1, API_REM, true, 2, false, 1, divrem_contract_1_1);
conv_shape!(c03_t_conv_rem_m2_p1_q1_r0, API_REM, true, 2, false, 1, divrem_contract_1_0);
conv_shape!(c03_t_conv_rem_m2_p1_q2_r0, API_REM, true, 2, false, 1, divrem_contract_2_0);
conv_shape!(c03_t_conv_rem_m2_p2_q1_r2, API_REM, true, 2, false, 2, divrem_contract_1_2);
conv_shape!(c03_t_conv_rem_m2_p2_q1_r1, API_REM, true, 2, false, 2, divrem_contract_1_1);
conv_shape!(c03_t_conv_rem_m2_p2_q0_r2, API_REM, true, 2, false, 2, divrem_contract_0_2);
conv_shape!(c03_t_conv_rem_m2_p2_q1_r0, API_REM, true, 2, false, 2, divrem_contract_1_0);
conv_shape!(c03_t_conv_rem_m1_p2_q0_r1, API_REM, true, 1, false, 2, divrem_contract_0_1);
conv_shape!(c03_q_conv_rem_m1_m1_q1_r1, API_REM, true, 1, true, 1, divrem_contract_1_1);
conv_shape!(c03_q_conv_rem_m1_m1_q1_r0, API_REM, true, 1, true, 1, divrem_contract_1_0);
conv_shape!(c03_q_conv_rem_m1_m1_q0_r1, API_REM, true, 1, true, 1, divrem_contract_0_1);
conv_shape!(c03_q_conv_rem_m2_m1_q2_r1, API_REM, true, 2, true, 1, divrem_contract_2_1);
conv_shape!(c03_t_conv_rem_m2_m1_q1_r1, API_REM, true, 2, true, 1, divrem_contract_1_1);
conv_shape!(c03_t_conv_rem_m2_m1_q1_r0, API_REM, true, 2, true, 1, divrem_contract_1_0);
conv_shape!(c03_t_conv_rem_m2_m1_q2_r0, API_REM, true, 2, true, 1, divrem_contract_2_0);
conv_shape!(c03_t_conv_rem_m2_m2_q1_r2, API_REM, true, 2, true, 2, divrem_contract_1_2);
conv_shape!(c03_t_conv_rem_m2_m2_q1_r1, API_REM, true, 2, true, 2, divrem_contract_1_1);
conv_shape!(c03_t_conv_rem_m2_m2_q0_r2, API_REM, true, 2, true, 2, divrem_contract_0_2);
conv_shape!(c03_t_conv_rem_m2_m2_q1_r0, API_REM, true, 2, true, 2, divrem_contract_1_0);
conv_shape!(c03_t_conv_rem_m1_m2_q0_r1, API_REM, true, 1, true, 2, divrem_contract_0_1);
conv_shape!(c03_q_conv_rem_z0_p1_q0_r0, API_REM, false, 0, false, 1, divrem_contract_0_0);
conv_shape!(c03_q_conv_rem_z0_m1_q0_r0, API_REM, false, 0, true, 1, divrem_contract_0_0);
conv_shape!(c03_q_conv_div_floor_p1_p1_q1_r1, API_DIV_FLOOR, false, 1, false, 1, divrem_contract_1_1);
conv_shape!(c03_q_conv_div_floor_p1_p1_q1_r0, API_DIV_FLOOR, false, 1, false, 1, divrem_contract_1_0);
conv_shape!(c03_q_conv_div_floor_p1_p1_q0_r1, API_DIV_FLOOR, false, 1, false, 1, divrem_contract_0_1);
conv_shape!(c03_q_conv_div_floor_p2_p1_q2_r1, API_DIV_FLOOR, false, 2, false, 1, divrem_contract_2_1);
conv_shape!(c03_t_conv_div_floor_p2_p1_q1_r1, API_DIV_FLOOR, false, 2, false, 1, divrem_contract_1_1);
conv_shape!(c03_t_conv_div_floor_p2_p1_q1_r0, API_DIV_FLOOR, false, 2, false, 1, divrem_contract_1_0);
conv_shape!(c03_t_conv_div_floor_p2_p1_q2_r0, API_DIV_FLOOR, false, 2, false, 1, divrem_contract_2_0);
conv_shape!(c03_t_conv_div_floor_p2_p2_q1_r2, API_DIV_FLOOR, false, 2, false, 2, divrem_contract_1_2);
conv_shape!(c03_t_conv_div_floor_p2_p2_q1_r1, API_DIV_FLOOR, false, 2, false, 2, divrem_contract_1_1);
conv_shape!(c03_t_conv_div_floor_p2_p2_q0_r2, API_DIV_FLOOR, false, 2, false, 2, divrem_contract_0_2);
conv_shape!(c03_t_conv_div_floor_p2_p2_q1_r0, API_DIV_FLOOR, false, 2, false, 2, divrem_contract_1_0);
conv_shape!(c03_t_conv_div_floor_p1_p2_q0_r1, API_DIV_FLOOR, false, 1, false, 2, divrem_contract_0_1);
conv_shape!(c03_q_conv_div_floor_p1_m1_q1_r1, API_DIV_FLOOR, false, 1, true, 1, divrem_contract_1_1);
conv_shape!(c03_q_conv_div_floor_p1_m1_q1_r0, API_DIV_FLOOR, false, 1, true, 1, divrem_contract_1_0);
conv_shape!(c03_q_conv_div_floor_p1_m1_q0_r1, API_DIV_FLOOR, false, 1, true, 1, divrem_contract_0_1);
conv_shape!(c03_q_conv_div_floor_p2_m1_q2_r1, API_DIV_FLOOR, false, 2, true, 1, divrem_contract_2_1);
conv_shape!(c03_t_conv_div_floor_p2_m1_q1_r1, API_DIV_FLOOR, false, 2, true, 1, divrem_contract_1_1);
conv_shape!(c03_t_conv_div_floor_p2_m1_q1_r0, API_DIV_FLOOR, false, 2, true, 1, divrem_contract_1_0);
conv_shape!(c03_t_conv_div_floor_p2_m1_q2_r0, API_DIV_FLOOR, false, 2, true, 1, divrem_contract_2_0);
conv_shape!(c03_t_conv_div_floor_p2_m2_q1_r2, API_DIV_FLOOR, false, 2, true, 2, divrem_contract_1_2);
conv_shape!(c03_t_conv_div_floor_p2_m2_q1_r1, API_DIV_FLOOR, false, 2, true, 2, divrem_contract_1_1);
conv_shape!(c03_t_conv_div_floor_p2_m2_q0_r2, API_DIV_FLOOR, false, 2, true, 2, divrem_contract_0_2);
conv_shape!(c03_t_conv_div_floor_p2_m2_q1_r0, API_DIV_FLOOR, false, 2, true, 2, divrem_contract_1_0);
conv_shape!(c03_t_conv_div_floor_p1_m2_q0_r1, API_DIV_FLOOR, false, 1, true, 2, divrem_contract_0_1);
conv_shape!(c03_q_conv_div_floor_m1_p1_q1_r1, API_DIV_FLOOR, true, 1, false, 1, divrem_contract_1_1);
conv_shape!(c03_q_conv_div_floor_m1_p1_q1_r0, API_DIV_FLOOR, true, 1, false, 1, divrem_contract_1_0);
conv_shape!(c03_q_conv_div_floor_m1_p1_q0_r1, API_DIV_FLOOR, true, 1, false, 1, divrem_contract_0_1);
conv_shape!(c03_q_conv_div_floor_m2_p1_q2_r1, API_DIV_FLOOR, true, 2, false, 1, divrem_contract_2_1);
conv_shape!(c03_t_conv_div_floor_m2_p1_q1_r1, API_DIV_FLOOR, true, 2, false, 1, divrem_contract_1_1);
conv_shape!(c03_t_conv_div_floor_m2_p1_q1_r0, API_DIV_FLOOR, true, 2, false, 1, divrem_contract_1_0);
conv_shape!(c03_t_conv_div_floor_m2_p1_q2_r0, API_DIV_FLOOR, true, 2, false, 1, divrem_contract_2_0);
conv_shape!(c03_t_conv_div_floor_m2_p2_q1_r2, API_DIV_FLOOR, true, 2, false, 2, divrem_contract_1_2);
conv_shape!(c03_t_conv_div_floor_m2_p2_q1_r1, API_DIV_FLOOR, true, 2, false, 2, divrem_contract_1_1);
conv_shape!(c03_t_conv_div_floor_m2_p2_q0_r2, API_DIV_FLOOR, true, 2, false, 2, divrem_contract_0_2);
conv_shape!(c03_t_conv_div_floor_m2_p2_q1_r0, API_DIV_FLOOR, true, 2, false, 2, divrem_contract_1_0);
conv_shape!(c03_t_conv_div_floor_m1_p2_q0_r1, API_DIV_FLOOR, true, 1, false, 2, divrem_contract_0_1);
conv_shape!(c03_q_conv_div_floor_m1_m1_q1_r1, API_DIV_FLOOR, true, 1, true, 1, divrem_contract_1_1);
conv_shape!(c03_q_conv_div_floor_m1_m1_q1_r0, API_DIV_FLOOR, true, 1, true, 1, divrem_contract_1_0);
conv_shape!(c03_q_conv_div_floor_m1_m1_q0_r1, API_DIV_FLOOR, true, 1, true, 1, divrem_contract_0_1);
conv_shape!(c03_q_conv_div_floor_m2_m1_q2_r1, API_DIV_FLOOR, true, 2, true, 1, divrem_contract_2_1);
conv_shape!(c03_t_conv_div_floor_m2_m1_q1_r1, API_DIV_FLOOR, true, 2, true, 1, divrem_contract_1_1);
conv_shape!(c03_t_conv_div_floor_m2_m1_q1_r0, API_DIV_FLOOR, true, 2, true, 1, divrem_contract_1_0);
conv_shape!(c03_t_conv_div_floor_m2_m1_q2_r0, API_DIV_FLOOR, true, 2, true, 1, divrem_contract_2_0);
conv_shape!(c03_t_conv_div_floor_m2_m2_q1_r2, API_DIV_FLOOR, true, 2, true, 2, divrem_contract_1_2);
conv_shape!(c03_t_conv_div_floor_m2_m2_q1_r1, API_DIV_FLOOR, true, 2, true, 2, divrem_contract_1_1);
conv_shape!(c03_t_conv_div_floor_m2_m2_q0_r2, API_DIV_FLOOR, true, 2, true, 2, divrem_contract_0_2);
conv_shape!(c03_t_conv_div_floor_m2_m2_q1_r0, API_DIV_FLOOR, true, 2, true, 2, divrem_contract_1_0);
conv_shape!(c03_t_conv_div_floor_m1_m2_q0_r1, API_DIV_FLOOR, true, 1, true, 2, divrem_contract_0_1);
conv_shape!(c03_q_conv_div_floor_z0_p1_q0_r0, API_DIV_FLOOR, false, 0, false, 1, divrem_contract_0_0);
conv_shape!(c03_q_conv_div_floor_z0_m1_q0_r0, API_DIV_FLOOR, false, 0, true, 1, divrem_contract_0_0);
conv_shape!(c03_q_conv_mod_floor_p1_p1_q1_r1, API_MOD_FLOOR, false, 1, false, 1, divrem_contract_1_1);
conv_shape!(c03_q_conv_mod_floor_p1_p1_q1_r0, API_MOD_FLOOR, false, 1, false, 1, divrem_contract_1_0);
conv_shape!(c03_q_conv_mod_floor_p1_p1_q0_r1, API_MOD_FLOOR, false, 1, false, 1, divrem_contract_0_1);
conv_shape!(c03_q_conv_mod_floor_p2_p1_q2_r1, API_MOD_FLOOR, false, 2, false, 1, divrem_contract_2_1);
conv_shape!(c03_t_conv_mod_floor_p2_p1_q1_r1, API_MOD_FLOOR, false, 2, false, 1, divrem_contract_1_1);
conv_shape!(c03_t_conv_mod_floor_p2_p1_q1_r0, API_MOD_FLOOR, false, 2, false, 1, divrem_contract_1_0);
conv_shape!(c03_t_conv_mod_floor_p2_p1_q2_r0, API_MOD_FLOOR, false, 2, false, 1, divrem_contract_2_0);
conv_shape!(c03_t_conv_mod_floor_p2_p2_q1_r2, API_MOD_FLOOR, false, 2, false, 2, divrem_contract_1_2);
conv_shape!(c03_t_conv_mod_floor_p2_p2_q1_r1, API_MOD_FLOOR, false, 2, false, 2, divrem_contract_1_1);
conv_shape!(c03_t_conv_mod_floor_p2_p2_q0_r2, API_MOD_FLOOR, false, 2, false, 2, divrem_contract_0_2);
conv_shape!(c03_t_conv_mod_floor_p2_p2_q1_r0, API_MOD_FLOOR, false, 2, false, 2, divrem_contract_1_0);
conv_shape!(c03_t_conv_mod_floor_p1_p2_q0_r1, API_MOD_FLOOR, false, 1, false, 2, divrem_contract_0_1);
conv_shape!(c03_q_conv_mod_floor_p1_m1_q1_r1, API_MOD_FLOOR, false, 1, true, 1, divrem_contract_1_1);
conv_shape!(c03_q_conv_mod_floor_p1_m1_q1_r0, API_MOD_FLOOR, false, 1, true, 1, divrem_contract_1_0);
conv_shape!(c03_q_conv_mod_floor_p1_m1_q0_r1, API_MOD_FLOOR, false, 1, true, 1, divrem_contract_0_1);
conv_shape!(c03_q_conv_mod_floor_p2_m1_q2_r1, API_MOD_FLOOR, false, 2, true, 1, divrem_contract_2_1);
conv_shape!(c03_t_conv_mod_floor_p2_m1_q1_r1, API_MOD_FLOOR, false, 2, true, 1, divrem_contract_1_1);
conv_shape!(c03_t_conv_mod_floor_p2_m1_q1_r0, API_MOD_FLOOR, false, 2, true, 1, divrem_contract_1_0);
conv_shape!(c03_t_conv_mod_floor_p2_m1_q2_r0, API_MOD_FLOOR, false, 2, true, 1, divrem_contract_2_0);
conv_shape!(c03_t_conv_mod_floor_p2_m2_q1_r2, API_MOD_FLOOR, false, 2, true, 2, divrem_contract_1_2);
conv_shape!(c03_t_conv_mod_floor_p2_m2_q1_r1, API_MOD_FLOOR, false, 2, true, 2, divrem_contract_1_1);
conv_shape!(c03_t_conv_mod_floor_p2_m2_q0_r2, API_MOD_FLOOR, false, 2, true, 2, divrem_contract_0_2);
conv_shape!(c03_t_conv_mod_floor_p2_m2_q1_r0, API_MOD_FLOOR, false, 2, true, 2, divrem_contract_1_0);
conv_shape!(c03_t_conv_mod_floor_p1_m2_q0_r1, API_MOD_FLOOR, false, 1, true, 2, divrem_contract_0_1);
conv_shape!(c03_q_conv_mod_floor_m1_p1_q1_r1, API_MOD_FLOOR, true, 1, false, 1, divrem_contract_1_1);
conv_shape!(c03_q_conv_mod_floor_m1_p1_q1_r0, API_MOD_FLOOR, true, 1, false, 1, divrem_contract_1_0);
conv_shape!(c03_q_conv_mod_floor_m1_p1_q0_r1, API_MOD_FLOOR, true, 1, false, 1, divrem_contract_0_1);
conv_shape!(c03_q_conv_mod_floor_m2_p1_q2_r1, API_MOD_FLOOR, true, 2, false, 1, divrem_contract_2_1);
conv_shape!(c03_t_conv_mod_floor_m2_p1_q1_r1, API_MOD_FLOOR, true, 2, false, 1, divrem_contract_1_1);
conv_shape!(c03_t_conv_mod_floor_m2_p1_q1_r0, API_MOD_FLOOR, true, 2, false, 1, divrem_contract_1_0);
conv_shape!(c03_t_conv_mod_floor_m2_p1_q2_r0, API_MOD_FLOOR, true, 2, false, 1, divrem_contract_2_0);
conv_shape!(c03_t_conv_mod_floor_m2_p2_q1_r2, API_MOD_FLOOR, true, 2, false, 2, divrem_contract_1_2);
conv_shape!(c03_t_conv_mod_floor_m2_p2_q1_r1, API_MOD_FLOOR, true, 2, false, 2, divrem_contract_1_1);
conv_shape!(c03_t_conv_mod_floor_m2_p2_q0_r2, API_MOD_FLOOR, true, 2, false, 2, divrem_contract_0_2);
conv_shape!(c03_t_conv_mod_floor_m2_p2_q1_r0, API_MOD_FLOOR, true, 2, false, 2, divrem_contract_1_0);
conv_shape!(c03_t_conv_mod_floor_m1_p2_q0_r1, API_MOD_FLOOR, true, 1, false, 2, divrem_contract_0_1);
conv_shape!(c03_q_conv_mod_floor_m1_m1_q1_r1, API_MOD_FLOOR, true, 1, true, 1, divrem_contract_1_1);
conv_shape!(c03_q_conv_mod_floor_m1_m1_q1_r0, API_MOD_FLOOR, true, 1, true, 1, divrem_contract_1_0);
conv_shape!(c03_q_conv_mod_floor_m1_m1_q0_r1, API_MOD_FLOOR, true, 1, true, 1, divrem_contract_0_1);
conv_shape!(c03_q_conv_mod_floor_m2_m1_q2_r1, API_MOD_FLOOR, true, 2, true, 1, divrem_contract_2_1);
conv_shape!(c03_t_conv_mod_floor_m2_m1_q1_r1, API_MOD_FLOOR, true, 2, true, 1, divrem_contract_1_1);
conv_shape!(c03_t_conv_mod_floor_m2_m1_q1_r0, API_MOD_FLOOR, true, 2, true, 1, divrem_contract_1_0);
conv_shape!(c03_t_conv_mod_floor_m2_m1_q2_r0, API_MOD_FLOOR, true, 2, true, 1, divrem_contract_2_0);
conv_shape!(c03_t_conv_mod_floor_m2_m2_q1_r2, API_MOD_FLOOR, true, 2, true, 2, divrem_contract_1_2);
conv_shape!(c03_t_conv_mod_floor_m2_m2_q1_r1, API_MOD_FLOOR, true, 2, true, 2, divrem_contract_1_1);
conv_shape!(c03_t_conv_mod_floor_m2_m2_q0_r2, API_MOD_FLOOR, true, 2, true, 2, divrem_contract_0_2);
conv_shape!(c03_t_conv_mod_floor_m2_m2_q1_r0, API_MOD_FLOOR, true, 2, true, 2, divrem_contract_1_0);
conv_shape!(c03_t_conv_mod_floor_m1_m2_q0_r1, API_MOD_FLOOR, true, 1, true, 2, divrem_contract_0_1);
conv_shape!(c03_q_conv_mod_floor_z0_p1_q0_r0, API_MOD_FLOOR, false, 0, false, 1, divrem_contract_0_0);
conv_shape!(c03_q_conv_mod_floor_z0_m1_q0_r0, API_MOD_FLOOR, false, 0, true, 1, divrem_contract_0_0);
conv_shape!(c03_q_conv_div_mod_floor_p1_p1_q1_r1, API_DIV_MOD_FLOOR, false, 1, false, 1, divrem_contract_1_1);
conv_shape!(c03_q_conv_div_mod_floor_p1_p1_q1_r0, API_DIV_MOD_FLOOR, false, 1, false, 1, divrem_contract_1_0);
conv_shape!(c03_q_conv_div_mod_floor_p1_p1_q0_r1, API_DIV_MOD_FLOOR, false, 1, false, 1, divrem_contract_0_1);
conv_shape!(c03_q_conv_div_mod_floor_p2_p1_q2_r1, API_DIV_MOD_FLOOR, false, 2, false, 1, divrem_contract_2_1);
conv_shape!(c03_t_conv_div_mod_floor_p2_p1_q1_r1, API_DIV_MOD_FLOOR, false, 2, false, 1, divrem_contract_1_1);
conv_shape!(c03_t_conv_div_mod_floor_p2_p1_q1_r0, API_DIV_MOD_FLOOR, false, 2, false, 1, divrem_contract_1_0);
conv_shape!(c03_t_conv_div_mod_floor_p2_p1_q2_r0, API_DIV_MOD_FLOOR, false, 2, false, 1, divrem_contract_2_0);
conv_shape!(c03_t_conv_div_mod_floor_p2_p2_q1_r2, API_DIV_MOD_FLOOR, false, 2, false, 2, divrem_contract_1_2);
conv_shape!(c03_t_conv_div_mod_floor_p2_p2_q1_r1, API_DIV_MOD_FLOOR, false, 2, false, 2, divrem_contract_1_1);
conv_shape!(c03_t_conv_div_mod_floor_p2_p2_q0_r2, API_DIV_MOD_FLOOR, false, 2, false, 2, divrem_contract_0_2);
conv_shape!(c03_t_conv_div_mod_floor_p2_p2_q1_r0, API_DIV_MOD_FLOOR, false, 2, false, 2, divrem_contract_1_0);
conv_shape!(c03_t_conv_div_mod_floor_p1_p2_q0_r1, API_DIV_MOD_FLOOR, false, 1, false, 2, divrem_contract_0_1);
conv_shape!(c03_q_conv_div_mod_floor_p1_m1_q1_r1, API_DIV_MOD_FLOOR, false, 1, true, 1, divrem_contract_1_1);
conv_shape!(c03_q_conv_div_mod_floor_p1_m1_q1_r0, API_DIV_MOD_FLOOR, false, 1, true, 1, divrem_contract_1_0);
conv_shape!(c03_q_conv_div_mod_floor_p1_m1_q0_r1, API_DIV_MOD_FLOOR, false, 1, true, 1, divrem_contract_0_1);
conv_shape!(c03_q_conv_div_mod_floor_p2_m1_q2_r1, API_DIV_MOD_FLOOR, false, 2, true, 1, divrem_contract_2_1);
conv_shape!(c03_t_conv_div_mod_floor_p2_m1_q1_r1, API_DIV_MOD_FLOOR, false, 2, true, 1, divrem_contract_1_1);
conv_shape!(c03_t_conv_div_mod_floor_p2_m1_q1_r0, API_DIV_MOD_FLOOR, false, 2, true, 1, divrem_contract_1_0);
conv_shape!(c03_t_conv_div_mod_floor_p2_m1_q2_r0, API_DIV_MOD_FLOOR, false, 2, true, 1, divrem_contract_2_0);
conv_shape!(c03_t_conv_div_mod_floor_p2_m2_q1_r2, API_DIV_MOD_FLOOR, false, 2, true, 2, divrem_contract_1_2);
conv_shape!(c03_t_conv_div_mod_floor_p2_m2_q1_r1, API_DIV_MOD_FLOOR, false, 2, true, 2, divrem_contract_1_1);
conv_shape!(c03_t_conv_div_mod_floor_p2_m2_q0_r2, API_DIV_MOD_FLOOR, false, 2, true, 2, divrem_contract_0_2);
conv_shape!(c03_t_conv_div_mod_floor_p2_m2_q1_r0, API_DIV_MOD_FLOOR, false, 2, true, 2, divrem_contract_1_0);
conv_shape!(c03_t_conv_div_mod_floor_p1_m2_q0_r1, API_DIV_MOD_FLOOR, false, 1, true, 2, divrem_contract_0_1);
conv_shape!(c03_q_conv_div_mod_floor_m1_p1_q1_r1, API_DIV_MOD_FLOOR, true, 1, false, 1, divrem_contract_1_1);
conv_shape!(c03_q_conv_div_mod_floor_m1_p1_q1_r0, API_DIV_MOD_FLOOR, true, 1, false, 1, divrem_contract_1_0);
conv_shape!(c03_q_conv_div_mod_floor_m1_p1_q0_r1, API_DIV_MOD_FLOOR, true, 1, false, 1, divrem_contract_0_1);
conv_shape!(c03_q_conv_div_mod_floor_m2_p1_q2_r1, API_DIV_MOD_FLOOR, true, 2, false, 1, divrem_contract_2_1);
conv_shape!(c03_t_conv_div_mod_floor_m2_p1_q1_r1, API_DIV_MOD_FLOOR, true, 2, false, 1, divrem_contract_1_1);
conv_shape!(c03_t_conv_div_mod_floor_m2_p1_q1_r0, API_DIV_MOD_FLOOR, true, 2, false, 1, divrem_contract_1_0);
conv_shape!(c03_t_conv_div_mod_floor_m2_p1_q2_r0, API_DIV_MOD_FLOOR, true, 2, false, 1, divrem_contract_2_0);
conv_shape!(c03_t_conv_div_mod_floor_m2_p2_q1_r2, API_DIV_MOD_FLOOR, true, 2, false, 2, divrem_contract_1_2);
conv_shape!(c03_t_conv_div_mod_floor_m2_p2_q1_r1, API_DIV_MOD_FLOOR, true, 2, false, 2, divrem_contract_1_1);
conv_shape!(c03_t_conv_div_mod_floor_m2_p2_q0_r2, API_DIV_MOD_FLOOR, true, 2, false, 2, divrem_contract_0_2);
conv_shape!(c03_t_conv_div_mod_floor_m2_p2_q1_r0, API_DIV_MOD_FLOOR, true, 2, false, 2, divrem_contract_1_0);
conv_shape!(c03_t_conv_div_mod_floor_m1_p2_q0_r1, API_DIV_MOD_FLOOR, true, 1, false, 2, divrem_contract_0_1);
conv_shape!(c03_q_conv_div_mod_floor_m1_m1_q1_r1, API_DIV_MOD_FLOOR, true, 1, true, 1, divrem_contract_1_1);
conv_shape!(c03_q_conv_div_mod_floor_m1_m1_q1_r0, API_DIV_MOD_FLOOR, true, 1, true, 1, divrem_contract_1_0);
conv_shape!(c03_q_conv_div_mod_floor_m1_m1_q0_r1, API_DIV_MOD_FLOOR, true, 1, true, 1, divrem_contract_0_1);
conv_shape!(c03_q_conv_div_mod_floor_m2_m1_q2_r1, API_DIV_MOD_FLOOR, true, 2, true, 1, divrem_contract_2_1);
conv_shape!(c03_t_conv_div_mod_floor_m2_m1_q1_r1, API_DIV_MOD_FLOOR, true, 2, true, 1, divrem_contract_1_1);
conv_shape!(c03_t_conv_div_mod_floor_m2_m1_q1_r0, API_DIV_MOD_FLOOR, true, 2, true, 1, divrem_contract_1_0);
conv_shape!(c03_t_conv_div_mod_floor_m2_m1_q2_r0, API_DIV_MOD_FLOOR, true, 2, true, 1, divrem_contract_2_0);
conv_shape!(c03_t_conv_div_mod_floor_m2_m2_q1_r2, API_DIV_MOD_FLOOR, true, 2, true, 2, divrem_contract_1_2);
conv_shape!(c03_t_conv_div_mod_floor_m2_m2_q1_r1, API_DIV_MOD_FLOOR, true, 2, true, 2, divrem_contract_1_1);
conv_shape!(c03_t_conv_div_mod_floor_m2_m2_q0_r2, API_DIV_MOD_FLOOR, true, 2, true, 2, divrem_contract_0_2);
conv_shape!(c03_t_conv_div_mod_floor_m2_m2_q1_r0, API_DIV_MOD_FLOOR, true, 2, true, 2, divrem_contract_1_0);
conv_shape!(c03_t_conv_div_mod_floor_m1_m2_q0_r1, API_DIV_MOD_FLOOR, true, 1, true, 2, divrem_contract_0_1);
conv_shape!(c03_q_conv_div_mod_floor_z0_p1_q0_r0, API_DIV_MOD_FLOOR, false, 0, false, 1, divrem_contract_0_0);
conv_shape!(c03_q_conv_div_mod_floor_z0_m1_q0_r0, API_DIV_MOD_FLOOR, false, 0, true, 1, divrem_contract_0_0);
conv_shape!(c03_q_conv_div_ceil_p1_p1_q1_r1, API_DIV_CEIL, false, 1, false, 1, divrem_contract_1_1);
conv_shape!(c03_q_conv_div_ceil_p1_p1_q1_r0, API_DIV_CEIL, false, 1, false, 1, divrem_contract_1_0);
conv_shape!(c03_q_conv_div_ceil_p1_p1_q0_r1, API_DIV_CEIL, false, 1, false, 1, divrem_contract_0_1);
conv_shape!(c03_q_conv_div_ceil_p2_p1_q2_r1, API_DIV_CEIL, false, 2, false, 1, divrem_contract_2_1);
conv_shape!(c03_t_conv_div_ceil_p2_p1_q1_r1, API_DIV_CEIL, false, 2, false, 1, divrem_contract_1_1);
conv_shape!(c03_t_conv_div_ceil_p2_p1_q1_r0, API_DIV_CEIL, false, 2, false, 1, divrem_contract_1_0);
conv_shape!(c03_t_conv_div_ceil_p2_p1_q2_r0, API_DIV_CEIL, false, 2, false, 1, divrem_contract_2_0);
conv_shape!(c03_t_conv_div_ceil_p2_p2_q1_r2, API_DIV_CEIL, false, 2, false, 2, divrem_contract_1_2);
conv_shape!(c03_t_conv_div_ceil_p2_p2_q1_r1, API_DIV_CEIL, false, 2, false, 2, divrem_contract_1_1);
conv_shape!(c03_t_conv_div_ceil_p2_p2_q0_r2, API_DIV_CEIL, false, 2, false, 2, divrem_contract_0_2);
conv_shape!(c03_t_conv_div_ceil_p2_p2_q1_r0, API_DIV_CEIL, false, 2, false, 2, divrem_contract_1_0);
conv_shape!(c03_t_conv_div_ceil_p1_p2_q0_r1, API_DIV_CEIL, false, 1, false, 2, divrem_contract_0_1);
conv_shape!(c03_q_conv_div_ceil_p1_m1_q1_r1, API_DIV_CEIL, false, 1, true, 1, divrem_contract_1_1);
conv_shape!(c03_q_conv_div_ceil_p1_m1_q1_r0, API_DIV_CEIL, false, 1, true, 1, divrem_contract_1_0);
conv_shape!(c03_q_conv_div_ceil_p1_m1_q0_r1, API_DIV_CEIL, false, 1, true, 1, divrem_contract_0_1);
conv_shape!(c03_q_conv_div_ceil_p2_m1_q2_r1, API_DIV_CEIL, false, 2, true, 1, divrem_contract_2_1);
conv_shape!(c03_t_conv_div_ceil_p2_m1_q1_r1, API_DIV_CEIL, false, 2, true, 1, divrem_contract_1_1);
conv_shape!(c03_t_conv_div_ceil_p2_m1_q1_r0, API_DIV_CEIL, false, 2, true, 1, divrem_contract_1_0);
conv_shape!(c03_t_conv_div_ceil_p2_m1_q2_r0, API_DIV_CEIL, false, 2, true, 1, divrem_contract_2_0);
conv_shape!(c03_t_conv_div_ceil_p2_m2_q1_r2, API_DIV_CEIL, false, 2, true, 2, divrem_contract_1_2);
conv_shape!(c03_t_conv_div_ceil_p2_m2_q1_r1, API_DIV_CEIL, false, 2, true, 2, divrem_contract_1_1);
conv_shape!(c03_t_conv_div_ceil_p2_m2_q0_r2, API_DIV_CEIL, false, 2, true, 2, divrem_contract_0_2);
conv_shape!(c03_t_conv_div_ceil_p2_m2_q1_r0, API_DIV_CEIL, false, 2, true, 2, divrem_contract_1_0);
conv_shape!(c03_t_conv_div_ceil_p1_m2_q0_r1, API_DIV_CEIL, false, 1, true, 2, divrem_contract_0_1);
conv_shape!(c03_q_conv_div_ceil_m1_p1_q1_r1, API_DIV_CEIL, true, 1, false, 1, divrem_contract_1_1);
conv_shape!(c03_q_conv_div_ceil_m1_p1_q1_r0, API_DIV_CEIL, true, 1, false, 1, divrem_contract_1_0);
conv_shape!(c03_q_conv_div_ceil_m1_p1_q0_r1, API_DIV_CEIL, true, 1, false, 1, divrem_contract_0_1);
conv_shape!(c03_q_conv_div_ceil_m2_p1_q2_r1, API_DIV_CEIL, true, 2, false, 1, divrem_contract_2_1);
conv_shape!(c03_t_conv_div_ceil_m2_p1_q1_r1, API_DIV_CEIL, true, 2, false, 1, divrem_contract_1_1);
conv_shape!(c03_t_conv_div_ceil_m2_p1_q1_r0, API_DIV_CEIL, true, 2, false, 1, divrem_contract_1_0);
conv_shape!(c03_t_conv_div_ceil_m2_p1_q2_r0, API_DIV_CEIL, true, 2, false, 1, divrem_contract_2_0);
conv_shape!(c03_t_conv_div_ceil_m2_p2_q1_r2, API_DIV_CEIL, true, 2, false, 2, divrem_contract_1_2);
conv_shape!(c03_t_conv_div_ceil_m2_p2_q1_r1, API_DIV_CEIL, true, 2, false, 2, divrem_contract_1_1);
conv_shape!(c03_t_conv_div_ceil_m2_p2_q0_r2, API_DIV_CEIL, true, 2, false, 2, divrem_contract_0_2);
conv_shape!(c03_t_conv_div_ceil_m2_p2_q1_r0, API_DIV_CEIL, true, 2, false, 2, divrem_contract_1_0);
conv_shape!(c03_t_conv_div_ceil_m1_p2_q0_r1, API_DIV_CEIL, true, 1, false, 2, divrem_contract_0_1);
conv_shape!(c03_q_conv_div_ceil_m1_m1_q1_r1, API_DIV_CEIL, true, 1, true, 1, divrem_contract_1_1);
conv_shape!(c03_q_conv_div_ceil_m1_m1_q1_r0, API_DIV_CEIL, true, 1, true, 1, divrem_contract_1_0);
conv_shape!(c03_q_conv_div_ceil_m1_m1_q0_r1, API_DIV_CEIL, true, 1, true, 1, divrem_contract_0_1);
conv_shape!(c03_q_conv_div_ceil_m2_m1_q2_r1, API_DIV_CEIL, true, 2, true, 1, divrem_contract_2_1);
conv_shape!(c03_t_conv_div_ceil_m2_m1_q1_r1, API_DIV_CEIL, true, 2, true, 1, divrem_contract_1_1);
conv_shape!(c03_t_conv_div_ceil_m2_m1_q1_r0, API_DIV_CEIL, true, 2, true, 1, divrem_contract_1_0);
conv_shape!(c03_t_conv_div_ceil_m2_m1_q2_r0, API_DIV_CEIL, true, 2, true, 1, divrem_contract_2_0);
conv_shape!(c03_t_conv_div_ceil_m2_m2_q1_r2, API_DIV_CEIL, true, 2, true, 2, divrem_contract_1_2);
conv_shape!(c03_t_conv_div_ceil_m2_m2_q1_r1, API_DIV_CEIL, true, 2, true, 2, divrem_contract_1_1);
conv_shape!(c03_t_conv_div_ceil_m2_m2_q0_r2, API_DIV_CEIL, true, 2, true, 2, divrem_contract_0_2);
conv_shape!(c03_t_conv_div_ceil_m2_m2_q1_r0, API_DIV_CEIL, true, 2, true, 2, divrem_contract_1_0);
conv_shape!(c03_t_conv_div_ceil_m1_m2_q0_r1, API_DIV_CEIL, true, 1, true, 2, divrem_contract_0_1);
conv_shape!(c03_q_conv_div_ceil_z0_p1_q0_r0, API_DIV_CEIL, false, 0, false, 1, divrem_contract_0_0);
conv_shape!(c03_q_conv_div_ceil_z0_m1_q0_r0, API_DIV_CEIL, false, 0, true, 1, divrem_contract_0_0);
conv_shape!(c03_q_conv_div_euclid_p1_p1_q1_r1, API_DIV_EUCLID, false, 1, false, 1, divrem_contract_1_1);
conv_shape!(c03_q_conv_div_euclid_p1_p1_q1_r0, API_DIV_EUCLID, false, 1, false, 1, divrem_contract_1_0);
conv_shape!(c03_q_conv_div_euclid_p1_p1_q0_r1, API_DIV_EUCLID, false, 1, false, 1, divrem_contract_0_1);
conv_shape!(c03_q_conv_div_euclid_p2_p1_q2_r1, API_DIV_EUCLID, false, 2, false, 1, divrem_contract_2_1);
conv_shape!(c03_t_conv_div_euclid_p2_p1_q1_r1, API_DIV_EUCLID, false, 2, false, 1, divrem_contract_1_1);
conv_shape!(c03_t_conv_div_euclid_p2_p1_q1_r0, API_DIV_EUCLID, false, 2, false, 1, divrem_contract_1_0);
conv_shape!(c03_t_conv_div_euclid_p2_p1_q2_r0, API_DIV_EUCLID, false, 2, false, 1, divrem_contract_2_0);
conv_shape!(c03_t_conv_div_euclid_p2_p2_q1_r2, API_DIV_EUCLID, false, 2, false, 2, divrem_contract_1_2);
conv_shape!(c03_t_conv_div_euclid_p2_p2_q1_r1, API_DIV_EUCLID, false, 2, false, 2, divrem_contract_1_1);
conv_shape!(c03_t_conv_div_euclid_p2_p2_q0_r2, API_DIV_EUCLID, false, 2, false, 2, divrem_contract_0_2);
conv_shape!(c03_t_conv_div_euclid_p2_p2_q1_r0, API_DIV_EUCLID, false, 2, false, 2, divrem_contract_1_0);
conv_shape!(c03_t_conv_div_euclid_p1_p2_q0_r1, API_DIV_EUCLID, false, 1, false, 2, divrem_contract_0_1);
conv_shape!(c03_q_conv_div_euclid_p1_m1_q1_r1, API_DIV_EUCLID, false, 1, true, 1, divrem_contract_1_1);
conv_shape!(c03_q_conv_div_euclid_p1_m1_q1_r0, API_DIV_EUCLID, false, 1, true, 1, divrem_contract_1_0);
conv_shape!(c03_q_conv_div_euclid_p1_m1_q0_r1, API_DIV_EUCLID, false, 1, true, 1, divrem_contract_0_1);
conv_shape!(c03_q_conv_div_euclid_p2_m1_q2_r1, API_DIV_EUCLID, false, 2, true, 1, divrem_contract_2_1);
conv_shape!(c03_t_conv_div_euclid_p2_m1_q1_r1, API_DIV_EUCLID, false, 2, true, 1, divrem_contract_1_1);
conv_shape!(c03_t_conv_div_euclid_p2_m1_q1_r0, API_DIV_EUCLID, false, 2, true, 1, divrem_contract_1_0);
conv_shape!(c03_t_conv_div_euclid_p2_m1_q2_r0, API_DIV_EUCLID, false, 2, true, 1, divrem_contract_2_0);
conv_shape!(c03_t_conv_div_euclid_p2_m2_q1_r2, API_DIV_EUCLID, false, 2, true, 2, divrem_contract_1_2);
conv_shape!(c03_t_conv_div_euclid_p2_m2_q1_r1, API_DIV_EUCLID, false, 2, true, 2, divrem_contract_1_1);
conv_shape!(c03_t_conv_div_euclid_p2_m2_q0_r2, API_DIV_EUCLID, false, 2, true, 2, divrem_contract_0_2);
conv_shape!(c03_t_conv_div_euclid_p2_m2_q1_r0, API_DIV_EUCLID, false, 2, true, 2, divrem_contract_1_0);
conv_shape!(c03_t_conv_div_euclid_p1_m2_q0_r1, API_DIV_EUCLID, false, 1, true, 2, divrem_contract_0_1);
conv_shape!(c03_q_conv_div_euclid_m1_p1_q1_r1, API_DIV_EUCLID, true, 1, false, 1, divrem_contract_1_1);
conv_shape!(c03_q_conv_div_euclid_m1_p1_q1_r0, API_DIV_EUCLID, true, 1, false, 1, divrem_contract_1_0);
conv_shape!(c03_q_conv_div_euclid_m1_p1_q0_r1, API_DIV_EUCLID, true, 1, false, 1, divrem_contract_0_1);
conv_shape!(c03_q_conv_div_euclid_m2_p1_q2_r1, API_DIV_EUCLID, true, 2, false, 1, divrem_contract_2_1);
conv_shape!(c03_t_conv_div_euclid_m2_p1_q1_r1, API_DIV_EUCLID, true, 2, false, 1, divrem_contract_1_1);
conv_shape!(c03_t_conv_div_euclid_m2_p1_q1_r0, API_DIV_EUCLID, true, 2, false, 1, divrem_contract_1_0);
conv_shape!(c03_t_conv_div_euclid_m2_p1_q2_r0, API_DIV_EUCLID, true, 2, false, 1, divrem_contract_2_0);
conv_shape!(c03_t_conv_div_euclid_m2_p2_q1_r2, API_DIV_EUCLID, true, 2, false, 2, divrem_contract_1_2);
conv_shape!(c03_t_conv_div_euclid_m2_p2_q1_r1, API_DIV_EUCLID, true, 2, false, 2, divrem_contract_1_1);
conv_shape!(c03_t_conv_div_euclid_m2_p2_q0_r2, API_DIV_EUCLID, true, 2, false, 2, divrem_contract_0_2);
conv_shape!(c03_t_conv_div_euclid_m2_p2_q1_r0, API_DIV_EUCLID, true, 2, false, 2, divrem_contract_1_0);
conv_shape!(c03_t_conv_div_euclid_m1_p2_q0_r1, API_DIV_EUCLID, true, 1, false, 2, divrem_contract_0_1);
conv_shape!(c03_q_conv_div_euclid_m1_m1_q1_r1, API_DIV_EUCLID, true, 1, true, 1, divrem_contract_1_1);
conv_shape!(c03_q_conv_div_euclid_m1_m1_q1_r0, API_DIV_EUCLID, true, 1, true, 1, divrem_contract_1_0);
conv_shape!(c03_q_conv_div_euclid_m1_m1_q0_r1, API_DIV_EUCLID, true, 1, true, 1, divrem_contract_0_1);
conv_shape!(c03_q_conv_div_euclid_m2_m1_q2_r1, API_DIV_EUCLID, true, 2, true, 1, divrem_contract_2_1);
conv_shape!(c03_t_conv_div_euclid_m2_m1_q1_r1, API_DIV_EUCLID, true, 2, true, 1, divrem_contract_1_1);
conv_shape!(c03_t_conv_div_euclid_m2_m1_q1_r0, API_DIV_EUCLID, true, 2, true, 1, divrem_contract_1_0);
conv_shape!(c03_t_conv_div_euclid_m2_m1_q2_r0, API_DIV_EUCLID, true, 2, true, 1, divrem_contract_2_0);
conv_shape!(c03_t_conv_div_euclid_m2_m2_q1_r2, API_DIV_EUCLID, true, 2, true, 2, divrem_contract_1_2);
conv_shape!(c03_t_conv_div_euclid_m2_m2_q1_r1, API_DIV_EUCLID, true, 2, true, 2, divrem_contract_1_1);
conv_shape!(c03_t_conv_div_euclid_m2_m2_q0_r2, API_DIV_EUCLID, true, 2, true, 2, divrem_contract_0_2);
conv_shape!(c03_t_conv_div_euclid_m2_m2_q1_r0, API_DIV_EUCLID, true, 2, true, 2, divrem_contract_1_0);
conv_shape!(c03_t_conv_div_euclid_m1_m2_q0_r1, API_DIV_EUCLID, true, 1, true, 2, divrem_contract_0_1);
conv_shape!(c03_q_conv_div_euclid_z0_p1_q0_r0, API_DIV_EUCLID, false, 0, false, 1, divrem_contract_0_0);
conv_shape!(c03_q_conv_div_euclid_z0_m1_q0_r0, API_DIV_EUCLID, false, 0, true, 1, divrem_contract_0_0);
conv_shape!(c03_q_conv_rem_euclid_p1_p1_q1_r1, API_REM_EUCLID, false, 1, false, 1, divrem_contract_1_1);
conv_shape!(c03_q_conv_rem_euclid_p1_p1_q1_r0, API_REM_EUCLID, false, 1, false, 1, divrem_contract_1_0);
conv_shape!(c03_q_conv_rem_euclid_p1_p1_q0_r1, API_REM_EUCLID, false, 1, false, 1, divrem_contract_0_1);
conv_shape!(c03_q_conv_rem_euclid_p2_p1_q2_r1, API_REM_EUCLID, false, 2, false, 1, divrem_contract_2_1);
conv_shape!(c03_t_conv_rem_euclid_p2_p1_q1_r1, API_REM_EUCLID, false, 2, false, 1, divrem_contract_1_1);
conv_shape!(c03_t_conv_rem_euclid_p2_p1_q1_r0, API_REM_EUCLID, false, 2, false, 1, divrem_contract_1_0);
conv_shape!(c03_t_conv_rem_euclid_p2_p1_q2_r0, API_REM_EUCLID, false, 2, false, 1, divrem_contract_2_0);
conv_shape!(c03_t_conv_rem_euclid_p2_p2_q1_r2, API_REM_EUCLID, false, 2, false, 2, divrem_contract_1_2);
conv_shape!(c03_t_conv_rem_euclid_p2_p2_q1_r1, API_REM_EUCLID, false, 2, false, 2, divrem_contract_1_1);
conv_shape!(c03_t_conv_rem_euclid_p2_p2_q0_r2, API_REM_EUCLID, false, 2, false, 2, divrem_contract_0_2);
conv_shape!(c03_t_conv_rem_euclid_p2_p2_q1_r0, API_REM_EUCLID, false, 2, false, 2, divrem_contract_1_0);
conv_shape!(c03_t_conv_rem_euclid_p1_p2_q0_r1, API_REM_EUCLID, false, 1, false, 2, divrem_contract_0_1);
conv_shape!(c03_q_conv_rem_euclid_p1_m1_q1_r1, API_REM_EUCLID, false, 1, true, 1, divrem_contract_1_1);
conv_shape!(c03_q_conv_rem_euclid_p1_m1_q1_r0, API_REM_EUCLID, false, 1, true, 1, divrem_contract_1_0);
conv_shape!(c03_q_conv_rem_euclid_p1_m1_q0_r1, API_REM_EUCLID, false, 1, true, 1, divrem_contract_0_1);
conv_shape!(c03_q_conv_rem_euclid_p2_m1_q2_r1, API_REM_EUCLID, false, 2, true, 1, divrem_contract_2_1);
conv_shape!(c03_t_conv_rem_euclid_p2_m1_q1_r1, API_REM_EUCLID, false, 2, true, 1, divrem_contract_1_1);
conv_shape!(c03_t_conv_rem_euclid_p2_m1_q1_r0, API_REM_EUCLID, false, 2, true, 1, divrem_contract_1_0);
conv_shape!(c03_t_conv_rem_euclid_p2_m1_q2_r0, API_REM_EUCLID, false, 2, true, 1, divrem_contract_2_0);
conv_shape!(c03_t_conv_rem_euclid_p2_m2_q1_r2, API_REM_EUCLID, false, 2, true, 2, divrem_contract_1_2);
conv_shape!(c03_t_conv_rem_euclid_p2_m2_q1_r1, API_REM_EUCLID, false, 2, true, 2, divrem_contract_1_1);
conv_shape!(c03_t_conv_rem_euclid_p2_m2_q0_r2, API_REM_EUCLID, false, 2, true, 2, divrem_contract_0_2);
conv_shape!(c03_t_conv_rem_euclid_p2_m2_q1_r0, API_REM_EUCLID, false, 2, true, 2, divrem_contract_1_0);
conv_shape!(c03_t_conv_rem_euclid_p1_m2_q0_r1, API_REM_EUCLID, false, 1, true, 2, divrem_contract_0_1);
conv_shape!(c03_q_conv_rem_euclid_m1_p1_q1_r1, API_REM_EUCLID, true, 1, false, 1, divrem_contract_1_1);
conv_shape!(c03_q_conv_rem_euclid_m1_p1_q1_r0, API_REM_EUCLID, true, 1, false, 1, divrem_contract_1_0);
conv_shape!(c03_q_conv_rem_euclid_m1_p1_q0_r1, API_REM_EUCLID, true, 1, false, 1, divrem_contract_0_1);
conv_shape!(c03_q_conv_rem_euclid_m2_p1_q2_r1, API_REM_EUCLID, true, 2, false, 1, divrem_contract_2_1);
conv_shape!(c03_t_conv_rem_euclid_m2_p1_q1_r1, API_REM_EUCLID, true, 2, false, 1, divrem_contract_1_1);
conv_shape!(c03_t_conv_rem_euclid_m2_p1_q1_r0, API_REM_EUCLID, true, 2, false, 1, divrem_contract_1_0);
conv_shape!(c03_t_conv_rem_euclid_m2_p1_q2_r0, API_REM_EUCLID, true, 2, false, 1, divrem_contract_2_0);
conv_shape!(c03_t_conv_rem_euclid_m2_p2_q1_r2, API_REM_EUCLID, true, 2, false, 2, divrem_contract_1_2);
conv_shape!(c03_t_conv_rem_euclid_m2_p2_q1_r1, API_REM_EUCLID, true, 2, false, 2, divrem_contract_1_1);
conv_shape!(c03_t_conv_rem_euclid_m2_p2_q0_r2, API_REM_EUCLID, true, 2, false, 2, divrem_contract_0_2);
conv_shape!(c03_t_conv_rem_euclid_m2_p2_q1_r0, API_REM_EUCLID, true, 2, false, 2, divrem_contract_1_0);
conv_shape!(c03_t_conv_rem_euclid_m1_p2_q0_r1, API_REM_EUCLID, true, 1, false, 2, divrem_contract_0_1);
conv_shape!(c03_q_conv_rem_euclid_m1_m1_q1_r1, API_REM_EUCLID, true, 1, true, 1, divrem_contract_1_1);
conv_shape!(c03_q_conv_rem_euclid_m1_m1_q1_r0, API_REM_EUCLID, true, 1, true, 1, divrem_contract_1_0);
conv_shape!(c03_q_conv_rem_euclid_m1_m1_q0_r1, API_REM_EUCLID, true, 1, true, 1, divrem_contract_0_1);
conv_shape!(c03_q_conv_rem_euclid_m2_m1_q2_r1, API_REM_EUCLID, true, 2, true, 1, divrem_contract_2_1);
conv_shape!(c03_t_conv_rem_euclid_m2_m1_q1_r1, API_REM_EUCLID, true, 2, true, 1, divrem_contract_1_1);
conv_shape!(c03_t_conv_rem_euclid_m2_m1_q1_r0, API_REM_EUCLID, true, 2, true, 1, divrem_contract_1_0);
conv_shape!(c03_t_conv_rem_euclid_m2_m1_q2_r0, API_REM_EUCLID, true, 2, true, 1, divrem_contract_2_0);
conv_shape!(c03_t_conv_rem_euclid_m2_m2_q1_r2, API_REM_EUCLID, true, 2, true, 2, divrem_contract_1_2);
conv_shape!(c03_t_conv_rem_euclid_m2_m2_q1_r1, API_REM_EUCLID, true, 2, true, 2, divrem_contract_1_1);
conv_shape!(c03_t_conv_rem_euclid_m2_m2_q0_r2, API_REM_EUCLID, true, 2, true, 2, divrem_contract_0_2);
conv_shape!(c03_t_conv_rem_euclid_m2_m2_q1_r0, API_REM_EUCLID, true, 2, true, 2, divrem_contract_1_0);
conv_shape!(c03_t_conv_rem_euclid_m1_m2_q0_r1, API_REM_EUCLID, true, 1, true, 2, divrem_contract_0_1);
conv_shape!(c03_q_conv_rem_euclid_z0_p1_q0_r0, API_REM_EUCLID, false, 0, false, 1, divrem_contract_0_0);
conv_shape!(c03_q_conv_rem_euclid_z0_m1_q0_r0, API_REM_EUCLID, false, 0, true, 1, divrem_contract_0_0);
conv_shape!(c03_q_conv_div_rem_euclid_p1_p1_q1_r1, API_DIV_REM_EUCLID, false, 1, false, 1, divrem_contract_1_1);
conv_shape!(c03_q_conv_div_rem_euclid_p1_p1_q1_r0, API_DIV_REM_EUCLID, false, 1, false, 1, divrem_contract_1_0);
conv_shape!(c03_q_conv_div_rem_euclid_p1_p1_q0_r1, API_DIV_REM_EUCLID, false, 1, false, 1, divrem_contract_0_1);
conv_shape!(c03_q_conv_div_rem_euclid_p2_p1_q2_r1, API_DIV_REM_EUCLID, false, 2, false, 1, divrem_contract_2_1);
conv_shape!(c03_t_conv_div_rem_euclid_p2_p1_q1_r1, API_DIV_REM_EUCLID, false, 2, false, 1, divrem_contract_1_1);
conv_shape!(c03_t_conv_div_rem_euclid_p2_p1_q1_r0, API_DIV_REM_EUCLID, false, 2, false, 1, divrem_contract_1_0);
conv_shape!(c03_t_conv_div_rem_euclid_p2_p1_q2_r0, API_DIV_REM_EUCLID, false, 2, false, 1, divrem_contract_2_0);
conv_shape!(c03_t_conv_div_rem_euclid_p2_p2_q1_r2, API_DIV_REM_EUCLID, false, 2, false, 2, divrem_contract_1_2);
conv_shape!(c03_t_conv_div_rem_euclid_p2_p2_q1_r1, API_DIV_REM_EUCLID, false, 2, false, 2, divrem_contract_1_1);
conv_shape!(c03_t_conv_div_rem_euclid_p2_p2_q0_r2, API_DIV_REM_EUCLID, false, 2, false, 2, divrem_contract_0_2);
conv_shape!(c03_t_conv_div_rem_euclid_p2_p2_q1_r0, API_DIV_REM_EUCLID, false, 2, false, 2, divrem_contract_1_0);
conv_shape!(c03_t_conv_div_rem_euclid_p1_p2_q0_r1, API_DIV_REM_EUCLID, false, 1, false, 2, divrem_contract_0_1);
conv_shape!(c03_q_conv_div_rem_euclid_p1_m1_q1_r1, API_DIV_REM_EUCLID, false, 1, true, 1, divrem_contract_1_1);
conv_shape!(c03_q_conv_div_rem_euclid_p1_m1_q1_r0, API_DIV_REM_EUCLID, false, 1, true, 1, divrem_contract_1_0);
conv_shape!(c03_q_conv_div_rem_euclid_p1_m1_q0_r1, API_DIV_REM_EUCLID, false, 1, true, 1, divrem_contract_0_1);
conv_shape!(c03_q_conv_div_rem_euclid_p2_m1_q2_r1, API_DIV_REM_EUCLID, false, 2, true, 1, divrem_contract_2_1);
conv_shape!(c03_t_conv_div_rem_euclid_p2_m1_q1_r1, API_DIV_REM_EUCLID, false, 2, true, 1, divrem_contract_1_1);
conv_shape!(c03_t_conv_div_rem_euclid_p2_m1_q1_r0, API_DIV_REM_EUCLID, false, 2, true, 1, divrem_contract_1_0);
conv_shape!(c03_t_conv_div_rem_euclid_p2_m1_q2_r0, API_DIV_REM_EUCLID, false, 2, true, 1, divrem_contract_2_0);
conv_shape!(c03_t_conv_div_rem_euclid_p2_m2_q1_r2, API_DIV_REM_EUCLID, false, 2, true, 2, divrem_contract_1_2);
conv_shape!(c03_t_conv_div_rem_euclid_p2_m2_q1_r1, API_DIV_REM_EUCLID, false, 2, true, 2, divrem_contract_1_1);
conv_shape!(c03_t_conv_div_rem_euclid_p2_m2_q0_r2, API_DIV_REM_EUCLID, false, 2, true, 2, divrem_contract_0_2);
conv_shape!(c03_t_conv_div_rem_euclid_p2_m2_q1_r0, API_DIV_REM_EUCLID, false, 2, true, 2, divrem_contract_1_0);
conv_shape!(c03_t_conv_div_rem_euclid_p1_m2_q0_r1, API_DIV_REM_EUCLID, false, 1, true, 2, divrem_contract_0_1);
conv_shape!(c03_q_conv_div_rem_euclid_m1_p1_q1_r1, API_DIV_REM_EUCLID, true, 1, false, 1, divrem_contract_1_1);
conv_shape!(c03_q_conv_div_rem_euclid_m1_p1_q1_r0, API_DIV_REM_EUCLID, true, 1, false, 1, divrem_contract_1_0);
conv_shape!(c03_q_conv_div_rem_euclid_m1_p1_q0_r1, API_DIV_REM_EUCLID, true, 1, false, 1, divrem_contract_0_1);
conv_shape!(c03_q_conv_div_rem_euclid_m2_p1_q2_r1, API_DIV_REM_EUCLID, true, 2, false, 1, divrem_contract_2_1);
conv_shape!(c03_t_conv_div_rem_euclid_m2_p1_q1_r1, API_DIV_REM_EUCLID, true, 2, false, 1, divrem_contract_1_1);
conv_shape!(c03_t_conv_div_rem_euclid_m2_p1_q1_r0, API_DIV_REM_EUCLID, true, 2, false, 1, divrem_contract_1_0);
conv_shape!(c03_t_conv_div_rem_euclid_m2_p1_q2_r0, API_DIV_REM_EUCLID, true, 2, false, 1, divrem_contract_2_0);
conv_shape!(c03_t_conv_div_rem_euclid_m2_p2_q1_r2, API_DIV_REM_EUCLID, true, 2, false, 2, divrem_contract_1_2);
conv_shape!(c03_t_conv_div_rem_euclid_m2_p2_q1_r1, API_DIV_REM_EUCLID, true, 2, false, 2, divrem_contract_1_1);
conv_shape!(c03_t_conv_div_rem_euclid_m2_p2_q0_r2, API_DIV_REM_EUCLID, true, 2, false, 2, divrem_contract_0_2);
conv_shape!(c03_t_conv_div_rem_euclid_m2_p2_q1_r0, API_DIV_REM_EUCLID, true, 2, false, 2, divrem_contract_1_0);
conv_shape!(c03_t_conv_div_rem_euclid_m1_p2_q0_r1, API_DIV_REM_EUCLID, true, 1, false, 2, divrem_contract_0_1);
conv_shape!(c03_q_conv_div_rem_euclid_m1_m1_q1_r1, API_DIV_REM_EUCLID, true, 1, true, 1, divrem_contract_1_1);
conv_shape!(c03_q_conv_div_rem_euclid_m1_m1_q1_r0, API_DIV_REM_EUCLID, true, 1, true, 1, divrem_contract_1_0);
conv_shape!(c03_q_conv_div_rem_euclid_m1_m1_q0_r1, API_DIV_REM_EUCLID, true, 1, true, 1, divrem_contract_0_1);
conv_shape!(c03_q_conv_div_rem_euclid_m2_m1_q2_r1, API_DIV_REM_EUCLID, true, 2, true, 1, divrem_contract_2_1);
conv_shape!(c03_t_conv_div_rem_euclid_m2_m1_q1_r1, API_DIV_REM_EUCLID, true, 2, true, 1, divrem_contract_1_1);
conv_shape!(c03_t_conv_div_rem_euclid_m2_m1_q1_r0, API_DIV_REM_EUCLID, true, 2, true, 1, divrem_contract_1_0);
conv_shape!(c03_t_conv_div_rem_euclid_m2_m1_q2_r0, API_DIV_REM_EUCLID, true, 2, true, 1, divrem_contract_2_0);
conv_shape!(c03_t_conv_div_rem_euclid_m2_m2_q1_r2, API_DIV_REM_EUCLID, true, 2, true, 2, divrem_contract_1_2);
conv_shape!(c03_t_conv_div_rem_euclid_m2_m2_q1_r1, API_DIV_REM_EUCLID, true, 2, true, 2, divrem_contract_1_1);
conv_shape!(c03_t_conv_div_rem_euclid_m2_m2_q0_r2, API_DIV_REM_EUCLID, true, 2, true, 2, divrem_contract_0_2);
conv_shape!(c03_t_conv_div_rem_euclid_m2_m2_q1_r0, API_DIV_REM_EUCLID, true, 2, true, 2, divrem_contract_1_0);
conv_shape!(c03_t_conv_div_rem_euclid_m1_m2_q0_r1, API_DIV_REM_EUCLID, true, 1, true, 2, divrem_contract_0_1);
conv_shape!(c03_q_conv_div_rem_euclid_z0_p1_q0_r0, API_DIV_REM_EUCLID, false, 0, false, 1, divrem_contract_0_0);
conv_shape!(c03_q_conv_div_rem_euclid_z0_m1_q0_r0, API_DIV_REM_EUCLID, false, 0, true, 1, divrem_contract_0_0);
conv_shape!(c03_q_conv_checked_div_p1_p1_q1_r1, API_CHECKED_DIV, false, 1, false, 1, divrem_contract_1_1);
conv_shape!(c03_t_conv_checked_div_p1_p1_q1_r0, API_CHECKED_DIV, false, 1, false, 1, divrem_contract_1_0);
conv_shape!(c03_t_conv_checked_div_p1_p1_q0_r1, API_CHECKED_DIV, false, 1, false, 1, divrem_contract_0_1);
conv_shape!(c03_t_conv_checked_div_p2_p1_q2_r1, API_CHECKED_DIV, false, 2, false, 1, divrem_contract_2_1);
conv_shape!(c03_t_conv_checked_div_p2_p1_q1_r1, API_CHECKED_DIV, false, 2, false, 1, divrem_contract_1_1);
conv_shape!(c03_t_conv_checked_div_p2_p1_q1_r0, API_CHECKED_DIV, false, 2, false, 1, divrem_contract_1_0);
conv_shape!(c03_t_conv_checked_div_p2_p1_q2_r0, API_CHECKED_DIV, false, 2, false, 1, divrem_contract_2_0);
conv_shape!(c03_q_conv_checked_div_p1_m1_q1_r1, API_CHECKED_DIV, false, 1, true, 1, divrem_contract_1_1);
conv_shape!(c03_t_conv_checked_div_p1_m1_q1_r0, API_CHECKED_DIV, false, 1, true, 1, divrem_contract_1_0);
conv_shape!(c03_t_conv_checked_div_p1_m1_q0_r1, API_CHECKED_DIV, false, 1, true, 1, divrem_contract_0_1);
conv_shape!(c03_t_conv_checked_div_p2_m1_q2_r1, API_CHECKED_DIV, false, 2, true, 1, divrem_contract_2_1);
conv_shape!(c03_t_conv_checked_div_p2_m1_q1_r1, API_CHECKED_DIV, false, 2, true, 1, divrem_contract_1_1);
conv_shape!(c03_t_conv_checked_div_p2_m1_q1_r0, API_CHECKED_DIV, false, 2, true, 1, divrem_contract_1_0);
conv_shape!(c03_t_conv_checked_div_p2_m1_q2_r0, API_CHECKED_DIV, false, 2, true, 1, divrem_contract_2_0);
conv_shape!(c03_q_conv_checked_div_m1_p1_q1_r1, API_CHECKED_DIV, true, 1, false, 1, divrem_contract_1_1);
conv_shape!(c03_t_conv_checked_div_m1_p1_q1_r0, API_CHECKED_DIV, true, 1, false, 1, divrem_contract_1_0);
conv_shape!(c03_t_conv_checked_div_m1_p1_q0_r1, API_CHECKED_DIV, true, 1, false, 1, divrem_contract_0_1);
conv_shape!(c03_t_conv_checked_div_m2_p1_q2_r1, API_CHECKED_DIV, true, 2, false, 1, divrem_contract_2_1);
conv_shape!(c03_t_conv_checked_div_m2_p1_q1_r1, API_CHECKED_DIV, true, 2, false, 1, divrem_contract_1_1);
conv_shape!(c03_t_conv_checked_div_m2_p1_q1_r0, API_CHECKED_DIV, true, 2, false, 1, divrem_contract_1_0);
conv_shape!(c03_t_conv_checked_div_m2_p1_q2_r0, API_CHECKED_DIV, true, 2, false, 1, divrem_contract_2_0);
conv_shape!(c03_q_conv_checked_div_m1_m1_q1_r1, API_CHECKED_DIV, true, 1, true, 1, divrem_contract_1_1);
conv_shape!(c03_t_conv_checked_div_m1_m1_q1_r0, API_CHECKED_DIV, true, 1, true, 1, divrem_contract_1_0);
conv_shape!(c03_t_conv_checked_div_m1_m1_q0_r1, API_CHECKED_DIV, true, 1, true, 1, divrem_contract_0_1);
conv_shape!(c03_t_conv_checked_div_m2_m1_q2_r1, API_CHECKED_DIV, true, 2, true, 1, divrem_contract_2_1);
conv_shape!(c03_t_conv_checked_div_m2_m1_q1_r1, API_CHECKED_DIV, true, 2, true, 1, divrem_contract_1_1);
conv_shape!(c03_t_conv_checked_div_m2_m1_q1_r0, API_CHECKED_DIV, true, 2, true, 1, divrem_contract_1_0);
conv_shape!(c03_t_conv_checked_div_m2_m1_q2_r0, API_CHECKED_DIV, true, 2, true, 1, divrem_contract_2_0);
conv_shape!(c03_t_conv_checked_div_z0_p1_q0_r0, API_CHECKED_DIV, false, 0, false, 1, divrem_contract_0_0);
conv_shape!(c03_t_conv_checked_div_z0_m1_q0_r0, API_CHECKED_DIV, false, 0, true, 1, divrem_contract_0_0);
conv_shape!(c03_q_conv_checked_div_euclid_p1_p1_q1_r1, API_CHECKED_DIV_EUCLID, false, 1, false, 1, divrem_contract_1_1);
conv_shape!(c03_t_conv_checked_div_euclid_p1_p1_q1_r0, API_CHECKED_DIV_EUCLID, false, 1, false, 1, divrem_contract_1_0);
conv_shape!(c03_t_conv_checked_div_euclid_p1_p1_q0_r1, API_CHECKED_DIV_EUCLID, false, 1, false, 1, divrem_contract_0_1);
conv_shape!(c03_t_conv_checked_div_euclid_p2_p1_q2_r1, API_CHECKED_DIV_EUCLID, false, 2, false, 1, divrem_contract_2_1);
conv_shape!(c03_t_conv_checked_div_euclid_p2_p1_q1_r1, API_CHECKED_DIV_EUCLID, false, 2, false, 1, divrem_contract_1_1);
conv_shape!(c03_t_conv_checked_div_euclid_p2_p1_q1_r0, API_CHECKED_DIV_EUCLID, false, 2, false, 1, divrem_contract_1_0);
conv_shape!(c03_t_conv_checked_div_euclid_p2_p1_q2_r0, API_CHECKED_DIV_EUCLID, false, 2, false, 1, divrem_contract_2_0);
conv_shape!(c03_q_conv_checked_div_euclid_p1_m1_q1_r1, API_CHECKED_DIV_EUCLID, false, 1, true, 1, divrem_contract_1_1);
conv_shape!(c03_t_conv_checked_div_euclid_p1_m1_q1_r0, API_CHECKED_DIV_EUCLID, false, 1, true, 1, divrem_contract_1_0);
conv_shape!(c03_t_conv_checked_div_euclid_p1_m1_q0_r1, API_CHECKED_DIV_EUCLID, false, 1, true, 1, divrem_contract_0_1);
conv_shape!(c03_t_conv_checked_div_euclid_p2_m1_q2_r1, API_CHECKED_DIV_EUCLID, false, 2, true, 1, divrem_contract_2_1);
conv_shape!(c03_t_conv_checked_div_euclid_p2_m1_q1_r1, API_CHECKED_DIV_EUCLID, false, 2, true, 1, divrem_contract_1_1);
conv_shape!(c03_t_conv_checked_div_euclid_p2_m1_q1_r0, API_CHECKED_DIV_EUCLID, false, 2, true, 1, divrem_contract_1_0);
conv_shape!(c03_t_conv_checked_div_euclid_p2_m1_q2_r0, API_CHECKED_DIV_EUCLID, false, 2, true, 1, divrem_contract_2_0);
conv_shape!(c03_q_conv_checked_div_euclid_m1_p1_q1_r1, API_CHECKED_DIV_EUCLID, true, 1, false, 1, divrem_contract_1_1);
conv_shape!(c03_t_conv_checked_div_euclid_m1_p1_q1_r0, API_CHECKED_DIV_EUCLID, true, 1, false, 1, divrem_contract_1_0);
conv_shape!(c03_t_conv_checked_div_euclid_m1_p1_q0_r1, API_CHECKED_DIV_EUCLID, true, 1, false, 1, divrem_contract_0_1);
conv_shape!(c03_t_conv_checked_div_euclid_m2_p1_q2_r1, API_CHECKED_DIV_EUCLID, true, 2, false, 1, divrem_contract_2_1);
conv_shape!(c03_t_conv_checked_div_euclid_m2_p1_q1_r1, API_CHECKED_DIV_EUCLID, true, 2, false, 1, divrem_contract_1_1);
conv_shape!(c03_t_conv_checked_div_euclid_m2_p1_q1_r0, API_CHECKED_DIV_EUCLID, true, 2, false, 1, divrem_contract_1_0);
conv_shape!(c03_t_conv_checked_div_euclid_m2_p1_q2_r0, API_CHECKED_DIV_EUCLID, true, 2, false, 1, divrem_contract_2_0);
conv_shape!(c03_q_conv_checked_div_euclid_m1_m1_q1_r1, API_CHECKED_DIV_EUCLID, true, 1, true, 1, divrem_contract_1_1);
conv_shape!(c03_t_conv_checked_div_euclid_m1_m1_q1_r0, API_CHECKED_DIV_EUCLID, true, 1, true, 1, divrem_contract_1_0);
conv_shape!(c03_t_conv_checked_div_euclid_m1_m1_q0_r1, API_CHECKED_DIV_EUCLID, true, 1, true, 1, divrem_contract_0_1);
conv_shape!(c03_t_conv_checked_div_euclid_m2_m1_q2_r1, API_CHECKED_DIV_EUCLID, true, 2, true, 1, divrem_contract_2_1);
conv_shape!(c03_t_conv_checked_div_euclid_m2_m1_q1_r1, API_CHECKED_DIV_EUCLID, true, 2, true, 1, divrem_contract_1_1);
conv_shape!(c03_t_conv_checked_div_euclid_m2_m1_q1_r0, API_CHECKED_DIV_EUCLID, true, 2, true, 1, divrem_contract_1_0);
conv_shape!(c03_t_conv_checked_div_euclid_m2_m1_q2_r0, API_CHECKED_DIV_EUCLID, true, 2, true, 1, divrem_contract_2_0);
conv_shape!(c03_t_conv_checked_div_euclid_z0_p1_q0_r0, API_CHECKED_DIV_EUCLID, false, 0, false, 1, divrem_contract_0_0);
conv_shape!(c03_t_conv_checked_div_euclid_z0_m1_q0_r0, API_CHECKED_DIV_EUCLID, false, 0, true, 1, divrem_contract_0_0);
conv_shape!(c03_q_conv_checked_rem_euclid_p1_p1_q1_r1, API_CHECKED_REM_EUCLID, false, 1, false, 1, divrem_contract_1_1);
conv_shape!(c03_t_conv_checked_rem_euclid_p1_p1_q1_r0, API_CHECKED_REM_EUCLID, false, 1, false, 1, divrem_contract_1_0);
conv_shape!(c03_t_conv_checked_rem_euclid_p1_p1_q0_r1, API_CHECKED_REM_EUCLID, false, 1, false, 1, divrem_contract_0_1);
conv_shape!(c03_t_conv_checked_rem_euclid_p2_p1_q2_r1, API_CHECKED_REM_EUCLID, false, 2, false, 1, divrem_contract_2_1);
conv_shape!(c03_t_conv_checked_rem_euclid_p2_p1_q1_r1, API_CHECKED_REM_EUCLID, false, 2, false, 1, divrem_contract_1_1);
conv_shape!(c03_t_conv_checked_rem_euclid_p2_p1_q1_r0, API_CHECKED_REM_EUCLID, false, 2, false, 1, divrem_contract_1_0);
conv_shape!(c03_t_conv_checked_rem_euclid_p2_p1_q2_r0, API_CHECKED_REM_EUCLID, false, 2, false, 1, divrem_contract_2_0);
conv_shape!(c03_q_conv_checked_rem_euclid_p1_m1_q1_r1, API_CHECKED_REM_EUCLID, false, 1, true, 1, divrem_contract_1_1);
conv_shape!(c03_t_conv_checked_rem_euclid_p1_m1_q1_r0, API_CHECKED_REM_EUCLID, false, 1, true, 1, divrem_contract_1_0);
conv_shape!(c03_t_conv_checked_rem_euclid_p1_m1_q0_r1, API_CHECKED_REM_EUCLID, false, 1, true, 1, divrem_contract_0_1);
conv_shape!(c03_t_conv_checked_rem_euclid_p2_m1_q2_r1, API_CHECKED_REM_EUCLID, false, 2, true, 1, divrem_contract_2_1);
conv_shape!(c03_t_conv_checked_rem_euclid_p2_m1_q1_r1, API_CHECKED_REM_EUCLID, false, 2, true, 1, divrem_contract_1_1);
conv_shape!(c03_t_conv_checked_rem_euclid_p2_m1_q1_r0, API_CHECKED_REM_EUCLID, false, 2, true, 1, divrem_contract_1_0);
conv_shape!(c03_t_conv_checked_rem_euclid_p2_m1_q2_r0, API_CHECKED_REM_EUCLID, false, 2, true, 1, divrem_contract_2_0);
conv_shape!(c03_q_conv_checked_rem_euclid_m1_p1_q1_r1, API_CHECKED_REM_EUCLID, true, 1, false, 1, divrem_contract_1_1);
conv_shape!(c03_t_conv_checked_rem_euclid_m1_p1_q1_r0, API_CHECKED_REM_EUCLID, true, 1, false, 1, divrem_contract_1_0);
conv_shape!(c03_t_conv_checked_rem_euclid_m1_p1_q0_r1, API_CHECKED_REM_EUCLID, true, 1, false, 1, divrem_contract_0_1);
conv_shape!(c03_t_conv_checked_rem_euclid_m2_p1_q2_r1, API_CHECKED_REM_EUCLID, true, 2, false, 1, divrem_contract_2_1);
conv_shape!(c03_t_conv_checked_rem_euclid_m2_p1_q1_r1, API_CHECKED_REM_EUCLID, true, 2, false, 1, divrem_contract_1_1);
conv_shape!(c03_t_conv_checked_rem_euclid_m2_p1_q1_r0, API_CHECKED_REM_EUCLID, true, 2, false, 1, divrem_contract_1_0);
conv_shape!(c03_t_conv_checked_rem_euclid_m2_p1_q2_r0, API_CHECKED_REM_EUCLID, true, 2, false, 1, divrem_contract_2_0);
conv_shape!(c03_q_conv_checked_rem_euclid_m1_m1_q1_r1, API_CHECKED_REM_EUCLID, true, 1, true, 1, divrem_contract_1_1);
conv_shape!(c03_t_conv_checked_rem_euclid_m1_m1_q1_r0, API_CHECKED_REM_EUCLID, true, 1, true, 1, divrem_contract_1_0);
conv_shape!(c03_t_conv_checked_rem_euclid_m1_m1_q0_r1, API_CHECKED_REM_EUCLID, true, 1, true, 1, divrem_contract_0_1);
conv_shape!(c03_t_conv_checked_rem_euclid_m2_m1_q2_r1, API_CHECKED_REM_EUCLID, true, 2, true, 1, divrem_contract_2_1);
conv_shape!(c03_t_conv_checked_rem_euclid_m2_m1_q1_r1, API_CHECKED_REM_EUCLID, true, 2, true, 1, divrem_contract_1_1);
conv_shape!(c03_t_conv_checked_rem_euclid_m2_m1_q1_r0, API_CHECKED_REM_EUCLID, true, 2, true, 1, divrem_contract_1_0);
conv_shape!(c03_t_conv_checked_rem_euclid_m2_m1_q2_r0, API_CHECKED_REM_EUCLID, true, 2, true, 1, divrem_contract_2_0);
conv_shape!(c03_t_conv_checked_rem_euclid_z0_p1_q0_r0, API_CHECKED_REM_EUCLID, false, 0, false, 1, divrem_contract_0_0);
conv_shape!(c03_t_conv_checked_rem_euclid_z0_m1_q0_r0, API_CHECKED_REM_EUCLID, false, 0, true, 1, divrem_contract_0_0);
conv_shape!(c03_q_conv_checked_div_rem_euclid_p1_p1_q1_r1, API_CHECKED_DIV_REM_EUCLID, false, 1, false, 1, divrem_contract_1_1);
conv_shape!(c03_q_conv_checked_div_rem_euclid_p1_p1_q1_r0, API_CHECKED_DIV_REM_EUCLID, false, 1, false, 1, divrem_contract_1_0);
conv_shape!(c03_q_conv_checked_div_rem_euclid_p1_p1_q0_r1, API_CHECKED_DIV_REM_EUCLID, false, 1, false, 1, divrem_contract_0_1);
conv_shape!(c03_q_conv_checked_div_rem_euclid_p2_p1_q2_r1, API_CHECKED_DIV_REM_EUCLID, false, 2, false, 1, divrem_contract_2_1);
conv_shape!(c03_t_conv_checked_div_rem_euclid_p2_p1_q1_r1, API_CHECKED_DIV_REM_EUCLID, false, 2, false, 1, divrem_contract_1_1);
conv_shape!(c03_t_conv_checked_div_rem_euclid_p2_p1_q1_r0, API_CHECKED_DIV_REM_EUCLID, false, 2, false, 1, divrem_contract_1_0);
conv_shape!(c03_t_conv_checked_div_rem_euclid_p2_p1_q2_r0, API_CHECKED_DIV_REM_EUCLID, false, 2, false, 1, divrem_contract_2_0);
conv_shape!(c03_t_conv_checked_div_rem_euclid_p2_p2_q1_r2, API_CHECKED_DIV_REM_EUCLID, false, 2, false, 2, divrem_contract_1_2);
conv_shape!(c03_t_conv_checked_div_rem_euclid_p2_p2_q1_r1, API_CHECKED_DIV_REM_EUCLID, false, 2, false, 2, divrem_contract_1_1);
conv_shape!(c03_t_conv_checked_div_rem_euclid_p2_p2_q0_r2, API_CHECKED_DIV_REM_EUCLID, false, 2, false, 2, divrem_contract_0_2);
conv_shape!(c03_t_conv_checked_div_rem_euclid_p2_p2_q1_r0, API_CHECKED_DIV_REM_EUCLID, false, 2, false, 2, divrem_contract_1_0);
conv_shape!(c03_t_conv_checked_div_rem_euclid_p1_p2_q0_r1, API_CHECKED_DIV_REM_EUCLID, false, 1, false, 2, divrem_contract_0_1);
conv_shape!(c03_q_conv_checked_div_rem_euclid_p1_m1_q1_r1, API_CHECKED_DIV_REM_EUCLID, false, 1, true, 1, divrem_contract_1_1);
conv_shape!(c03_q_conv_checked_div_rem_euclid_p1_m1_q1_r0, API_CHECKED_DIV_REM_EUCLID, false, 1, true, 1, divrem_contract_1_0);
conv_shape!(c03_q_conv_checked_div_rem_euclid_p1_m1_q0_r1, API_CHECKED_DIV_REM_EUCLID, false, 1, true, 1, divrem_contract_0_1);
conv_shape!(c03_q_conv_checked_div_rem_euclid_p2_m1_q2_r1, API_CHECKED_DIV_REM_EUCLID, false, 2, true, 1, divrem_contract_2_1);
conv_shape!(c03_t_conv_checked_div_rem_euclid_p2_m1_q1_r1, API_CHECKED_DIV_REM_EUCLID, false, 2, true, 1, divrem_contract_1_1);
conv_shape!(c03_t_conv_checked_div_rem_euclid_p2_m1_q1_r0, API_CHECKED_DIV_REM_EUCLID, false, 2, true, 1, divrem_contract_1_0);
conv_shape!(c03_t_conv_checked_div_rem_euclid_p2_m1_q2_r0, API_CHECKED_DIV_REM_EUCLID, false, 2, true, 1, divrem_contract_2_0);
conv_shape!(c03_t_conv_checked_div_rem_euclid_p2_m2_q1_r2, API_CHECKED_DIV_REM_EUCLID, false, 2, true, 2, divrem_contract_1_2);
conv_shape!(c03_t_conv_checked_div_rem_euclid_p2_m2_q1_r1, API_CHECKED_DIV_REM_EUCLID, false, 2, true, 2, divrem_contract_1_1);
conv_shape!(c03_t_conv_checked_div_rem_euclid_p2_m2_q0_r2, API_CHECKED_DIV_REM_EUCLID, false, 2, true, 2, divrem_contract_0_2);
conv_shape!(c03_t_conv_checked_div_rem_euclid_p2_m2_q1_r0, API_CHECKED_DIV_REM_EUCLID, false, 2, true, 2, divrem_contract_1_0);
conv_shape!(c03_t_conv_checked_div_rem_euclid_p1_m2_q0_r1, API_CHECKED_DIV_REM_EUCLID, false, 1, true, 2, divrem_contract_0_1);
conv_shape!(c03_q_conv_checked_div_rem_euclid_m1_p1_q1_r1, API_CHECKED_DIV_REM_EUCLID, true, 1, false, 1, divrem_contract_1_1);
conv_shape!(c03_q_conv_checked_div_rem_euclid_m1_p1_q1_r0, API_CHECKED_DIV_REM_EUCLID, true, 1, false, 1, divrem_contract_1_0);
conv_shape!(c03_q_conv_checked_div_rem_euclid_m1_p1_q0_r1, API_CHECKED_DIV_REM_EUCLID, true, 1, false, 1, divrem_contract_0_1);
conv_shape!(c03_q_conv_checked_div_rem_euclid_m2_p1_q2_r1, API_CHECKED_DIV_REM_EUCLID, true, 2, false, 1, divrem_contract_2_1);
conv_shape!(c03_t_conv_checked_div_rem_euclid_m2_p1_q1_r1, API_CHECKED_DIV_REM_EUCLID, true, 2, false, 1, divrem_contract_1_1);
conv_shape!(c03_t_conv_checked_div_rem_euclid_m2_p1_q1_r0, API_CHECKED_DIV_REM_EUCLID, true, 2, false, 1, divrem_contract_1_0);
conv_shape!(c03_t_conv_checked_div_rem_euclid_m2_p1_q2_r0, API_CHECKED_DIV_REM_EUCLID, true, 2, false, 1, divrem_contract_2_0);
conv_shape!(c03_t_conv_checked_div_rem_euclid_m2_p2_q1_r2, API_CHECKED_DIV_REM_EUCLID, true, 2, false, 2, divrem_contract_1_2);
conv_shape!(c03_t_conv_checked_div_rem_euclid_m2_p2_q1_r1, API_CHECKED_DIV_REM_EUCLID, true, 2, false, 2, divrem_contract_1_1);
conv_shape!(c03_t_conv_checked_div_rem_euclid_m2_p2_q0_r2, API_CHECKED_DIV_REM_EUCLID, true, 2, false, 2, divrem_contract_0_2);
conv_shape!(c03_t_conv_checked_div_rem_euclid_m2_p2_q1_r0, API_CHECKED_DIV_REM_EUCLID, true, 2, false, 2, divrem_contract_1_0);
conv_shape!(c03_t_conv_checked_div_rem_euclid_m1_p2_q0_r1, API_CHECKED_DIV_REM_EUCLID, true, 1, false, 2, divrem_contract_0_1);
conv_shape!(c03_q_conv_checked_div_rem_euclid_m1_m1_q1_r1, API_CHECKED_DIV_REM_EUCLID, true, 1, true, 1, divrem_contract_1_1);
conv_shape!(c03_q_conv_checked_div_rem_euclid_m1_m1_q1_r0, API_CHECKED_DIV_REM_EUCLID, true, 1, true, 1, divrem_contract_1_0);
conv_shape!(c03_q_conv_checked_div_rem_euclid_m1_m1_q0_r1, API_CHECKED_DIV_REM_EUCLID, true, 1, true, 1, divrem_contract_0_1);
conv_shape!(c03_q_conv_checked_div_rem_euclid_m2_m1_q2_r1, API_CHECKED_DIV_REM_EUCLID, true, 2, true, 1, divrem_contract_2_1);
conv_shape!(c03_t_conv_checked_div_rem_euclid_m2_m1_q1_r1, API_CHECKED_DIV_REM_EUCLID, true, 2, true, 1, divrem_contract_1_1);
conv_shape!(c03_t_conv_checked_div_rem_euclid_m2_m1_q1_r0, API_CHECKED_DIV_REM_EUCLID, true, 2, true, 1, divrem_contract_1_0);
conv_shape!(c03_t_conv_checked_div_rem_euclid_m2_m1_q2_r0, API_CHECKED_DIV_REM_EUCLID, true, 2, true, 1, divrem_contract_2_0);
conv_shape!(c03_t_conv_checked_div_rem_euclid_m2_m2_q1_r2, API_CHECKED_DIV_REM_EUCLID, true, 2, true, 2, divrem_contract_1_2);
conv_shape!(c03_t_conv_checked_div_rem_euclid_m2_m2_q1_r1, API_CHECKED_DIV_REM_EUCLID, true, 2, true, 2, divrem_contract_1_1);
conv_shape!(c03_t_conv_checked_div_rem_euclid_m2_m2_q0_r2, API_CHECKED_DIV_REM_EUCLID, true, 2, true, 2, divrem_contract_0_2);
conv_shape!(c03_t_conv_checked_div_rem_euclid_m2_m2_q1_r0, API_CHECKED_DIV_REM_EUCLID, true, 2, true, 2, divrem_contract_1_0);
conv_shape!(c03_t_conv_checked_div_rem_euclid_m1_m2_q0_r1, API_CHECKED_DIV_REM_EUCLID, true, 1, true, 2, divrem_contract_0_1);
conv_shape!(c03_q_conv_checked_div_rem_euclid_z0_p1_q0_r0, API_CHECKED_DIV_REM_EUCLID, false, 0, false, 1, divrem_contract_0_0);
conv_shape!(c03_q_conv_checked_div_rem_euclid_z0_m1_q0_r0, API_CHECKED_DIV_REM_EUCLID, false, 0, true, 1, divrem_contract_0_0);
conv_shape!(c03_q_conv_div_vv_p1_p1_q1_r1, API_DIV_VV, false, 1, false, 1, divrem_contract_1_1);
conv_shape!(c03_t_conv_div_vv_p1_p1_q1_r0, API_DIV_VV, false, 1, false, 1, divrem_contract_1_0);
conv_shape!(c03_t_conv_div_vv_p1_p1_q0_r1, API_DIV_VV, false, 1, false, 1, divrem_contract_0_1);
conv_shape!(c03_t_conv_div_vv_p2_p1_q2_r1, API_DIV_VV, false, 2, false, 1, divrem_contract_2_1);
conv_shape!(c03_t_conv_div_vv_p2_p1_q1_r1, API_DIV_VV, false, 2, false, 1, divrem_contract_1_1);
conv_shape!(c03_t_conv_div_vv_p2_p1_q1_r0, API_DIV_VV, false, 2, false, 1, divrem_contract_1_0);
conv_shape!(c03_t_conv_div_vv_p2_p1_q2_r0, API_DIV_VV, false, 2, false, 1, divrem_contract_2_0);
conv_shape!(c03_q_conv_div_vv_p1_m1_q1_r1, API_DIV_VV, false, 1, true, 1, divrem_contract_1_1);
conv_shape!(c03_t_conv_div_vv_p1_m1_q1_r0, API_DIV_VV, false, 1, true, 1, divrem_contract_1_0);
conv_shape!(c03_t_conv_div_vv_p1_m1_q0_r1, API_DIV_VV, false, 1, true, 1, divrem_contract_0_1);
conv_shape!(c03_t_conv_div_vv_p2_m1_q2_r1, API_DIV_VV, false, 2, true, 1, divrem_contract_2_1);
conv_shape!(c03_t_conv_div_vv_p2_m1_q1_r1, API_DIV_VV, false, 2, true, 1, divrem_contract_1_1);
conv_shape!(c03_t_conv_div_vv_p2_m1_q1_r0, API_DIV_VV, false, 2, true, 1, divrem_contract_1_0);
conv_shape!(c03_t_conv_div_vv_p2_m1_q2_r0, API_DIV_VV, false, 2, true, 1, divrem_contract_2_0);
conv_shape!(c03_q_conv_div_vv_m1_p1_q1_r1, API_DIV_VV, true, 1, false, 1, divrem_contract_1_1);
conv_shape!(c03_t_conv_div_vv_m1_p1_q1_r0, API_DIV_VV, true, 1, false, 1, divrem_contract_1_0);
conv_shape!(c03_t_conv_div_vv_m1_p1_q0_r1, API_DIV_VV, true, 1, false, 1, divrem_contract_0_1);
conv_shape!(c03_t_conv_div_vv_m2_p1_q2_r1, API_DIV_VV, true, 2, false, 1, divrem_contract_2_1);
conv_shape!(c03_t_conv_div_vv_m2_p1_q1_r1, API_DIV_VV, true, 2, false, 1, divrem_contract_1_1);
conv_shape!(c03_t_conv_div_vv_m2_p1_q1_r0, API_DIV_VV, true, 2, false, 1, divrem_contract_1_0);
conv_shape!(c03_t_conv_div_vv_m2_p1_q2_r0, API_DIV_VV, true, 2, false, 1, divrem_contract_2_0);
conv_shape!(c03_q_conv_div_vv_m1_m1_q1_r1, API_DIV_VV, true, 1, true, 1, divrem_contract_1_1);
conv_shape!(c03_t_conv_div_vv_m1_m1_q1_r0, API_DIV_VV, true, 1, true, 1, divrem_contract_1_0);
conv_shape!(c03_t_conv_div_vv_m1_m1_q0_r1, API_DIV_VV, true, 1, true, 1, divrem_contract_0_1);
conv_shape!(c03_t_conv_div_vv_m2_m1_q2_r1, API_DIV_VV, true, 2, true, 1, divrem_contract_2_1);
conv_shape!(c03_t_conv_div_vv_m2_m1_q1_r1, API_DIV_VV, true, 2, true, 1, divrem_contract_1_1);
conv_shape!(c03_t_conv_div_vv_m2_m1_q1_r0, API_DIV_VV, true, 2, true, 1, divrem_contract_1_0);
conv_shape!(c03_t_conv_div_vv_m2_m1_q2_r0, API_DIV_VV, true, 2, true, 1, divrem_contract_2_0);
conv_shape!(c03_t_conv_div_vv_z0_p1_q0_r0, API_DIV_VV, false, 0, false, 1, divrem_contract_0_0);
conv_shape!(c03_t_conv_div_vv_z0_m1_q0_r0, API_DIV_VV, false, 0, true, 1, divrem_contract_0_0);
conv_shape!(c03_q_conv_rem_vv_p1_p1_q1_r1, API_REM_VV, false, 1, false, 1, divrem_contract_1_1);
conv_shape!(c03_t_conv_rem_vv_p1_p1_q1_r0, API_REM_VV, false, 1, false, 1, divrem_contract_1_0);
conv_shape!(c03_t_conv_rem_vv_p1_p1_q0_r1, API_REM_VV, false, 1, false, 1, divrem_contract_0_1);
conv_shape!(c03_t_conv_rem_vv_p2_p1_q2_r1, API_REM_VV, false, 2, false, 1, divrem_contract_2_1);
conv_shape!(c03_t_conv_rem_vv_p2_p1_q1_r1, API_REM_VV, false, 2, false, 1, divrem_contract_1_1);
conv_shape!(c03_t_conv_rem_vv_p2_p1_q1_r0, API_REM_VV, false, 2, false, 1, divrem_contract_1_0);
conv_shape!(c03_t_conv_rem_vv_p2_p1_q2_r0, API_REM_VV, false, 2, false, 1, divrem_contract_2_0);
conv_shape!(c03_q_conv_rem_vv_p1_m1_q1_r1, API_REM_VV, false, 1, true, 1, divrem_contract_1_1);
conv_shape!(c03_t_conv_rem_vv_p1_m1_q1_r0, API_REM_VV, false, 1, true, 1, divrem_contract_1_0);
conv_shape!(c03_t_conv_rem_vv_p1_m1_q0_r1, API_REM_VV, false, 1, true, 1, divrem_contract_0_1);
conv_shape!(c03_t_conv_rem_vv_p2_m1_q2_r1, API_REM_VV, false, 2, true, 1, divrem_contract_2_1);
conv_shape!(c03_t_conv_rem_vv_p2_m1_q1_r1, API_REM_VV, false, 2, true, 1, divrem_contract_1_1);
conv_shape!(c03_t_conv_rem_vv_p2_m1_q1_r0, API_REM_VV, false, 2, true, 1, divrem_contract_1_0);
conv_shape!(c03_t_conv_rem_vv_p2_m1_q2_r0, API_REM_VV, false, 2, true, 1, divrem_contract_2_0);
conv_shape!(c03_q_conv_rem_vv_m1_p1_q1_r1, API_REM_VV, true, 1, false, 1, divrem_contract_1_1);
conv_shape!(c03_t_conv_rem_vv_m1_p1_q1_r0, API_REM_VV, true, 1, false, 1, divrem_contract_1_0);
conv_shape!(c03_t_conv_rem_vv_m1_p1_q0_r1, API_REM_VV, true, 1, false, 1, divrem_contract_0_1);
conv_shape!(c03_t_conv_rem_vv_m2_p1_q2_r1, API_REM_VV, true, 2, false, 1, divrem_contract_2_1);
conv_shape!(c03_t_conv_rem_vv_m2_p1_q1_r1, API_REM_VV, true, 2, false, 1, divrem_contract_1_1);
conv_shape!(c03_t_conv_rem_vv_m2_p1_q1_r0, API_REM_VV, true, 2, false, 1, divrem_contract_1_0);
conv_shape!(c03_t_conv_rem_vv_m2_p1_q2_r0, API_REM_VV, true, 2, false, 1, divrem_contract_2_0);
conv_shape!(c03_q_conv_rem_vv_m1_m1_q1_r1, API_REM_VV, true, 1, true, 1, divrem_contract_1_1);
conv_shape!(c03_t_conv_rem_vv_m1_m1_q1_r0, API_REM_VV, true, 1, true, 1, divrem_contract_1_0);
conv_shape!(c03_t_conv_rem_vv_m1_m1_q0_r1, API_REM_VV, true, 1, true, 1, divrem_contract_0_1);
conv_shape!(c03_t_conv_rem_vv_m2_m1_q2_r1, API_REM_VV, true, 2, true, 1, divrem_contract_2_1);
conv_shape!(c03_t_conv_rem_vv_m2_m1_q1_r1, API_REM_VV, true, 2, true, 1, divrem_contract_1_1);
conv_shape!(c03_t_conv_rem_vv_m2_m1_q1_r0, API_REM_VV, true, 2, true, 1, divrem_contract_1_0);
conv_shape!(c03_t_conv_rem_vv_m2_m1_q2_r0, API_REM_VV, true, 2, true, 1, divrem_contract_2_0);
conv_shape!(c03_t_conv_rem_vv_z0_p1_q0_r0, API_REM_VV, false, 0, false, 1, divrem_contract_0_0);
conv_shape!(c03_t_conv_rem_vv_z0_m1_q0_r0, API_REM_VV, false, 0, true, 1, divrem_contract_0_0);
conv_shape!(c03_q_conv_div_assign_p1_p1_q1_r1, API_DIV_ASSIGN, false, 1, false, 1, divrem_contract_1_1);
conv_shape!(c03_t_conv_div_assign_p1_p1_q1_r0, API_DIV_ASSIGN, false, 1, false, 1, divrem_contract_1_0);
conv_shape!(c03_t_conv_div_assign_p1_p1_q0_r1, API_DIV_ASSIGN, false, 1, false, 1, divrem_contract_0_1);
conv_shape!(c03_t_conv_div_assign_p2_p1_q2_r1, API_DIV_ASSIGN, false, 2, false, 1, divrem_contract_2_1);
conv_shape!(c03_t_conv_div_assign_p2_p1_q1_r1, API_DIV_ASSIGN, false, 2, false, 1, divrem_contract_1_1);
conv_shape!(c03_t_conv_div_assign_p2_p1_q1_r0, API_DIV_ASSIGN, false, 2, false, 1, divrem_contract_1_0);
conv_shape!(c03_t_conv_div_assign_p2_p1_q2_r0, API_DIV_ASSIGN, false, 2, false, 1, divrem_contract_2_0);
conv_shape!(c03_q_conv_div_assign_p1_m1_q1_r1, API_DIV_ASSIGN, false, 1, true, 1, divrem_contract_1_1);
conv_shape!(c03_t_conv_div_assign_p1_m1_q1_r0, API_DIV_ASSIGN, false, 1, true, 1, divrem_contract_1_0);
conv_shape!(c03_t_conv_div_assign_p1_m1_q0_r1, API_DIV_ASSIGN, false, 1, true, 1, divrem_contract_0_1);
conv_shape!(c03_t_conv_div_assign_p2_m1_q2_r1, API_DIV_ASSIGN, false, 2, true, 1, divrem_contract_2_1);
conv_shape!(c03_t_conv_div_assign_p2_m1_q1_r1, API_DIV_ASSIGN, false, 2, true, 1, divrem_contract_1_1);
conv_shape!(c03_t_conv_div_assign_p2_m1_q1_r0, API_DIV_ASSIGN, false, 2, true, 1, divrem_contract_1_0);
conv_shape!(c03_t_conv_div_assign_p2_m1_q2_r0, API_DIV_ASSIGN, false, 2, true, 1, divrem_contract_2_0);
conv_shape!(c03_q_conv_div_assign_m1_p1_q1_r1, API_DIV_ASSIGN, true, 1, false, 1, divrem_contract_1_1);
conv_shape!(c03_t_conv_div_assign_m1_p1_q1_r0, API_DIV_ASSIGN, true, 1, false, 1, divrem_contract_1_0);
conv_shape!(c03_t_conv_div_assign_m1_p1_q0_r1, API_DIV_ASSIGN, true, 1, false, 1, divrem_contract_0_1);
conv_shape!(c03_t_conv_div_assign_m2_p1_q2_r1, API_DIV_ASSIGN, true, 2, false, 1, divrem_contract_2_1);
conv_shape!(c03_t_conv_div_assign_m2_p1_q1_r1, API_DIV_ASSIGN, true, 2, false, 1, divrem_contract_1_1);
conv_shape!(c03_t_conv_div_assign_m2_p1_q1_r0, API_DIV_ASSIGN, true, 2, false, 1, divrem_contract_1_0);
conv_shape!(c03_t_conv_div_assign_m2_p1_q2_r0, API_DIV_ASSIGN, true, 2, false, 1, divrem_contract_2_0);
conv_shape!(c03_q_conv_div_assign_m1_m1_q1_r1, API_DIV_ASSIGN, true, 1, true, 1, divrem_contract_1_1);
conv_shape!(c03_t_conv_div_assign_m1_m1_q1_r0, API_DIV_ASSIGN, true, 1, true, 1, divrem_contract_1_0);
conv_shape!(c03_t_conv_div_assign_m1_m1_q0_r1, API_DIV_ASSIGN, true, 1, true, 1, divrem_contract_0_1);
conv_shape!(c03_t_conv_div_assign_m2_m1_q2_r1, API_DIV_ASSIGN, true, 2, true, 1, divrem_contract_2_1);
conv_shape!(c03_t_conv_div_assign_m2_m1_q1_r1, API_DIV_ASSIGN, true, 2, true, 1, divrem_contract_1_1);
conv_shape!(c03_t_conv_div_assign_m2_m1_q1_r0, API_DIV_ASSIGN, true, 2, true, 1, divrem_contract_1_0);
conv_shape!(c03_t_conv_div_assign_m2_m1_q2_r0, API_DIV_ASSIGN, true, 2, true, 1, divrem_contract_2_0);
conv_shape!(c03_t_conv_div_assign_z0_p1_q0_r0, API_DIV_ASSIGN, false, 0, false, 1, divrem_contract_0_0);
conv_shape!(c03_t_conv_div_assign_z0_m1_q0_r0, API_DIV_ASSIGN, false, 0, true, 1, divrem_contract_0_0);
conv_shape!(c03_q_conv_rem_assign_p1_p1_q1_r1, API_REM_ASSIGN, false, 1, false, 1, divrem_contract_1_1);
conv_shape!(c03_t_conv_rem_assign_p1_p1_q1_r0, API_REM_ASSIGN, false, 1, false, 1, divrem_contract_1_0);
conv_shape!(c03_t_conv_rem_assign_p1_p1_q0_r1, API_REM_ASSIGN, false, 1, false, 1, divrem_contract_0_1);
conv_shape!(c03_t_conv_rem_assign_p2_p1_q2_r1, API_REM_ASSIGN, false, 2, false, 1, divrem_contract_2_1);
conv_shape!(c03_t_conv_rem_assign_p2_p1_q1_r1, API_REM_ASSIGN, false, 2, false, 1, divrem_contract_1_1);
conv_shape!(c03_t_conv_rem_assign_p2_p1_q1_r0, API_REM_ASSIGN, false, 2, false, 1, divrem_contract_1_0);
conv_shape!(c03_t_conv_rem_assign_p2_p1_q2_r0, API_REM_ASSIGN, false, 2, false, 1, divrem_contract_2_0);
conv_shape!(c03_q_conv_rem_assign_p1_m1_q1_r1, API_REM_ASSIGN, false, 1, true, 1, divrem_contract_1_1);
conv_shape!(c03_t_conv_rem_assign_p1_m1_q1_r0, API_REM_ASSIGN, false, 1, true, 1, divrem_contract_1_0);
conv_shape!(c03_t_conv_rem_assign_p1_m1_q0_r1, API_REM_ASSIGN, false, 1, true, 1, divrem_contract_0_1);
conv_shape!(c03_t_conv_rem_assign_p2_m1_q2_r1, API_REM_ASSIGN, false, 2, true, 1, divrem_contract_2_1);
conv_shape!(c03_t_conv_rem_assign_p2_m1_q1_r1, API_REM_ASSIGN, false, 2, true, 1, divrem_contract_1_1);
conv_shape!(c03_t_conv_rem_assign_p2_m1_q1_r0, API_REM_ASSIGN, false, 2, true, 1, divrem_contract_1_0);
conv_shape!(c03_t_conv_rem_assign_p2_m1_q2_r0, API_REM_ASSIGN, false, 2, true, 1, divrem_contract_2_0);
conv_shape!(c03_q_conv_rem_assign_m1_p1_q1_r1, API_REM_ASSIGN, true, 1, false, 1, divrem_contract_1_1);
conv_shape!(c03_t_conv_rem_assign_m1_p1_q1_r0, API_REM_ASSIGN, true, 1, false, 1, divrem_contract_1_0);
conv_shape!(c03_t_conv_rem_assign_m1_p1_q0_r1, API_REM_ASSIGN, true, 1, false, 1, divrem_contract_0_1);
conv_shape!(c03_t_conv_rem_assign_m2_p1_q2_r1, API_REM_ASSIGN, true, 2, false, 1, divrem_contract_2_1);
conv_shape!(c03_t_conv_rem_assign_m2_p1_q1_r1, API_REM_ASSIGN, true, 2, false, 1, divrem_contract_1_1);
conv_shape!(c03_t_conv_rem_assign_m2_p1_q1_r0, API_REM_ASSIGN, true, 2, false, 1, divrem_contract_1_0);
conv_shape!(c03_t_conv_rem_assign_m2_p1_q2_r0, API_REM_ASSIGN, true, 2, false, 1, divrem_contract_2_0);
conv_shape!(c03_q_conv_rem_assign_m1_m1_q1_r1, API_REM_ASSIGN, true, 1, true, 1, divrem_contract_1_1);
conv_shape!(c03_t_conv_rem_assign_m1_m1_q1_r0, API_REM_ASSIGN, true, 1, true, 1, divrem_contract_1_0);
conv_shape!(c03_t_conv_rem_assign_m1_m1_q0_r1, API_REM_ASSIGN, true, 1, true, 1, divrem_contract_0_1);
conv_shape!(c03_t_conv_rem_assign_m2_m1_q2_r1, API_REM_ASSIGN, true, 2, true, 1, divrem_contract_2_1);
conv_shape!(c03_t_conv_rem_assign_m2_m1_q1_r1, API_REM_ASSIGN, true, 2, true, 1, divrem_contract_1_1);
conv_shape!(c03_t_conv_rem_assign_m2_m1_q1_r0, API_REM_ASSIGN, true, 2, true, 1, divrem_contract_1_0);
conv_shape!(c03_t_conv_rem_assign_m2_m1_q2_r0, API_REM_ASSIGN, true, 2, true, 1, divrem_contract_2_0);
conv_shape!(c03_t_conv_rem_assign_z0_p1_q0_r0, API_REM_ASSIGN, false, 0, false, 1, divrem_contract_0_0);
conv_shape!(c03_t_conv_rem_assign_z0_m1_q0_r0, API_REM_ASSIGN, false, 0, true, 1, divrem_contract_0_0);
zero_div_mp!(c03_t_zero_div_rem_p0_mp, API_DIV_REM, false, 0);
zero_div_mp!(c03_q_zero_div_rem_p1_mp, API_DIV_REM, false, 1);
zero_div_mp!(c03_t_zero_div_rem_m2_mp, API_DIV_REM, true, 2);
zero_div_mp!(c03_t_zero_div_p0_mp, API_DIV, false, 0);
zero_div_mp!(c03_q_zero_div_p1_mp, API_DIV, false, 1);
zero_div_mp!(c03_t_zero_div_m2_mp, API_DIV, true, 2);
zero_div_mp!(c03_t_zero_rem_p0_mp, API_REM, false, 0);
zero_div_mp!(c03_q_zero_rem_p1_mp, API_REM, false, 1);
zero_div_mp!(c03_t_zero_rem_m2_mp, API_REM, true, 2);
zero_div_mp!(c03_t_zero_div_floor_p0_mp, API_DIV_FLOOR, false, 0);
zero_div_mp!(c03_q_zero_div_floor_p1_mp, API_DIV_FLOOR, false, 1);
zero_div_mp!(c03_t_zero_div_floor_m2_mp, API_DIV_FLOOR, true, 2);
zero_div_mp!(c03_t_zero_mod_floor_p0_mp, API_MOD_FLOOR, false, 0);
zero_div_mp!(c03_q_zero_mod_floor_p1_mp, API_MOD_FLOOR, false, 1);
zero_div_mp!(c03_t_zero_mod_floor_m2_mp, API_MOD_FLOOR, true, 2);
zero_div_mp!(c03_t_zero_div_mod_floor_p0_mp, API_DIV_MOD_FLOOR, false, 0);
zero_div_mp!(c03_q_zero_div_mod_floor_p1_mp, API_DIV_MOD_FLOOR, false, 1);
zero_div_mp!(c03_t_zero_div_mod_floor_m2_mp, API_DIV_MOD_FLOOR, true, 2);
zero_div_mp!(c03_t_zero_div_ceil_p0_mp, API_DIV_CEIL, false, 0);
zero_div_mp!(c03_q_zero_div_ceil_p1_mp, API_DIV_CEIL, false, 1);
zero_div_mp!(c03_t_zero_div_ceil_m2_mp, API_DIV_CEIL, true, 2);
zero_div_mp!(c03_t_zero_div_euclid_p0_mp, API_DIV_EUCLID, false, 0);
zero_div_mp!(c03_q_zero_div_euclid_p1_mp, API_DIV_EUCLID, false, 1);
zero_div_mp!(c03_t_zero_div_euclid_m2_mp, API_DIV_EUCLID, true, 2);
zero_div_mp!(c03_t_zero_rem_euclid_p0_mp, API_REM_EUCLID, false, 0);
zero_div_mp!(c03_q_zero_rem_euclid_p1_mp, API_REM_EUCLID, false, 1);
zero_div_mp!(c03_t_zero_rem_euclid_m2_mp, API_REM_EUCLID, true, 2);
zero_div_mp!(c03_t_zero_div_rem_euclid_p0_mp, API_DIV_REM_EUCLID, false, 0);
zero_div_mp!(c03_q_zero_div_rem_euclid_p1_mp, API_DIV_REM_EUCLID, false, 1);
zero_div_mp!(c03_t_zero_div_rem_euclid_m2_mp, API_DIV_REM_EUCLID, true, 2);
zero_div_mp!(c03_t_zero_div_vv_p0_mp, API_DIV_VV, false, 0);
zero_div_mp!(c03_q_zero_div_vv_p1_mp, API_DIV_VV, false, 1);
zero_div_mp!(c03_t_zero_div_vv_m2_mp, API_DIV_VV, true, 2);
zero_div_mp!(c03_t_zero_rem_vv_p0_mp, API_REM_VV, false, 0);
zero_div_mp!(c03_q_zero_rem_vv_p1_mp, API_REM_VV, false, 1);
zero_div_mp!(c03_t_zero_rem_vv_m2_mp, API_REM_VV, true, 2);
zero_div_mp!(c03_t_zero_div_assign_p0_mp, API_DIV_ASSIGN, false, 0);
zero_div_mp!(c03_q_zero_div_assign_p1_mp, API_DIV_ASSIGN, false, 1);
zero_div_mp!(c03_t_zero_div_assign_m2_mp, API_DIV_ASSIGN, true, 2);
zero_div_mp!(c03_t_zero_rem_assign_p0_mp, API_REM_ASSIGN, false, 0);
zero_div_mp!(c03_q_zero_rem_assign_p1_mp, API_REM_ASSIGN, false, 1);
zero_div_mp!(c03_t_zero_rem_assign_m2_mp, API_REM_ASSIGN, true, 2);
zero_div_checked!(c03_q_zero_checked_p0, false, 0);
zero_div_checked!(c03_q_zero_checked_p1, false, 1);
zero_div_checked!(c03_q_zero_checked_m1, true, 1);
zero_div_checked!(c03_t_zero_checked_m2, true, 2);
// END GENERATED
