// C03 — BigUint division wrappers and single-digit loops (anchored in src/biguint/division.rs), with the algebraic cores under contract:
//   div_rem_core(a, b) -> arbitrary canonical (q, r), r < b, a = P + r with P an abstract stand-in for q*b (P = 0 iff q = 0; P carries the
//                         power-of-two factor of the normalisation shift), its preconditions ASSERTED at the call;
//   div_wide(hi, lo, d) -> arbitrary (q, r), r < d, precondition hi < d ASSERTED (the #DE condition), calls recorded in order.
#![allow(unused_imports, dead_code, static_mut_refs)]
use super::*;
use crate::biguint::verif_common as vc;
use alloc::{vec, vec::Vec};
use num_integer::Integer;

const W: usize = 4;
static mut GH_Q: [u64; W] = [0; W];
static mut GH_R: [u64; W] = [0; W];
static mut GH_P: [u64; W] = [0; W];
static mut GH_CORE_CALLS: u32 = 0;
static mut GH_SHIFT: u32 = 0;

fn widen_slice(x: &[u64]) -> [u64; W] {
    let mut o = [0u64; W];
    let mut i = 0;
    while i < x.len() && i < W {
        o[i] = x[i];
        i += 1;
    }
    o
}
fn core_contract_body<const LQ: usize, const LR: usize>(a: BigUint, b: &[u64]) -> (BigUint, BigUint) {
    let ad = vc::digits(&a);
    kani::assert(ad.len() >= b.len() && b.len() > 1, "VERIF div_rem_core precondition: a.len() >= b.len() > 1");
    kani::assert(b[b.len() - 1] >> 63 == 1, "VERIF div_rem_core precondition: divisor not normalised (top bit clear)");
    kani::assert(vc::is_canonical(&a), "VERIF div_rem_core called with a non-canonical dividend");
    let q = vc::any_canon::<LQ>();
    let r = vc::any_canon::<LR>();
    let p: [u64; W] = kani::any();
    kani::assume(vc::ref_cmp(&r, b) < 0);
    let (s, c) = vc::ref_add::<W>(&p, &r);
    kani::assume(!c && vc::eq_window(ad, &s));
    kani::assume(vc::ref_is_zero(&p) == (LQ == 0));
    // q*b is a multiple of 2^shift because b = d << shift
    let sh = unsafe { GH_SHIFT };
    kani::assume(sh == 0 || (p[0] & ((1u64 << sh) - 1)) == 0);
    unsafe {
        GH_CORE_CALLS += 1;
        GH_Q = widen_slice(&q);
        GH_R = widen_slice(&r);
        GH_P = p;
    }
    (vc::mk_from(&q), vc::mk_from(&r))
}
macro_rules! core_fn {
    ($name:ident, $lq:expr, $lr:expr) => {
        fn $name(a: BigUint, b: &[u64]) -> (BigUint, BigUint) { core_contract_body::<$lq, $lr>(a, b) }
    };
}
core_fn!(core_c_1_0, 1, 0);
core_fn!(core_c_1_1, 1, 1);
core_fn!(core_c_1_2, 1, 2);
core_fn!(core_c_2_2, 2, 2);
core_fn!(core_c_2_1, 2, 1);

pub(crate) const BY_REF: u8 = 0;   // div_rem_ref(&u, &d)
pub(crate) const BY_VAL: u8 = 1;   // div_rem(u, d)
fn run_divrem(which: u8, u: BigUint, d: BigUint) -> (BigUint, BigUint) {
    if which == BY_REF { div_rem_ref(&u, &d) } else { div_rem(u, d) }
}
/// native reference: schoolbook long division by repeated shift-subtract on the window (only used in native replay)
fn ref_divrem(u: &[u64], d: &[u64]) -> ([u64; W], [u64; W]) {
    let mut q = [0u64; W];
    let mut r = [0u64; W];
    let mut i = 64 * W;
    while i > 0 {
        i -= 1;
        // r = (r << 1) | bit i of u
        let (mut r2, _) = vc::ref_shl::<W>(&r, 0, 1);
        if vc::ref_bit(u, i as u64) {
            r2[0] |= 1;
        }
        if vc::ref_cmp(&r2, d) >= 0 {
            r2 = vc::ref_sub::<W>(&r2, d).0;
            q[i / 64] |= 1u64 << (i % 64);
        }
        r = r2;
    }
    (q, r)
}

// case-split stub: u64::leading_zeros pinned to the query's concrete shift S (under assume(real value == S)), so that the
// normalisation shifts run with a concrete bit count; the 64 shift classes are separate queries
fn lz_pinned<const S: u32>(x: u64) -> u32 {
    if S == 64 {
        kani::assume(x == 0);
    } else {
        kani::assume((x >> (63 - S)) == 1);
    }
    S
}
macro_rules! lzfn { ($f:ident, $s:expr) => { fn $f(x: u64) -> u32 { lz_pinned::<$s>(x) } }; }
lzfn!(lz_0, 0);
lzfn!(lz_1, 1);
lzfn!(lz_7, 7);
lzfn!(lz_31, 31);
lzfn!(lz_32, 32);
lzfn!(lz_62, 62);
lzfn!(lz_63, 63);

// general path: multi-digit divisor, u > d, one normalisation shift class per query, result = (q, r >> shift)
macro_rules! wrapper_shape {
    ($name:ident, $which:expr, $lu:expr, $ld:expr, $core:ident, $lz:ident) => {
        #[kani::proof]
        #[kani::unwind(34)]
        #[kani::stub(div_rem_core, $core)]
        #[kani::stub(u64::leading_zeros, $lz)]
        #[kani::stub(crate::biguint::verif_common::symbolic, crate::biguint::verif_common::yes)]
        #[kani::stub(alloc::vec::Vec::shrink_to_fit, vc::noop_shrink)]
        #[kani::stub(crate::biguint::shift::biguint_shl, crate::biguint::shift::verif_c07_biguint_shift::shl_fixedb_0)]
        #[kani::stub(crate::biguint::shift::biguint_shr, crate::biguint::shift::verif_c07_biguint_shift::shr_fixedb_0)]
        fn $name() {
            let u0: [u64; $lu] = vc::any_canon::<$lu>();
            let d0: [u64; $ld] = vc::any_canon::<$ld>();
            kani::assume(vc::ref_cmp(&u0, &d0) > 0);
            let shift = if vc::symbolic() { $lz(d0[$ld - 1]) } else { d0[$ld - 1].leading_zeros() };
            unsafe { GH_SHIFT = shift; GH_CORE_CALLS = 0; }
            let (q, r) = run_divrem($which, vc::mk_from(&u0), vc::mk_from(&d0));
            kani::assert(vc::is_canonical(&q) && vc::is_canonical(&r), "VERIF division result not canonical");
            if !vc::symbolic() {
                let (eq, er) = ref_divrem(&u0, &d0);
                kani::assert(vc::eq_window(vc::digits(&q), &eq) && vc::eq_window(vc::digits(&r), &er), "VERIF remainder is not (core remainder >> shift) / quotient not passed through");
                return;
            }
            kani::assert(unsafe { GH_CORE_CALLS } == 1, "VERIF general division must call the core exactly once");
            // quotient passed through, remainder de-normalised
            kani::assert(vc::eq_window(vc::digits(&q), unsafe { &GH_Q }), "VERIF remainder is not (core remainder >> shift) / quotient not passed through");
            let (er, lost) = vc::ref_shr::<W>(unsafe { &GH_R }, 0, shift);
            kani::assert(!lost && vc::eq_window(vc::digits(&r), &er), "VERIF remainder is not (core remainder >> shift) / quotient not passed through");
            // u = (P >> shift) + R and R < d: the defining identity in terms of the abstract product
            let (ps, _) = vc::ref_shr::<W>(unsafe { &GH_P }, 0, shift);
            let (sum, c) = vc::ref_add::<W>(&ps, vc::digits(&r));
            kani::assert(!c && vc::eq_window(&u0, &sum), "VERIF u != q*d + r after de-normalisation");
            kani::assert(vc::ref_cmp(vc::digits(&r), &d0) < 0, "VERIF remainder >= divisor");
            kani::cover!(true, "reach:end_of_harness");
        }
    };
}
// abstract shift stand-ins for the early-exit harnesses (the early exits must not shift at all; if a modified tree does shift there,
// the value semantics x * 2^s / floor(x / 2^s) are what matters, not the kernels): window oracle, result length pinned to the operand's
fn shl_abs<T: num_traits::PrimInt>(n: alloc::borrow::Cow<'_, BigUint>, shift: T) -> BigUint {
    let s = shift.to_u32().unwrap_or(64);
    kani::assume(s < 64);
    let d = vc::digits(&n);
    let (e, lost) = vc::ref_shl::<W>(d, 0, s);
    kani::assume(!lost && vc::dig(&e, d.len()) == 0);      // case: the shifted value keeps its digit count
    if d.is_empty() { BigUint::ZERO } else { vc::mk_from(&e[..d.len()]) }
}
fn shr_abs<T: num_traits::PrimInt>(n: alloc::borrow::Cow<'_, BigUint>, shift: T) -> BigUint {
    let s = shift.to_u32().unwrap_or(64);
    kani::assume(s < 64);
    let d = vc::digits(&n);
    let (e, _) = vc::ref_shr::<W>(d, 0, s);
    kani::assume(d.is_empty() || vc::dig(&e, d.len() - 1) != 0); // case: the shifted value keeps its digit count
    if d.is_empty() { BigUint::ZERO } else { vc::mk_from(&e[..d.len()]) }
}

// early exits: u = 0, u < d, u == d (no core call; nothing shifted)
macro_rules! early_shape {
    ($name:ident, $which:expr, $lu:expr, $ld:expr, $eq:expr) => {
        #[kani::proof]
        #[kani::unwind(34)]
        #[kani::stub(div_rem_core, core_c_1_1)]
        #[kani::stub(u64::leading_zeros, lz_7)]
        #[kani::stub(crate::biguint::verif_common::symbolic, crate::biguint::verif_common::yes)]
        #[kani::stub(alloc::vec::Vec::shrink_to_fit, vc::noop_shrink)]
        #[kani::stub(crate::biguint::shift::biguint_shl, shl_abs)]
        #[kani::stub(crate::biguint::shift::biguint_shr, shr_abs)]
        fn $name() {
            let u0: [u64; $lu] = vc::any_canon::<$lu>();
            let d0: [u64; $ld] = vc::any_canon::<$ld>();
            let c = vc::ref_cmp(&u0, &d0);
            kani::assume(if $eq { c == 0 } else { c < 0 });
            unsafe { GH_SHIFT = 7; GH_CORE_CALLS = 0; }
            let (q, r) = run_divrem($which, vc::mk_from(&u0), vc::mk_from(&d0));
            kani::assert(vc::is_canonical(&q) && vc::is_canonical(&r), "VERIF division result not canonical");
            if c < 0 {
                kani::assert(vc::digits(&q).is_empty() && vc::eq_window(vc::digits(&r), &u0), "VERIF u < d must give (0, u)");
            } else {
                kani::assert(vc::eq_window(vc::digits(&q), &[1]) && vc::digits(&r).is_empty(), "VERIF u == d must give (1, 0)");
            }
            kani::assert(!vc::symbolic() || unsafe { GH_CORE_CALLS } == 0, "VERIF early exit must not reach the core");
        }
    };
}

// ---- single-digit divisor: div_wide under contract, calls recorded
const MAXC: usize = 6;
static mut DW_HI: [u64; MAXC] = [0; MAXC];
static mut DW_LO: [u64; MAXC] = [0; MAXC];
static mut DW_Q: [u64; MAXC] = [0; MAXC];
static mut DW_R: [u64; MAXC] = [0; MAXC];
static mut DW_N: usize = 0;
fn div_wide_contract(hi: u64, lo: u64, divisor: u64) -> (u64, u64) {
    kani::assert(divisor != 0, "VERIF div_wide: divisor is zero (#DE)");
    kani::assert(hi < divisor, "VERIF div_wide: hi >= divisor (#DE quotient overflow)");
    let q: u64 = kani::any();
    let r: u64 = kani::any();
    kani::assume(r < divisor);
    // facts of the real quotient that callers rely on for canonical results: q = 0 iff the two-digit numerator is below the divisor
    kani::assume((q == 0) == (hi == 0 && lo < divisor));
    unsafe {
        kani::assume(DW_N < MAXC);
        DW_HI[DW_N] = hi;
        DW_LO[DW_N] = lo;
        DW_Q[DW_N] = q;
        DW_R[DW_N] = r;
        DW_N += 1;
    }
    (q, r)
}
macro_rules! digit_shape {
    ($name:ident, $l:expr) => {
        #[kani::proof]
        #[kani::unwind(34)]
        #[kani::stub(div_wide, div_wide_contract)]
        #[kani::stub(crate::biguint::verif_common::symbolic, crate::biguint::verif_common::yes)]
        #[kani::stub(alloc::vec::Vec::shrink_to_fit, vc::noop_shrink)]
        fn $name() {
            let a0: [u64; $l] = vc::any_canon::<$l>();
            let b: u64 = kani::any();
            kani::assume(b != 0);
            unsafe { DW_N = 0; }
            let (q, rem) = div_rem_digit(vc::mk_from(&a0), b);
            if !vc::symbolic() {
                let (eq, er) = ref_divrem(&a0, &[b]);
                kani::assert(vc::eq_window(vc::digits(&q), &eq) && rem == er[0] && vc::is_canonical(&q), "VERIF div_rem_digit: quotient digit misplaced / remainder chain broken");
                let r2 = rem_digit(&vc::mk_from(&a0), b);
                kani::assert(r2 == er[0], "VERIF rem_digit differs from div_rem_digit's remainder chain");
                return;
            }
            let n = unsafe { DW_N };
            kani::assert(n == $l, "VERIF div_rem_digit must divide once per digit");
            // most-significant digit first; the remainder of one step is the high half of the next
            let mut k = 0;
            while k < $l {
                let idx = $l - 1 - k;
                kani::assert(unsafe { DW_LO[k] } == a0[idx], "VERIF div_rem_digit: quotient digit misplaced / remainder chain broken");
                kani::assert(unsafe { DW_HI[k] } == if k == 0 { 0 } else { unsafe { DW_R[k - 1] } }, "VERIF div_rem_digit: quotient digit misplaced / remainder chain broken");
                kani::assert(vc::dig(vc::digits(&q), idx) == unsafe { DW_Q[k] }, "VERIF div_rem_digit: quotient digit misplaced / remainder chain broken");
                k += 1;
            }
            kani::assert($l == 0 || rem == unsafe { DW_R[$l - 1] }, "VERIF div_rem_digit: final remainder is not the last step's remainder");
            kani::assert(rem < b && vc::is_canonical(&q), "VERIF div_rem_digit: remainder >= divisor or quotient not canonical");
            // rem_digit: same chain, remainder only
            unsafe { DW_N = 0; }
            let r2 = rem_digit(&vc::mk_from(&a0), b);
            kani::assert(unsafe { DW_N } == $l && ($l == 0 || r2 == unsafe { DW_R[$l - 1] }), "VERIF rem_digit differs from div_rem_digit's remainder chain");
        }
    };
}
macro_rules! digit_zero_mp {
    ($name:ident, $which:expr) => {
        #[kani::proof]
        #[kani::unwind(34)]
        #[kani::stub(div_wide, div_wide_contract)]
        fn $name() {
            let a0: [u64; 2] = vc::any_canon::<2>();
            if $which == 0 {
                let _ = div_rem_digit(vc::mk_from(&a0), 0);
            } else if $which == 1 {
                let _ = rem_digit(&vc::mk_from(&a0), 0);
            } else if $which == 2 {
                let _ = div_rem(vc::mk_from(&a0), BigUint::ZERO);
            } else {
                let _ = div_rem_ref(&BigUint::ZERO, &BigUint::ZERO);
            }
            kani::assert(false, "VERIF_SURVIVED division by zero returned");
        }
    };
}
// single-digit divisor routed from div_rem / div_rem_ref (incl. the d == 1 shortcut)
macro_rules! single_route_shape {
    ($name:ident, $which:expr, $lu:expr) => {
        #[kani::proof]
        #[kani::unwind(34)]
        #[kani::stub(div_wide, div_wide_contract)]
        #[kani::stub(crate::biguint::verif_common::symbolic, crate::biguint::verif_common::yes)]
        #[kani::stub(alloc::vec::Vec::shrink_to_fit, vc::noop_shrink)]
        #[kani::stub(core::arch::x86_64::_addcarry_u64, vc::stub_addcarry)]
        #[kani::stub(crate::biguint::addition::schoolbook_add_assign_x86_64, vc::model_add)]
        fn $name() {
            let u0: [u64; $lu] = vc::any_canon::<$lu>();
            let b: u64 = kani::any();
            kani::assume(b != 0);
            unsafe { DW_N = 0; }
            let (q, r) = run_divrem($which, vc::mk_from(&u0), vc::mk_from(&[b]));
            kani::assert(vc::is_canonical(&q) && vc::is_canonical(&r), "VERIF division result not canonical");
            if !vc::symbolic() {
                let (eq, er) = ref_divrem(&u0, &[b]);
                kani::assert(vc::eq_window(vc::digits(&q), &eq) && vc::eq_window(vc::digits(&r), &er), "VERIF single-digit division routed wrongly");
                return;
            }
            if b == 1 {
                kani::assert(unsafe { DW_N } == 0 && vc::eq_window(vc::digits(&q), &u0) && vc::digits(&r).is_empty(), "VERIF u / 1 must be (u, 0)");
            } else {
                kani::assert(unsafe { DW_N } == $lu, "VERIF single-digit division routed wrongly");
                kani::assert(vc::eq_window(vc::digits(&r), &[unsafe { DW_R[$lu - 1] }]), "VERIF single-digit division routed wrongly");
                kani::assert(vc::dig(vc::digits(&q), 0) == unsafe { DW_Q[$lu - 1] }, "VERIF single-digit division routed wrongly");
            }
        }
    };
}

// BEGIN GENERATED c03_biguint_division
wrapper_shape!(c03_t_wrap_ref_2_2_q1_r2_s0, BY_REF, 2, 2, core_c_1_2, lz_0);
wrapper_shape!(c03_t_wrap_ref_2_2_q1_r2_s1, BY_REF, 2, 2, core_c_1_2, lz_1);
wrapper_shape!(c03_t_wrap_ref_2_2_q1_r2_s63, BY_REF, 2, 2, core_c_1_2, lz_63);
wrapper_shape!(c03_t_wrap_ref_3_2_q2_r1_s0, BY_REF, 3, 2, core_c_2_1, lz_0);
wrapper_shape!(c03_t_wrap_ref_3_2_q2_r1_s1, BY_REF, 3, 2, core_c_2_1, lz_1);
wrapper_shape!(c03_t_wrap_ref_3_2_q2_r1_s63, BY_REF, 3, 2, core_c_2_1, lz_63);
wrapper_shape!(c03_t_wrap_val_2_2_q1_r2_s0, BY_VAL, 2, 2, core_c_1_2, lz_0);
wrapper_shape!(c03_t_wrap_val_2_2_q1_r2_s1, BY_VAL, 2, 2, core_c_1_2, lz_1);
wrapper_shape!(c03_t_wrap_val_2_2_q1_r2_s63, BY_VAL, 2, 2, core_c_1_2, lz_63);
wrapper_shape!(c03_t_wrap_val_3_2_q2_r1_s0, BY_VAL, 3, 2, core_c_2_1, lz_0);
wrapper_shape!(c03_t_wrap_val_3_2_q2_r1_s1, BY_VAL, 3, 2, core_c_2_1, lz_1);
wrapper_shape!(c03_t_wrap_val_3_2_q2_r1_s63, BY_VAL, 3, 2, core_c_2_1, lz_63);
// END GENERATED
early_shape!(c03_q_early_ref_1_2_lt, BY_REF, 1, 2, false);
early_shape!(c03_t_early_ref_2_2_lt, BY_REF, 2, 2, false);
early_shape!(c03_t_early_ref_2_2_eq, BY_REF, 2, 2, true);
early_shape!(c03_q_early_val_1_2_lt, BY_VAL, 1, 2, false);
early_shape!(c03_t_early_val_2_2_lt, BY_VAL, 2, 2, false);
early_shape!(c03_t_early_val_2_2_eq, BY_VAL, 2, 2, true);
early_shape!(c03_q_early_val_2_3_lt, BY_VAL, 2, 3, false);
early_shape!(c03_t_early_ref_3_3_lt, BY_REF, 3, 3, false);
early_shape!(c03_t_early_ref_3_3_eq, BY_REF, 3, 3, true);
early_shape!(c03_q_early_val_0_2_lt, BY_VAL, 0, 2, false);
early_shape!(c03_q_early_ref_0_2_lt, BY_REF, 0, 2, false);
digit_shape!(c03_q_digit_1, 1);
digit_shape!(c03_q_digit_2, 2);
digit_shape!(c03_q_digit_3, 3);
digit_shape!(c03_t_digit_4, 4);
digit_zero_mp!(c03_q_digit_zero_0_mp, 0);
digit_zero_mp!(c03_q_digit_zero_1_mp, 1);
digit_zero_mp!(c03_q_digit_zero_2_mp, 2);
digit_zero_mp!(c03_q_digit_zero_3_mp, 3);
single_route_shape!(c03_q_single_ref_2, BY_REF, 2);
single_route_shape!(c03_q_single_val_2, BY_VAL, 2);
single_route_shape!(c03_q_single_val_1, BY_VAL, 1);

// The Knuth-D core itself, REAL code, with a CONCRETE (pinned) two-digit normalised divisor and an arbitrary three-digit dividend:
// every multiplication in the core and in the oracle is then symbolic x constant. Two quotient digits, so the second round starts
// with a carried top digit a0 (possibly a0 == b0: the saturated-estimate branch). div_wide (asm) is under its exact product contract,
// which with a constant divisor is linear. Oracle: r < b and q * b + r == a in a 4-word window.
fn div_wide_product_contract(hi: u64, lo: u64, divisor: u64) -> (u64, u64) {
    kani::assert(divisor != 0, "VERIF div_wide: divisor is zero (#DE)");
    kani::assert(hi < divisor, "VERIF div_wide: hi >= divisor (#DE quotient overflow)");
    let q: u64 = kani::any();
    let r: u64 = kani::any();
    kani::assume(r < divisor);
    kani::assume((q as u128) * (divisor as u128) + (r as u128) == (((hi as u128) << 64) | lo as u128));
    (q, r)
}
macro_rules! core_pinned_shape {
    ($name:ident, $b1:expr, $b0:expr, $pre:expr) => {
        #[kani::proof]
        #[kani::unwind(8)]
        #[kani::stub(div_wide, div_wide_product_contract)]
        #[kani::stub(alloc::vec::Vec::shrink_to_fit, vc::noop_shrink)]
        #[kani::stub(core::arch::x86_64::_addcarry_u64, vc::stub_addcarry)]
        #[kani::stub(crate::biguint::addition::schoolbook_add_assign_x86_64, vc::model_add)]
        fn $name() {
            let a0: [u64; 3] = vc::any_canon::<3>();
            kani::assume(($pre)(&a0));
            let b: [u64; 2] = [$b1, $b0];
            let (q, r) = div_rem_core(vc::mk_from(&a0), &b);
            kani::assert(vc::is_canonical(&q) && vc::is_canonical(&r), "VERIF div_rem_core result not canonical");
            kani::assert(vc::ref_cmp(vc::digits(&r), &b) < 0, "VERIF div_rem_core remainder is not below the divisor");
            let qd = [vc::dig(vc::digits(&q), 0), vc::dig(vc::digits(&q), 1)];
            kani::assert(vc::digits(&q).len() <= 2, "VERIF div_rem_core quotient too long");
            let prod = vc::ref_mul::<4>(&qd, &b);
            let (sum, carry) = vc::ref_add::<4>(&prod, vc::digits(&r));
            kani::assert(!carry && vc::eq_window(&sum, &a0), "VERIF div_rem_core: q * b + r != a");
        }
    };
}
// b0 < b1 (the carried digit can equal b0 while the next one is small), all-ones divisor, minimal normalised divisor.
// Arbitrary three-digit dividends are a divider-verification problem that did not finish in 240 s except for the sparsest divisor
// (thorough tier); the quick tier pins the TOP dividend digit to b0, which is exactly the class in which the second round can start
// with a0 == b0 (first quotient digit 0 or 1, saturated estimate in the second round), the two lower digits arbitrary.
core_pinned_shape!(c03_q_core_pinned_8000_0001, 0x0000_0000_0000_0001, 0x8000_0000_0000_0000, |_a: &[u64; 3]| true);
core_pinned_shape!(c03_q_core_top_8000_ffff, 0xFFFF_FFFF_FFFF_FFFF, 0x8000_0000_0000_0000, |a: &[u64; 3]| a[2] == 0x8000_0000_0000_0000);
core_pinned_shape!(c03_q_core_top_ffff_ffff, 0xFFFF_FFFF_FFFF_FFFF, 0xFFFF_FFFF_FFFF_FFFF, |a: &[u64; 3]| a[2] == 0xFFFF_FFFF_FFFF_FFFF);
core_pinned_shape!(c03_q_core_top_c3a5_9e37, 0x9E37_79B9_7F4A_7C15, 0xC3A5_C85C_97CB_3127, |a: &[u64; 3]| a[2] == 0xC3A5_C85C_97CB_3127);
core_pinned_shape!(c03_t_core_pinned_8000_ffff, 0xFFFF_FFFF_FFFF_FFFF, 0x8000_0000_0000_0000, |_a: &[u64; 3]| true);
core_pinned_shape!(c03_t_core_pinned_ffff_ffff, 0xFFFF_FFFF_FFFF_FFFF, 0xFFFF_FFFF_FFFF_FFFF, |_a: &[u64; 3]| true);
core_pinned_shape!(c03_t_core_pinned_c3a5_9e37, 0x9E37_79B9_7F4A_7C15, 0xC3A5_C85C_97CB_3127, |_a: &[u64; 3]| true);
