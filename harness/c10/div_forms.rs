// C10 — scalar division / remainder forms of BigInt (anchored in src/bigint/division.rs): the forwarding layer (promotion casts, checked_uabs at MIN,
// sign handling, which unsigned routine receives which operands) is decided with the unsigned division routines replaced by RECORDERS.
#![allow(unused_imports, dead_code, static_mut_refs)]
use super::*;
use crate::bigint::verif_icommon::*;
use crate::biguint::verif_common as vc;
use crate::biguint::BigUint;
use alloc::{vec, vec::Vec};

static mut REC_U: [u64; 3] = [0; 3];
static mut REC_D: [u64; 3] = [0; 3];
static mut REC_CALLS: u32 = 0;
const CANNED_Q: u64 = 7;
const CANNED_R: u64 = 3;
fn rec(u: &[u64], d: &[u64]) {
    unsafe {
        REC_CALLS += 1;
        REC_U = [vc::dig(u, 0), vc::dig(u, 1), vc::dig(u, 2)];
        REC_D = [vc::dig(d, 0), vc::dig(d, 1), vc::dig(d, 2)];
    }
}
fn div_rem_rec(u: BigUint, d: BigUint) -> (BigUint, BigUint) {
    if vc::digits(&d).is_empty() { panic!("attempt to divide by zero") }
    rec(vc::digits(&u), vc::digits(&d));
    (vc::mk_from(&[CANNED_Q]), vc::mk_from(&[CANNED_R]))
}
fn div_rem_ref_rec(u: &BigUint, d: &BigUint) -> (BigUint, BigUint) {
    if vc::digits(d).is_empty() { panic!("attempt to divide by zero") }
    rec(vc::digits(u), vc::digits(d));
    (vc::mk_from(&[CANNED_Q]), vc::mk_from(&[CANNED_R]))
}
fn div_rem_digit_rec(a: BigUint, b: u64) -> (BigUint, u64) {
    if b == 0 { panic!("attempt to divide by zero") }
    rec(vc::digits(&a), &[b]);
    (vc::mk_from(&[CANNED_Q]), CANNED_R)
}
fn rem_digit_rec(a: &BigUint, b: u64) -> u64 {
    if b == 0 { panic!("attempt to divide by zero") }
    rec(vc::digits(a), &[b]);
    CANNED_R
}
/// native reference: shift-subtract division on a 3-digit window
fn ref_divrem3(u: &[u64], d: &[u64]) -> ([u64; 3], [u64; 3]) {
    let mut q = [0u64; 3];
    let mut r = [0u64; 3];
    let mut i = 192usize;
    while i > 0 {
        i -= 1;
        let (mut r2, _) = vc::ref_shl::<3>(&r, 0, 1);
        if vc::ref_bit(u, i as u64) { r2[0] |= 1; }
        if vc::ref_cmp(&r2, d) >= 0 {
            r2 = vc::ref_sub::<3>(&r2, d).0;
            q[i / 64] |= 1u64 << (i % 64);
        }
        r = r2;
    }
    (q, r)
}

// big op scalar (/, %, /=, %=): the unsigned routine must receive (|a|, |s|) and the result carries the truncated-division sign
macro_rules! big_by_scalar {
    ($name:ident, $neg:expr, $l:expr, $T:ty, $rem:expr, |$a:ident, $s:ident| $e:expr) => {
        #[kani::proof]
        #[kani::unwind(34)]
        #[kani::stub(crate::biguint::division::div_rem, div_rem_rec)]
        #[kani::stub(crate::biguint::division::div_rem_ref, div_rem_ref_rec)]
        #[kani::stub(crate::biguint::division::div_rem_digit, div_rem_digit_rec)]
        #[kani::stub(crate::biguint::division::rem_digit, rem_digit_rec)]
        #[kani::stub(crate::biguint::verif_common::symbolic, crate::biguint::verif_common::yes)]
        fn $name() {
            let a0: [u64; $l] = vc::any_canon::<$l>();
            let $s: $T = kani::any();
            kani::assume($s != 0);
            let wide = $s as i128;
            let sneg = <$T>::MIN != 0 && wide < 0;
            let magn: u128 = if sneg { wide.unsigned_abs() } else { $s as u128 };
            let mw = [magn as u64, (magn >> 64) as u64, 0];
            let $a = mkint($neg, &a0);
            unsafe { REC_CALLS = 0; }
            let r: BigInt = $e;
            kani::assert(int_canonical(&r), "VERIF scalar division form: result not canonical");
            if !vc::symbolic() {
                let (q, rm) = ref_divrem3(&a0, &mw);
                let e = if $rem { rm } else { q };
                let eneg = if $rem { $neg } else { $neg != sneg };
                kani::assert(vc::eq_window(mag(&r), &e) && (vc::ref_is_zero(&e) || is_neg(&r) == eneg), "VERIF scalar division form differs from the truncated quotient/remainder (native replay)");
                return;
            }
            kani::assert(unsafe { REC_CALLS } == 1, "VERIF scalar division form must perform exactly one unsigned division");
            kani::assert(vc::eq_window(unsafe { &REC_U }, &a0), "VERIF scalar division form: dividend handed to the unsigned routine is not |a|");
            kani::assert(unsafe { REC_D } == mw, "VERIF scalar division form: divisor handed to the unsigned routine is not |s| (lossy promotion?)");
            let (ev, eneg) = if $rem { (CANNED_R, $neg) } else { (CANNED_Q, $neg != sneg) };
            kani::assert(vc::eq_window(mag(&r), &[ev]) && is_neg(&r) == eneg, "VERIF scalar division form: sign or value of the wrapped result");
        }
    };
}
// scalar / big and scalar % big with a ONE-digit big operand: primitive division inside; oracle by the same primitive operation
macro_rules! scalar_by_big {
    ($name:ident, $neg:expr, $T:ty, $rem:expr, $hi:expr, |$a:ident, $s:ident| $e:expr) => {
        #[kani::proof]
        #[kani::unwind(34)]
        fn $name() {
            let a0: [u64; 1] = vc::any_canon::<1>();
            // two classes of the divisor: below 2^BITS-1 of the scalar type (primitive division on both sides) / at or above it (quotient 0 or 1)
            let lim: u64 = 1u64 << (<$T>::BITS - 1);
            kani::assume(if $hi { a0[0] >= lim } else { a0[0] < lim });
            let $s: $T = kani::any();
            let wide = $s as i128;
            let sneg = <$T>::MIN != 0 && wide < 0;
            let magn: u64 = (if sneg { wide.unsigned_abs() } else { $s as u128 }) as u64;
            let $a = mkint($neg, &a0);
            let r: BigInt = $e;
            kani::assert(int_canonical(&r), "VERIF scalar-on-the-left division form: result not canonical");
            // class split avoids a second wide division in the oracle: for a divisor >= 2^63 the quotient is 0 or 1
            let (q, rm) = if $hi { if magn >= a0[0] { (1u64, magn - a0[0]) } else { (0u64, magn) } } else { (magn / a0[0], magn % a0[0]) };
            let (ev, eneg) = if $rem { (rm, sneg) } else { (q, sneg != $neg) };
            kani::assert(vc::eq_window(mag(&r), &[ev]) && (ev == 0 || is_neg(&r) == eneg), "VERIF scalar-on-the-left division form differs from the truncated quotient/remainder");
        }
    };
}

// BEGIN GENERATED c10_div_forms
big_by_scalar!(c10_t_div_u8_p1, false, 1, u8, false, |a, s| a / s);
big_by_scalar!(c10_t_diva_u8_p1, false, 1, u8, false, |a, s| { let mut x = a; x /= s; x });
big_by_scalar!(c10_t_rem_u8_p1, false, 1, u8, true, |a, s| a % s);
big_by_scalar!(c10_t_rema_u8_p1, false, 1, u8, true, |a, s| { let mut x = a; x %= s; x });
big_by_scalar!(c10_t_div_u8_p2, false, 2, u8, false, |a, s| a / s);
big_by_scalar!(c10_t_divr_u8_p2, false, 2, u8, false, |a, s| &a / s);
big_by_scalar!(c10_t_diva_u8_p2, false, 2, u8, false, |a, s| { let mut x = a; x /= s; x });
big_by_scalar!(c10_t_rem_u8_p2, false, 2, u8, true, |a, s| a % s);
big_by_scalar!(c10_t_rema_u8_p2, false, 2, u8, true, |a, s| { let mut x = a; x %= s; x });
big_by_scalar!(c10_t_div_u8_m1, true, 1, u8, false, |a, s| a / s);
big_by_scalar!(c10_t_diva_u8_m1, true, 1, u8, false, |a, s| { let mut x = a; x /= s; x });
big_by_scalar!(c10_t_rem_u8_m1, true, 1, u8, true, |a, s| a % s);
big_by_scalar!(c10_t_rema_u8_m1, true, 1, u8, true, |a, s| { let mut x = a; x %= s; x });
big_by_scalar!(c10_t_div_u8_m2, true, 2, u8, false, |a, s| a / s);
big_by_scalar!(c10_t_divr_u8_m2, true, 2, u8, false, |a, s| &a / s);
big_by_scalar!(c10_t_diva_u8_m2, true, 2, u8, false, |a, s| { let mut x = a; x /= s; x });
big_by_scalar!(c10_t_rem_u8_m2, true, 2, u8, true, |a, s| a % s);
big_by_scalar!(c10_t_rema_u8_m2, true, 2, u8, true, |a, s| { let mut x = a; x %= s; x });
big_by_scalar!(c10_t_div_u32_p1, false, 1, u32, false, |a, s| a / s);
big_by_scalar!(c10_t_diva_u32_p1, false, 1, u32, false, |a, s| { let mut x = a; x /= s; x });
big_by_scalar!(c10_t_rem_u32_p1, false, 1, u32, true, |a, s| a % s);
big_by_scalar!(c10_t_rema_u32_p1, false, 1, u32, true, |a, s| { let mut x = a; x %= s; x });
big_by_scalar!(c10_t_div_u32_p2, false, 2, u32, false, |a, s| a / s);
big_by_scalar!(c10_t_divr_u32_p2, false, 2, u32, false, |a, s| &a / s);
big_by_scalar!(c10_t_diva_u32_p2, false, 2, u32, false, |a, s| { let mut x = a; x /= s; x });
big_by_scalar!(c10_t_rem_u32_p2, false, 2, u32, true, |a, s| a % s);
big_by_scalar!(c10_t_rema_u32_p2, false, 2, u32, true, |a, s| { let mut x = a; x %= s; x });
big_by_scalar!(c10_t_div_u32_m1, true, 1, u32, false, |a, s| a / s);
big_by_scalar!(c10_t_diva_u32_m1, true, 1, u32, false, |a, s| { let mut x = a; x /= s; x });
big_by_scalar!(c10_t_rem_u32_m1, true, 1, u32, true, |a, s| a % s);
big_by_scalar!(c10_t_rema_u32_m1, true, 1, u32, true, |a, s| { let mut x = a; x %= s; x });
big_by_scalar!(c10_q_div_u32_m2, true, 2, u32, false, |a, s| a / s);
big_by_scalar!(c10_t_divr_u32_m2, true, 2, u32, false, |a, s| &a / s);
big_by_scalar!(c10_q_diva_u32_m2, true, 2, u32, false, |a, s| { let mut x = a; x /= s; x });
big_by_scalar!(c10_t_rem_u32_m2, true, 2, u32, true, |a, s| a % s);
big_by_scalar!(c10_q_rema_u32_m2, true, 2, u32, true, |a, s| { let mut x = a; x %= s; x });
big_by_scalar!(c10_t_div_u64_p1, false, 1, u64, false, |a, s| a / s);
big_by_scalar!(c10_t_diva_u64_p1, false, 1, u64, false, |a, s| { let mut x = a; x /= s; x });
big_by_scalar!(c10_t_rem_u64_p1, false, 1, u64, true, |a, s| a % s);
big_by_scalar!(c10_t_rema_u64_p1, false, 1, u64, true, |a, s| { let mut x = a; x %= s; x });
big_by_scalar!(c10_t_div_u64_p2, false, 2, u64, false, |a, s| a / s);
big_by_scalar!(c10_t_divr_u64_p2, false, 2, u64, false, |a, s| &a / s);
big_by_scalar!(c10_t_diva_u64_p2, false, 2, u64, false, |a, s| { let mut x = a; x /= s; x });
big_by_scalar!(c10_t_rem_u64_p2, false, 2, u64, true, |a, s| a % s);
big_by_scalar!(c10_t_rema_u64_p2, false, 2, u64, true, |a, s| { let mut x = a; x %= s; x });
big_by_scalar!(c10_t_div_u64_m1, true, 1, u64, false, |a, s| a / s);
big_by_scalar!(c10_t_diva_u64_m1, true, 1, u64, false, |a, s| { let mut x = a; x /= s; x });
big_by_scalar!(c10_t_rem_u64_m1, true, 1, u64, true, |a, s| a % s);
big_by_scalar!(c10_t_rema_u64_m1, true, 1, u64, true, |a, s| { let mut x = a; x %= s; x });
big_by_scalar!(c10_t_div_u64_m2, true, 2, u64, false, |a, s| a / s);
big_by_scalar!(c10_t_divr_u64_m2, true, 2, u64, false, |a, s| &a / s);
big_by_scalar!(c10_t_diva_u64_m2, true, 2, u64, false, |a, s| { let mut x = a; x /= s; x });
big_by_scalar!(c10_t_rem_u64_m2, true, 2, u64, true, |a, s| a % s);
big_by_scalar!(c10_t_rema_u64_m2, true, 2, u64, true, |a, s| { let mut x = a; x %= s; x });
big_by_scalar!(c10_t_div_usize_p1, false, 1, usize, false, |a, s| a / s);
big_by_scalar!(c10_t_diva_usize_p1, false, 1, usize, false, |a, s| { let mut x = a; x /= s; x });
big_by_scalar!(c10_t_rem_usize_p1, false, 1, usize, true, |a, s| a % s);
big_by_scalar!(c10_t_rema_usize_p1, false, 1, usize, true, |a, s| { let mut x = a; x %= s; x });
big_by_scalar!(c10_t_div_usize_p2, false, 2, usize, false, |a, s| a / s);
big_by_scalar!(c10_t_divr_usize_p2, false, 2, usize, false, |a, s| &a / s);
big_by_scalar!(c10_t_diva_usize_p2, false, 2, usize, false, |a, s| { let mut x = a; x /= s; x });
big_by_scalar!(c10_t_rem_usize_p2, false, 2, usize, true, |a, s| a % s);
big_by_scalar!(c10_t_rema_usize_p2, false, 2, usize, true, |a, s| { let mut x = a; x %= s; x });
big_by_scalar!(c10_t_div_usize_m1, true, 1, usize, false, |a, s| a / s);
big_by_scalar!(c10_t_diva_usize_m1, true, 1, usize, false, |a, s| { let mut x = a; x /= s; x });
big_by_scalar!(c10_t_rem_usize_m1, true, 1, usize, true, |a, s| a % s);
big_by_scalar!(c10_t_rema_usize_m1, true, 1, usize, true, |a, s| { let mut x = a; x %= s; x });
big_by_scalar!(c10_q_div_usize_m2, true, 2, usize, false, |a, s| a / s);
big_by_scalar!(c10_t_divr_usize_m2, true, 2, usize, false, |a, s| &a / s);
big_by_scalar!(c10_q_diva_usize_m2, true, 2, usize, false, |a, s| { let mut x = a; x /= s; x });
big_by_scalar!(c10_t_rem_usize_m2, true, 2, usize, true, |a, s| a % s);
big_by_scalar!(c10_q_rema_usize_m2, true, 2, usize, true, |a, s| { let mut x = a; x %= s; x });
big_by_scalar!(c10_t_div_u128_p1, false, 1, u128, false, |a, s| a / s);
big_by_scalar!(c10_t_diva_u128_p1, false, 1, u128, false, |a, s| { let mut x = a; x /= s; x });
big_by_scalar!(c10_t_rem_u128_p1, false, 1, u128, true, |a, s| a % s);
big_by_scalar!(c10_t_rema_u128_p1, false, 1, u128, true, |a, s| { let mut x = a; x %= s; x });
big_by_scalar!(c10_t_div_u128_p2, false, 2, u128, false, |a, s| a / s);
big_by_scalar!(c10_t_divr_u128_p2, false, 2, u128, false, |a, s| &a / s);
big_by_scalar!(c10_t_diva_u128_p2, false, 2, u128, false, |a, s| { let mut x = a; x /= s; x });
big_by_scalar!(c10_t_rem_u128_p2, false, 2, u128, true, |a, s| a % s);
big_by_scalar!(c10_t_rema_u128_p2, false, 2, u128, true, |a, s| { let mut x = a; x %= s; x });
big_by_scalar!(c10_t_div_u128_m1, true, 1, u128, false, |a, s| a / s);
big_by_scalar!(c10_t_diva_u128_m1, true, 1, u128, false, |a, s| { let mut x = a; x /= s; x });
big_by_scalar!(c10_t_rem_u128_m1, true, 1, u128, true, |a, s| a % s);
big_by_scalar!(c10_t_rema_u128_m1, true, 1, u128, true, |a, s| { let mut x = a; x %= s; x });
big_by_scalar!(c10_q_div_u128_m2, true, 2, u128, false, |a, s| a / s);
big_by_scalar!(c10_t_divr_u128_m2, true, 2, u128, false, |a, s| &a / s);
big_by_scalar!(c10_q_diva_u128_m2, true, 2, u128, false, |a, s| { let mut x = a; x /= s; x });
big_by_scalar!(c10_t_rem_u128_m2, true, 2, u128, true, |a, s| a % s);
big_by_scalar!(c10_q_rema_u128_m2, true, 2, u128, true, |a, s| { let mut x = a; x %= s; x });
big_by_scalar!(c10_t_div_i8_p1, false, 1, i8, false, |a, s| a / s);
big_by_scalar!(c10_t_diva_i8_p1, false, 1, i8, false, |a, s| { let mut x = a; x /= s; x });
big_by_scalar!(c10_t_rem_i8_p1, false, 1, i8, true, |a, s| a % s);
big_by_scalar!(c10_t_rema_i8_p1, false, 1, i8, true, |a, s| { let mut x = a; x %= s; x });
big_by_scalar!(c10_t_div_i8_p2, false, 2, i8, false, |a, s| a / s);
big_by_scalar!(c10_t_divr_i8_p2, false, 2, i8, false, |a, s| &a / s);
big_by_scalar!(c10_t_diva_i8_p2, false, 2, i8, false, |a, s| { let mut x = a; x /= s; x });
big_by_scalar!(c10_t_rem_i8_p2, false, 2, i8, true, |a, s| a % s);
big_by_scalar!(c10_t_rema_i8_p2, false, 2, i8, true, |a, s| { let mut x = a; x %= s; x });
big_by_scalar!(c10_t_div_i8_m1, true, 1, i8, false, |a, s| a / s);
big_by_scalar!(c10_t_diva_i8_m1, true, 1, i8, false, |a, s| { let mut x = a; x /= s; x });
big_by_scalar!(c10_t_rem_i8_m1, true, 1, i8, true, |a, s| a % s);
big_by_scalar!(c10_t_rema_i8_m1, true, 1, i8, true, |a, s| { let mut x = a; x %= s; x });
big_by_scalar!(c10_t_div_i8_m2, true, 2, i8, false, |a, s| a / s);
big_by_scalar!(c10_t_divr_i8_m2, true, 2, i8, false, |a, s| &a / s);
big_by_scalar!(c10_t_diva_i8_m2, true, 2, i8, false, |a, s| { let mut x = a; x /= s; x });
big_by_scalar!(c10_t_rem_i8_m2, true, 2, i8, true, |a, s| a % s);
big_by_scalar!(c10_t_rema_i8_m2, true, 2, i8, true, |a, s| { let mut x = a; x %= s; x });
big_by_scalar!(c10_t_div_i32_p1, false, 1, i32, false, |a, s| a / s);
big_by_scalar!(c10_t_diva_i32_p1, false, 1, i32, false, |a, s| { let mut x = a; x /= s; x });
big_by_scalar!(c10_t_rem_i32_p1, false, 1, i32, true, |a, s| a % s);
big_by_scalar!(c10_t_rema_i32_p1, false, 1, i32, true, |a, s| { let mut x = a; x %= s; x });
big_by_scalar!(c10_t_div_i32_p2, false, 2, i32, false, |a, s| a / s);
big_by_scalar!(c10_t_divr_i32_p2, false, 2, i32, false, |a, s| &a / s);
big_by_scalar!(c10_t_diva_i32_p2, false, 2, i32, false, |a, s| { let mut x = a; x /= s; x });
big_by_scalar!(c10_t_rem_i32_p2, false, 2, i32, true, |a, s| a % s);
big_by_scalar!(c10_t_rema_i32_p2, false, 2, i32, true, |a, s| { let mut x = a; x %= s; x });
big_by_scalar!(c10_t_div_i32_m1, true, 1, i32, false, |a, s| a / s);
big_by_scalar!(c10_t_diva_i32_m1, true, 1, i32, false, |a, s| { let mut x = a; x /= s; x });
big_by_scalar!(c10_t_rem_i32_m1, true, 1, i32, true, |a, s| a % s);
big_by_scalar!(c10_t_rema_i32_m1, true, 1, i32, true, |a, s| { let mut x = a; x %= s; x });
big_by_scalar!(c10_t_div_i32_m2, true, 2, i32, false, |a, s| a / s);
big_by_scalar!(c10_t_divr_i32_m2, true, 2, i32, false, |a, s| &a / s);
big_by_scalar!(c10_t_diva_i32_m2, true, 2, i32, false, |a, s| { let mut x = a; x /= s; x });
big_by_scalar!(c10_t_rem_i32_m2, true, 2, i32, true, |a, s| a % s);
big_by_scalar!(c10_t_rema_i32_m2, true, 2, i32, true, |a, s| { let mut x = a; x %= s; x });
big_by_scalar!(c10_t_div_i64_p1, false, 1, i64, false, |a, s| a / s);
big_by_scalar!(c10_t_diva_i64_p1, false, 1, i64, false, |a, s| { let mut x = a; x /= s; x });
big_by_scalar!(c10_t_rem_i64_p1, false, 1, i64, true, |a, s| a % s);
big_by_scalar!(c10_t_rema_i64_p1, false, 1, i64, true, |a, s| { let mut x = a; x %= s; x });
big_by_scalar!(c10_q_div_i64_p2, false, 2, i64, false, |a, s| a / s);
big_by_scalar!(c10_t_divr_i64_p2, false, 2, i64, false, |a, s| &a / s);
big_by_scalar!(c10_q_diva_i64_p2, false, 2, i64, false, |a, s| { let mut x = a; x /= s; x });
big_by_scalar!(c10_t_rem_i64_p2, false, 2, i64, true, |a, s| a % s);
big_by_scalar!(c10_q_rema_i64_p2, false, 2, i64, true, |a, s| { let mut x = a; x %= s; x });
big_by_scalar!(c10_t_div_i64_m1, true, 1, i64, false, |a, s| a / s);
big_by_scalar!(c10_t_diva_i64_m1, true, 1, i64, false, |a, s| { let mut x = a; x /= s; x });
big_by_scalar!(c10_t_rem_i64_m1, true, 1, i64, true, |a, s| a % s);
big_by_scalar!(c10_t_rema_i64_m1, true, 1, i64, true, |a, s| { let mut x = a; x %= s; x });
big_by_scalar!(c10_q_div_i64_m2, true, 2, i64, false, |a, s| a / s);
big_by_scalar!(c10_t_divr_i64_m2, true, 2, i64, false, |a, s| &a / s);
big_by_scalar!(c10_q_diva_i64_m2, true, 2, i64, false, |a, s| { let mut x = a; x /= s; x });
big_by_scalar!(c10_t_rem_i64_m2, true, 2, i64, true, |a, s| a % s);
big_by_scalar!(c10_q_rema_i64_m2, true, 2, i64, true, |a, s| { let mut x = a; x %= s; x });
big_by_scalar!(c10_t_div_isize_p1, false, 1, isize, false, |a, s| a / s);
big_by_scalar!(c10_t_diva_isize_p1, false, 1, isize, false, |a, s| { let mut x = a; x /= s; x });
big_by_scalar!(c10_t_rem_isize_p1, false, 1, isize, true, |a, s| a % s);
big_by_scalar!(c10_t_rema_isize_p1, false, 1, isize, true, |a, s| { let mut x = a; x %= s; x });
big_by_scalar!(c10_t_div_isize_p2, false, 2, isize, false, |a, s| a / s);
big_by_scalar!(c10_t_divr_isize_p2, false, 2, isize, false, |a, s| &a / s);
big_by_scalar!(c10_t_diva_isize_p2, false, 2, isize, false, |a, s| { let mut x = a; x /= s; x });
big_by_scalar!(c10_t_rem_isize_p2, false, 2, isize, true, |a, s| a % s);
big_by_scalar!(c10_t_rema_isize_p2, false, 2, isize, true, |a, s| { let mut x = a; x %= s; x });
big_by_scalar!(c10_t_div_isize_m1, true, 1, isize, false, |a, s| a / s);
big_by_scalar!(c10_t_diva_isize_m1, true, 1, isize, false, |a, s| { let mut x = a; x /= s; x });
big_by_scalar!(c10_t_rem_isize_m1, true, 1, isize, true, |a, s| a % s);
big_by_scalar!(c10_t_rema_isize_m1, true, 1, isize, true, |a, s| { let mut x = a; x %= s; x });
big_by_scalar!(c10_t_div_isize_m2, true, 2, isize, false, |a, s| a / s);
big_by_scalar!(c10_t_divr_isize_m2, true, 2, isize, false, |a, s| &a / s);
big_by_scalar!(c10_t_diva_isize_m2, true, 2, isize, false, |a, s| { let mut x = a; x /= s; x });
big_by_scalar!(c10_t_rem_isize_m2, true, 2, isize, true, |a, s| a % s);
big_by_scalar!(c10_t_rema_isize_m2, true, 2, isize, true, |a, s| { let mut x = a; x %= s; x });
big_by_scalar!(c10_t_div_i128_p1, false, 1, i128, false, |a, s| a / s);
big_by_scalar!(c10_t_diva_i128_p1, false, 1, i128, false, |a, s| { let mut x = a; x /= s; x });
big_by_scalar!(c10_t_rem_i128_p1, false, 1, i128, true, |a, s| a % s);
big_by_scalar!(c10_t_rema_i128_p1, false, 1, i128, true, |a, s| { let mut x = a; x %= s; x });
big_by_scalar!(c10_q_div_i128_p2, false, 2, i128, false, |a, s| a / s);
big_by_scalar!(c10_t_divr_i128_p2, false, 2, i128, false, |a, s| &a / s);
big_by_scalar!(c10_q_diva_i128_p2, false, 2, i128, false, |a, s| { let mut x = a; x /= s; x });
big_by_scalar!(c10_t_rem_i128_p2, false, 2, i128, true, |a, s| a % s);
big_by_scalar!(c10_q_rema_i128_p2, false, 2, i128, true, |a, s| { let mut x = a; x %= s; x });
big_by_scalar!(c10_t_div_i128_m1, true, 1, i128, false, |a, s| a / s);
big_by_scalar!(c10_t_diva_i128_m1, true, 1, i128, false, |a, s| { let mut x = a; x /= s; x });
big_by_scalar!(c10_t_rem_i128_m1, true, 1, i128, true, |a, s| a % s);
big_by_scalar!(c10_t_rema_i128_m1, true, 1, i128, true, |a, s| { let mut x = a; x %= s; x });
big_by_scalar!(c10_q_div_i128_m2, true, 2, i128, false, |a, s| a / s);
big_by_scalar!(c10_t_divr_i128_m2, true, 2, i128, false, |a, s| &a / s);
big_by_scalar!(c10_q_diva_i128_m2, true, 2, i128, false, |a, s| { let mut x = a; x /= s; x });
big_by_scalar!(c10_t_rem_i128_m2, true, 2, i128, true, |a, s| a % s);
big_by_scalar!(c10_q_rema_i128_m2, true, 2, i128, true, |a, s| { let mut x = a; x %= s; x });
scalar_by_big!(c10_q_sdiv_i8_p1_hi, false, i8, false, true, |a, s| s / a);
scalar_by_big!(c10_t_sdivr_i8_p1_hi, false, i8, false, true, |a, s| s / &a);
scalar_by_big!(c10_q_srem_i8_p1_hi, false, i8, true, true, |a, s| s % a);
scalar_by_big!(c10_t_sdiv_i8_p1_lo, false, i8, false, false, |a, s| s / a);
scalar_by_big!(c10_t_sdivr_i8_p1_lo, false, i8, false, false, |a, s| s / &a);
scalar_by_big!(c10_t_srem_i8_p1_lo, false, i8, true, false, |a, s| s % a);
scalar_by_big!(c10_q_sdiv_i8_m1_hi, true, i8, false, true, |a, s| s / a);
scalar_by_big!(c10_t_sdivr_i8_m1_hi, true, i8, false, true, |a, s| s / &a);
scalar_by_big!(c10_q_srem_i8_m1_hi, true, i8, true, true, |a, s| s % a);
scalar_by_big!(c10_q_sdiv_i8_m1_lo, true, i8, false, false, |a, s| s / a);
scalar_by_big!(c10_t_sdivr_i8_m1_lo, true, i8, false, false, |a, s| s / &a);
scalar_by_big!(c10_t_srem_i8_m1_lo, true, i8, true, false, |a, s| s % a);
scalar_by_big!(c10_t_sdiv_i16_p1_hi, false, i16, false, true, |a, s| s / a);
scalar_by_big!(c10_t_sdivr_i16_p1_hi, false, i16, false, true, |a, s| s / &a);
scalar_by_big!(c10_t_srem_i16_p1_hi, false, i16, true, true, |a, s| s % a);
scalar_by_big!(c10_t_sdiv_i16_p1_lo, false, i16, false, false, |a, s| s / a);
scalar_by_big!(c10_t_sdivr_i16_p1_lo, false, i16, false, false, |a, s| s / &a);
scalar_by_big!(c10_t_srem_i16_p1_lo, false, i16, true, false, |a, s| s % a);
scalar_by_big!(c10_t_sdiv_i16_m1_hi, true, i16, false, true, |a, s| s / a);
scalar_by_big!(c10_t_sdivr_i16_m1_hi, true, i16, false, true, |a, s| s / &a);
scalar_by_big!(c10_t_srem_i16_m1_hi, true, i16, true, true, |a, s| s % a);
scalar_by_big!(c10_t_sdiv_i16_m1_lo, true, i16, false, false, |a, s| s / a);
scalar_by_big!(c10_t_sdivr_i16_m1_lo, true, i16, false, false, |a, s| s / &a);
scalar_by_big!(c10_t_srem_i16_m1_lo, true, i16, true, false, |a, s| s % a);
scalar_by_big!(c10_t_sdiv_i32_p1_hi, false, i32, false, true, |a, s| s / a);
scalar_by_big!(c10_t_sdivr_i32_p1_hi, false, i32, false, true, |a, s| s / &a);
scalar_by_big!(c10_t_srem_i32_p1_hi, false, i32, true, true, |a, s| s % a);
scalar_by_big!(c10_t_sdiv_i32_p1_lo, false, i32, false, false, |a, s| s / a);
scalar_by_big!(c10_t_sdivr_i32_p1_lo, false, i32, false, false, |a, s| s / &a);
scalar_by_big!(c10_t_srem_i32_p1_lo, false, i32, true, false, |a, s| s % a);
scalar_by_big!(c10_t_sdiv_i32_m1_hi, true, i32, false, true, |a, s| s / a);
scalar_by_big!(c10_t_sdivr_i32_m1_hi, true, i32, false, true, |a, s| s / &a);
scalar_by_big!(c10_t_srem_i32_m1_hi, true, i32, true, true, |a, s| s % a);
scalar_by_big!(c10_t_sdiv_i32_m1_lo, true, i32, false, false, |a, s| s / a);
scalar_by_big!(c10_t_sdivr_i32_m1_lo, true, i32, false, false, |a, s| s / &a);
scalar_by_big!(c10_t_srem_i32_m1_lo, true, i32, true, false, |a, s| s % a);
scalar_by_big!(c10_q_sdiv_i64_p1_hi, false, i64, false, true, |a, s| s / a);
scalar_by_big!(c10_t_sdivr_i64_p1_hi, false, i64, false, true, |a, s| s / &a);
scalar_by_big!(c10_q_srem_i64_p1_hi, false, i64, true, true, |a, s| s % a);
scalar_by_big!(c10_t_sdiv_i64_p1_lo, false, i64, false, false, |a, s| s / a);
scalar_by_big!(c10_t_sdivr_i64_p1_lo, false, i64, false, false, |a, s| s / &a);
scalar_by_big!(c10_t_srem_i64_p1_lo, false, i64, true, false, |a, s| s % a);
scalar_by_big!(c10_q_sdiv_i64_m1_hi, true, i64, false, true, |a, s| s / a);
scalar_by_big!(c10_t_sdivr_i64_m1_hi, true, i64, false, true, |a, s| s / &a);
scalar_by_big!(c10_q_srem_i64_m1_hi, true, i64, true, true, |a, s| s % a);
scalar_by_big!(c10_t_sdiv_i64_m1_lo, true, i64, false, false, |a, s| s / a);
scalar_by_big!(c10_t_sdivr_i64_m1_lo, true, i64, false, false, |a, s| s / &a);
scalar_by_big!(c10_t_srem_i64_m1_lo, true, i64, true, false, |a, s| s % a);
scalar_by_big!(c10_t_sdiv_isize_p1_hi, false, isize, false, true, |a, s| s / a);
scalar_by_big!(c10_t_sdivr_isize_p1_hi, false, isize, false, true, |a, s| s / &a);
scalar_by_big!(c10_t_srem_isize_p1_hi, false, isize, true, true, |a, s| s % a);
scalar_by_big!(c10_t_sdiv_isize_p1_lo, false, isize, false, false, |a, s| s / a);
scalar_by_big!(c10_t_sdivr_isize_p1_lo, false, isize, false, false, |a, s| s / &a);
scalar_by_big!(c10_t_srem_isize_p1_lo, false, isize, true, false, |a, s| s % a);
scalar_by_big!(c10_t_sdiv_isize_m1_hi, true, isize, false, true, |a, s| s / a);
scalar_by_big!(c10_t_sdivr_isize_m1_hi, true, isize, false, true, |a, s| s / &a);
scalar_by_big!(c10_t_srem_isize_m1_hi, true, isize, true, true, |a, s| s % a);
scalar_by_big!(c10_t_sdiv_isize_m1_lo, true, isize, false, false, |a, s| s / a);
scalar_by_big!(c10_t_sdivr_isize_m1_lo, true, isize, false, false, |a, s| s / &a);
scalar_by_big!(c10_t_srem_isize_m1_lo, true, isize, true, false, |a, s| s % a);
scalar_by_big!(c10_t_sdiv_u8_p1_hi, false, u8, false, true, |a, s| s / a);
scalar_by_big!(c10_t_sdivr_u8_p1_hi, false, u8, false, true, |a, s| s / &a);
scalar_by_big!(c10_t_srem_u8_p1_hi, false, u8, true, true, |a, s| s % a);
scalar_by_big!(c10_t_sdiv_u8_p1_lo, false, u8, false, false, |a, s| s / a);
scalar_by_big!(c10_t_sdivr_u8_p1_lo, false, u8, false, false, |a, s| s / &a);
scalar_by_big!(c10_t_srem_u8_p1_lo, false, u8, true, false, |a, s| s % a);
scalar_by_big!(c10_t_sdiv_u8_m1_hi, true, u8, false, true, |a, s| s / a);
scalar_by_big!(c10_t_sdivr_u8_m1_hi, true, u8, false, true, |a, s| s / &a);
scalar_by_big!(c10_t_srem_u8_m1_hi, true, u8, true, true, |a, s| s % a);
scalar_by_big!(c10_t_sdiv_u8_m1_lo, true, u8, false, false, |a, s| s / a);
scalar_by_big!(c10_t_sdivr_u8_m1_lo, true, u8, false, false, |a, s| s / &a);
scalar_by_big!(c10_t_srem_u8_m1_lo, true, u8, true, false, |a, s| s % a);
scalar_by_big!(c10_t_sdiv_u32_p1_hi, false, u32, false, true, |a, s| s / a);
scalar_by_big!(c10_t_sdivr_u32_p1_hi, false, u32, false, true, |a, s| s / &a);
scalar_by_big!(c10_t_srem_u32_p1_hi, false, u32, true, true, |a, s| s % a);
scalar_by_big!(c10_t_sdiv_u32_p1_lo, false, u32, false, false, |a, s| s / a);
scalar_by_big!(c10_t_sdivr_u32_p1_lo, false, u32, false, false, |a, s| s / &a);
scalar_by_big!(c10_t_srem_u32_p1_lo, false, u32, true, false, |a, s| s % a);
scalar_by_big!(c10_t_sdiv_u32_m1_hi, true, u32, false, true, |a, s| s / a);
scalar_by_big!(c10_t_sdivr_u32_m1_hi, true, u32, false, true, |a, s| s / &a);
scalar_by_big!(c10_t_srem_u32_m1_hi, true, u32, true, true, |a, s| s % a);
scalar_by_big!(c10_t_sdiv_u32_m1_lo, true, u32, false, false, |a, s| s / a);
scalar_by_big!(c10_t_sdivr_u32_m1_lo, true, u32, false, false, |a, s| s / &a);
scalar_by_big!(c10_t_srem_u32_m1_lo, true, u32, true, false, |a, s| s % a);
// END GENERATED
