def c07_bigint_bits():
    L = []
    sg = lambda n: "m" if n else "p"
    forms = [("rr", "&a {o} &b"), ("as", "{{ let mut x = a; x {o}= &b; x }}"), ("vv", "a {o} b"), ("vr", "a {o} &b"), ("rv", "&a {o} b"), ("av", "{{ let mut x = a; x {o}= b; x }}")]
    for opn, o in (("AND", "&"), ("OR", "|"), ("XOR", "^")):
        for fk, ft in forms:
            for na in (False, True):
                for nb in (False, True):
                    for (la, lb) in [(1, 1), (2, 1), (1, 2), (2, 2), (3, 1), (1, 3), (3, 3)]:
                        q = fk in ("rr", "as") and (la, lb) in {(1, 1), (2, 1), (1, 2)}
                        if fk not in ("rr", "as") and (la, lb) not in {(1, 1), (2, 1), (1, 2)}:
                            continue
                        L.append("bitop_shape!(c07_%s_%s_%s_%s%d_%s%d, %s, %s, %d, %s, %d, %d, |a, b| %s);" % (
                            tier(q), opn.lower(), fk, sg(na), la, sg(nb), lb, opn, str(na).lower(), la, str(nb).lower(), lb, max(la, lb) + 2, ft.format(o=o)))
            for (na, la, nb, lb) in [(False, 0, False, 0), (False, 0, True, 2), (True, 1, False, 0), (False, 0, False, 1), (False, 2, False, 0)]:
                q = fk in ("rr", "as") and (la, lb) in {(0, 2), (1, 0)}
                L.append("bitop_shape!(c07_%s_%s_%s_%s%d_%s%d, %s, %s, %d, %s, %d, %d, |a, b| %s);" % (
                    tier(q), opn.lower(), fk, sg(na), la, sg(nb), lb, opn, str(na).lower(), la, str(nb).lower(), lb, max(la, lb) + 2, ft.format(o=o)))
    for (na, la) in [(False, 0), (False, 1), (True, 1), (False, 2), (True, 2), (True, 3)]:
        L.append("not_shape!(c07_%s_not_%s%d, %s, %d, %d);" % (tier(la <= 2), sg(na), la, str(na).lower(), la, la + 2))
    return L
GEN["c07_bigint_bits"] = c07_bigint_bits

def c07_biguint_shift():
    L = []
    for l in (0, 1, 2, 3):
        for dg in (0, 1, 2, 3):
            q = (l, dg) in {(1, 0), (2, 1), (3, 0), (1, 2), (0, 1)}
            L.append("shl2_shape!(c07_%s_shl2_%d_w%d, %d, %d, %d);" % (tier(q), l, dg, l, dg, l + dg + 1))
            q = (l, dg) in {(1, 0), (2, 1), (3, 0), (3, 2), (2, 2), (1, 3), (0, 0)}
            L.append("shr2_shape!(c07_%s_shr2_%d_w%d, %d, %d);" % (tier(q), l, dg, l, dg))
    for (l, dg, s) in [(2, 0, 0), (2, 0, 1), (2, 1, 63), (1, 2, 7), (2, 1, 0)]:
        L.append("shl2_owned_shape!(c07_t_shl2_owned_%d_w%d_b%d, %d, %d, %d, %d);" % (l, dg, s, l, dg, s, l + dg + 1))
        L.append("shr2_owned_shape!(c07_t_shr2_owned_%d_w%d_b%d, %d, %d, %d);" % (l + 1, dg, s, l + 1, dg, s))
    for T in ["u8", "u16", "u32", "u64", "u128", "usize", "i8", "i16", "i32", "i64", "i128", "isize"]:
        q = T in ("u8", "u64", "u128", "i32", "i128")
        L.append("amount_shape!(c07_%s_amount_%s, %s, %s);" % (tier(q), T, T, "true" if T[0] == "i" else "false"))
        L.append("amount_zero_shape!(c07_%s_amount_zero_%s, %s);" % (tier(q), T, T))
        if T[0] == "i":
            L.append("amount_neg_mp!(c07_%s_shl_neg_%s_mp, %s, true);" % (tier(T in ("i8", "i64")), T, T))
            L.append("amount_neg_mp!(c07_%s_shr_neg_%s_mp, %s, false);" % (tier(T in ("i32", "i128")), T, T))
    return L
GEN["c07_biguint_shift"] = c07_biguint_shift

def c07_bigint_shift():
    L = []
    sg = lambda n: "m" if n else "p"
    for neg in (True, False):
        for (l, dg) in [(1, 0), (1, 1), (2, 0), (2, 1), (2, 2), (1, 2), (3, 1)]:
            q = neg and (l, dg) in {(1, 0), (1, 1), (2, 1), (2, 2)} or (not neg and (l, dg) == (2, 1))
            L.append("shr_shape!(c07_%s_intshr_%s%d_w%d, %s, %d, %d, %d, shr_fixed_%d);" % (tier(q), sg(neg), l, dg, str(neg).lower(), l, dg, l + 2, dg))
        for (l, dg) in [(1, 0), (2, 1), (1, 2)]:
            L.append("shl_shape!(c07_%s_intshl_%s%d_w%d, %s, %d, %d, %d, shl_fixed_%d);" % (tier(neg and l == 1 and dg == 0), sg(neg), l, dg, str(neg).lower(), l, dg, l + dg + 1, dg))
    L.append("shr_shape!(c07_q_intshr_p0_w1, false, 0, 1, 2, shr_fixed_1);")
    for T in ["u8", "u16", "u32", "u64", "u128", "usize", "i8", "i16", "i32", "i64", "i128", "isize"]:
        L.append("round_down_shape!(c07_%s_round_down_%s, %s, 2);" % (tier(T in ("u8", "u128", "i64")), T, T))
    return L
GEN["c07_bigint_shift"] = c07_bigint_shift

def c07_bit_queries():
    L = []
    sg = lambda n: "m" if n else "p"
    for l in (0, 1, 2, 3):
        L.append("uquery_shape!(c07_%s_uquery_%d, %d);" % (tier(l <= 2), l, l))
        for bit in (0, 1, 63, 64, 65, 127, 128, 130, 191, 192):
            if bit // 64 > l + 1:
                continue
            L.append("uset_bit_shape!(c07_%s_uset_bit_%d_b%d, %d, %d, %d);" % (tier(l in (1, 2) and bit in (0, 63, 64, 127, 128)), l, bit, l, l + 2, bit))
        L.append("uclear_far_shape!(c07_%s_uclear_far_%d, %d);" % (tier(l <= 1), l, l))
    for neg in (False, True):
        for l in (0, 1, 2, 3):
            if neg and l == 0:
                continue
            L.append("ibit_shape!(c07_%s_ibit_%s%d, %s, %d, %d);" % (tier(l <= 2), sg(neg), l, str(neg).lower(), l, l + 1))
            for bit in (0, 1, 63, 64, 65, 127, 128, 130, 191, 192):
                if bit // 64 > l + 1:
                    continue
                L.append("iset_bit_shape!(c07_%s_iset_bit_%s%d_b%d, %s, %d, %d, %d);" % (
                    tier(l in (1, 2) and bit in (0, 63, 64, 127, 128)), sg(neg), l, bit, str(neg).lower(), l, l + 3, bit))
            L.append("iset_far_shape!(c07_%s_iset_far_%s%d, %s, %d, %d);" % (tier(l == 1), sg(neg), l, str(neg).lower(), l, l + 1))
    return L
GEN["c07_bit_queries"] = c07_bit_queries

def c07_biguint_bits():
    L = []
    forms = [("rr", "&a {o} &b"), ("as", "{{ let mut x = a; x {o}= &b; x }}"), ("vv", "a {o} b"), ("rv", "&a {o} b")]
    for k, (opn, o) in enumerate((("and", "&"), ("or", "|"), ("xor", "^"))):
        for fk, ft in forms:
            for la in range(0, 4):
                for lb in range(0, 4):
                    if fk in ("vv", "rv") and (la, lb) not in {(1, 2), (2, 1), (2, 2)}:
                        continue
                    q = fk in ("rr", "as") and (la, lb) in {(1, 1), (2, 1), (1, 2), (2, 2), (0, 1), (3, 0)}
                    L.append("ubitop_shape!(c07_%s_u%s_%s_%d_%d, %d, %d, %d, |a, b| %s);" % (tier(q), opn, fk, la, lb, k, la, lb, ft.format(o=o)))
    return L
GEN["c07_biguint_bits"] = c07_biguint_bits
