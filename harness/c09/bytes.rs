// C09 — byte / word import and export (anchored in src/bigint/convert.rs; public BigUint API reached from here too)
#![allow(unused_imports, dead_code)]
use super::*;
use crate::bigint::verif_icommon::*;
use crate::biguint::verif_common as vc;
use alloc::{vec, vec::Vec};

/// byte i (little endian) of a digit slice (zero-extended)
fn byte_of(x: &[u64], i: usize) -> u8 {
    (vc::dig(x, i / 8) >> (8 * (i % 8))) as u8
}
/// minimal byte length of a canonical digit slice (0 for zero)
fn byte_len(x: &[u64]) -> usize {
    if x.is_empty() {
        return 0;
    }
    let top = x[x.len() - 1];
    8 * (x.len() - 1) + (8 - (top.leading_zeros() as usize) / 8)
}

// to_bytes_le / to_bytes_be: exactly the base-256 digits, minimal length, zero -> [0]
macro_rules! to_bytes_shape {
    ($name:ident, $l:expr) => {
        #[kani::proof]
        #[kani::unwind(20)]
        #[kani::stub(alloc::vec::Vec::with_capacity, vc::vec_with_capacity_ignored)]
        fn $name() {
            let a0: [u64; $l] = vc::any_canon::<$l>();
            let a = vc::mk_from(&a0);
            let nb = if $l == 0 { 1 } else { byte_len(&a0) };
            let le = a.to_bytes_le();
            let be = a.to_bytes_be();
            kani::assert(le.len() == nb && be.len() == nb, "VERIF to_bytes length is not minimal (zero must be one zero byte)");
            let i: usize = kani::any();
            kani::assume(i < nb);
            kani::assert(le[i] == byte_of(&a0, i), "VERIF to_bytes_le byte differs");
            kani::assert(be[nb - 1 - i] == byte_of(&a0, i), "VERIF to_bytes_be byte differs");
            let (s, v) = mkint(false, &a0).to_bytes_le();
            kani::assert(v.len() == nb && v[i] == byte_of(&a0, i) && (s == Sign::NoSign) == ($l == 0), "VERIF BigInt::to_bytes_le");
            kani::cover!($l == 0 || nb == 8 * $l, "reach:full_top_digit");
            kani::cover!($l == 0 || nb == 8 * $l - 7, "reach:one_byte_top_digit");
        }
    };
}
// from_bytes_le / from_bytes_be on any byte string of concrete length N (with or without leading zero padding)
macro_rules! from_bytes_shape {
    ($name:ident, $n:expr, $w:expr) => {
        #[kani::proof]
        #[kani::unwind(20)]
        #[kani::stub(alloc::vec::Vec::shrink_to_fit, vc::noop_shrink)]
        fn $name() {
            let b: [u8; $n] = kani::any();
            let mut e = [0u64; $w];
            let mut i = 0;
            while i < $n {
                e[i / 8] |= (b[i] as u64) << (8 * (i % 8));
                i += 1;
            }
            let le = BigUint::from_bytes_le(&b);
            kani::assert(vc::is_canonical(&le) && vc::eq_window(vc::digits(&le), &e), "VERIF from_bytes_le value");
            let mut rb = b;
            rb.reverse();
            let be = BigUint::from_bytes_be(&rb);
            kani::assert(vc::is_canonical(&be) && vc::eq_window(vc::digits(&be), &e), "VERIF from_bytes_be value");
            // BigInt::from_bytes_*: the magnitude with the requested sign; NoSign (or a zero magnitude) means zero
            let zero = vc::ref_is_zero(&e);
            let im = BigInt::from_bytes_le(Sign::Minus, &b);
            kani::assert(int_canonical(&im) && vc::eq_window(mag(&im), &e) && (is_neg(&im) == !zero), "VERIF BigInt::from_bytes_le(Minus)");
            let ip = BigInt::from_bytes_be(Sign::Plus, &rb);
            kani::assert(int_canonical(&ip) && vc::eq_window(mag(&ip), &e) && !is_neg(&ip), "VERIF BigInt::from_bytes_be(Plus)");
            let iz = BigInt::from_bytes_be(Sign::NoSign, &rb);
            kani::assert(int_canonical(&iz) && mag(&iz).is_empty(), "VERIF BigInt::from_bytes_be(NoSign) is not zero");
            kani::cover!($n == 0 || vc::digits(&le).len() < ($n + 7) / 8, "reach:padding_stripped");
        }
    };
}

/// sign-extended two's-complement window of a little-endian signed byte string
fn window_of_signed<const W: usize>(b: &[u8]) -> [u64; W] {
    let neg = !b.is_empty() && b[b.len() - 1] > 0x7f;
    let fill: u8 = if neg { 0xff } else { 0 };
    let mut e = [0u64; W];
    let mut i = 0;
    while i < 8 * W {
        let x = if i < b.len() { b[i] } else { fill };
        e[i / 8] |= (x as u64) << (8 * (i % 8));
        i += 1;
    }
    e
}
macro_rules! from_signed_bytes_shape {
    ($name:ident, $n:expr, $w:expr) => {
        #[kani::proof]
        #[kani::unwind(34)]
        #[kani::stub(alloc::vec::Vec::shrink_to_fit, vc::noop_shrink)]
        fn $name() {
            let b: [u8; $n] = kani::any();
            let e = window_of_signed::<$w>(&b);
            let le = BigInt::from_signed_bytes_le(&b);
            check_int::<$w>(&le, &e);
            let mut rb = b;
            rb.reverse();
            let be = BigInt::from_signed_bytes_be(&rb);
            check_int::<$w>(&be, &e);
        }
    };
}
// to_signed_bytes_le / be: BigUint::to_bytes_le/be (decided by c09_*_to_bytes_*) are replaced by a CASE-SPLIT model that returns
// exactly the first NB bytes of the magnitude under assume(byte length == NB) - a deterministic function of the value, so the
// magnitude bytes stay consistent with the BigInt and a counterexample replays natively with the real functions.
// The result must decode to the value and be the SHORTEST two's-complement encoding.
fn to_bytes_le_pinned<const NB: usize>(u: &BigUint) -> Vec<u8> {
    let d = vc::digits(u);
    kani::assume(byte_len(d) == NB || (d.is_empty() && NB == 1));
    let mut b = [0u8; NB];
    let mut i = 0;
    while i < NB {
        b[i] = byte_of(d, i);
        i += 1;
    }
    b.to_vec()
}
fn to_bytes_be_pinned<const NB: usize>(u: &BigUint) -> Vec<u8> {
    let mut v = to_bytes_le_pinned::<NB>(u);
    v.reverse();
    v
}
macro_rules! bytes_models {
    ($le:ident, $be:ident, $nb:expr) => {
        pub(crate) fn $le(u: &BigUint) -> Vec<u8> { to_bytes_le_pinned::<$nb>(u) }
        pub(crate) fn $be(u: &BigUint) -> Vec<u8> { to_bytes_be_pinned::<$nb>(u) }
    };
}
bytes_models!(tbl_1, tbb_1, 1);
bytes_models!(tbl_2, tbb_2, 2);
bytes_models!(tbl_3, tbb_3, 3);
bytes_models!(tbl_8, tbb_8, 8);
bytes_models!(tbl_9, tbb_9, 9);
bytes_models!(tbl_16, tbb_16, 16);
bytes_models!(tbl_17, tbb_17, 17);

macro_rules! to_signed_bytes_shape {
    ($name:ident, $neg:expr, $nb:expr, $l:expr, $w:expr, $tbl:ident, $tbb:ident, $be:expr) => {
        #[kani::proof]
        #[kani::unwind(40)]
        #[kani::stub(crate::biguint::BigUint::to_bytes_le, $tbl)]
        #[kani::stub(crate::biguint::BigUint::to_bytes_be, $tbb)]
        fn $name() {
            let a0: [u64; $l] = vc::any_canon::<$l>();
            kani::assume(byte_len(&a0) == $nb);
            let x = mkint($neg, &a0);
            let t = tc::<$w>(&x);
            let mut out = if $be { x.to_signed_bytes_be() } else { x.to_signed_bytes_le() };
            if $be {
                out.reverse();
            }
            let n = out.len();
            kani::assert(n == $nb || n == $nb + 1, "VERIF to_signed_bytes length out of range");
            kani::assert(eq_w(&window_of_signed::<$w>(&out), &t), "VERIF to_signed_bytes does not decode to the value");
            if n >= 2 {
                let top = out[n - 1];
                let next_msb = out[n - 2] > 0x7f;
                kani::assert(!(top == 0x00 && !next_msb) && !(top == 0xff && next_msb), "VERIF to_signed_bytes is not the shortest encoding");
            }
            kani::cover!(n == $nb + 1, "reach:extension_byte");
            kani::cover!(!$neg || (n == $nb && out[n - 1] == 0x80), "reach:negative_power_of_two_exception");
        }
    };
}

// u32-word import: new / from_slice / assign_from_slice with odd counts and redundant zero words
macro_rules! from_u32_shape {
    ($name:ident, $n:expr, $w:expr) => {
        #[kani::proof]
        #[kani::unwind(34)]
        #[kani::stub(alloc::vec::Vec::shrink_to_fit, vc::noop_shrink)]
        fn $name() {
            let s: [u32; $n] = kani::any();
            let mut e = [0u64; $w];
            let mut i = 0;
            while i < $n {
                e[i / 2] |= (s[i] as u64) << (32 * (i % 2));
                i += 1;
            }
            let a = BigUint::from_slice(&s);
            kani::assert(vc::is_canonical(&a) && vc::eq_window(vc::digits(&a), &e), "VERIF BigUint::from_slice");
            let b = BigUint::new(s.to_vec());
            kani::assert(vc::is_canonical(&b) && vc::eq_window(vc::digits(&b), &e), "VERIF BigUint::new");
            let mut c = vc::mk_from(&[7, 7, 7, 7, 7]);
            c.assign_from_slice(&s);
            kani::assert(vc::is_canonical(&c) && vc::eq_window(vc::digits(&c), &e), "VERIF BigUint::assign_from_slice");
            // BigInt with each requested sign
            let zero = vc::ref_is_zero(&e);
            let m = BigInt::from_slice(Sign::Minus, &s);
            kani::assert(int_canonical(&m) && vc::eq_window(mag(&m), &e) && (is_neg(&m) == !zero), "VERIF BigInt::from_slice(Minus)");
            let p = BigInt::new(Sign::Plus, s.to_vec());
            kani::assert(int_canonical(&p) && vc::eq_window(mag(&p), &e) && !is_neg(&p), "VERIF BigInt::new(Plus)");
            // every constructor x every requested sign (NoSign always means zero, whatever the digits say)
            let m2 = BigInt::new(Sign::Minus, s.to_vec());
            kani::assert(int_canonical(&m2) && vc::eq_window(mag(&m2), &e) && (is_neg(&m2) == !zero), "VERIF BigInt::new(Minus)");
            let p2 = BigInt::from_slice(Sign::Plus, &s);
            kani::assert(int_canonical(&p2) && vc::eq_window(mag(&p2), &e) && !is_neg(&p2), "VERIF BigInt::from_slice(Plus)");
            let z2 = BigInt::new(Sign::NoSign, s.to_vec());
            kani::assert(int_canonical(&z2) && mag(&z2).is_empty(), "VERIF BigInt::new(NoSign) is not zero");
            let mut q2 = mkint(false, &[1, 2, 3]);
            q2.assign_from_slice(Sign::Minus, &s);
            kani::assert(int_canonical(&q2) && vc::eq_window(mag(&q2), &e) && (is_neg(&q2) == !zero), "VERIF BigInt::assign_from_slice(Minus)");
            let z = BigInt::from_slice(Sign::NoSign, &s);
            kani::assert(int_canonical(&z) && mag(&z).is_empty(), "VERIF BigInt::from_slice(NoSign) is not zero");
            let mut q = mkint(true, &[1, 2, 3]);
            q.assign_from_slice(Sign::Plus, &s);
            kani::assert(int_canonical(&q) && vc::eq_window(mag(&q), &e) && !is_neg(&q), "VERIF BigInt::assign_from_slice(Plus)");
            let mut r = mkint(false, &[1, 2, 3]);
            r.assign_from_slice(Sign::NoSign, &s);
            kani::assert(int_canonical(&r) && mag(&r).is_empty(), "VERIF BigInt::assign_from_slice(NoSign)");
        }
    };
}
// digit-vector export
macro_rules! to_digits_shape {
    ($name:ident, $neg:expr, $l:expr) => {
        #[kani::proof]
        #[kani::unwind(34)]
        #[kani::stub(alloc::vec::Vec::with_capacity, vc::vec_with_capacity_64)]
        fn $name() {
            let a0: [u64; $l] = vc::any_canon::<$l>();
            let x = mkint($neg, &a0);
            let (s64, d64) = x.to_u64_digits();
            kani::assert(d64.len() == $l && s64 == sign_of(&x), "VERIF to_u64_digits length/sign");
            let (s32, d32) = x.to_u32_digits();
            let n32 = if $l == 0 { 0 } else { 2 * $l - ((a0[$l - 1] >> 32) == 0) as usize };
            kani::assert(d32.len() == n32 && s32 == sign_of(&x), "VERIF to_u32_digits length/sign (no trailing zero word)");
            let u = vc::mk_from(&a0);
            let u32s = u.to_u32_digits();
            let u64s = u.to_u64_digits();
            kani::assert(u32s.len() == n32 && u64s.len() == $l, "VERIF BigUint::to_u32/u64_digits length");
            let i: usize = kani::any();
            kani::assume(i < n32);
            let e = (a0[i / 2] >> (32 * (i % 2))) as u32;
            kani::assert(d32[i] == e && u32s[i] == e, "VERIF to_u32_digits digit");
            kani::assert(d64[i / 2] == a0[i / 2] && u64s[i / 2] == a0[i / 2], "VERIF to_u64_digits digit");
        }
    };
}

// BEGIN GENERATED c09_bytes
to_bytes_shape!(c09_q_to_bytes_0, 0);
to_bytes_shape!(c09_q_to_bytes_1, 1);
to_bytes_shape!(c09_q_to_bytes_2, 2);
to_bytes_shape!(c09_t_to_bytes_3, 3);
from_bytes_shape!(c09_q_from_bytes_0, 0, 1);
from_signed_bytes_shape!(c09_q_from_signed_bytes_0, 0, 1);
from_bytes_shape!(c09_q_from_bytes_1, 1, 1);
from_signed_bytes_shape!(c09_q_from_signed_bytes_1, 1, 1);
from_bytes_shape!(c09_t_from_bytes_2, 2, 1);
from_signed_bytes_shape!(c09_t_from_signed_bytes_2, 2, 1);
from_bytes_shape!(c09_t_from_bytes_3, 3, 1);
from_signed_bytes_shape!(c09_t_from_signed_bytes_3, 3, 1);
from_bytes_shape!(c09_t_from_bytes_4, 4, 1);
from_signed_bytes_shape!(c09_t_from_signed_bytes_4, 4, 1);
from_bytes_shape!(c09_t_from_bytes_5, 5, 1);
from_signed_bytes_shape!(c09_t_from_signed_bytes_5, 5, 1);
from_bytes_shape!(c09_t_from_bytes_6, 6, 1);
from_signed_bytes_shape!(c09_t_from_signed_bytes_6, 6, 1);
from_bytes_shape!(c09_q_from_bytes_7, 7, 1);
from_signed_bytes_shape!(c09_q_from_signed_bytes_7, 7, 1);
from_bytes_shape!(c09_q_from_bytes_8, 8, 2);
from_signed_bytes_shape!(c09_q_from_signed_bytes_8, 8, 2);
from_bytes_shape!(c09_q_from_bytes_9, 9, 2);
from_signed_bytes_shape!(c09_q_from_signed_bytes_9, 9, 2);
from_bytes_shape!(c09_t_from_bytes_10, 10, 2);
from_signed_bytes_shape!(c09_t_from_signed_bytes_10, 10, 2);
from_bytes_shape!(c09_t_from_bytes_11, 11, 2);
from_signed_bytes_shape!(c09_t_from_signed_bytes_11, 11, 2);
from_bytes_shape!(c09_t_from_bytes_12, 12, 2);
from_signed_bytes_shape!(c09_t_from_signed_bytes_12, 12, 2);
from_bytes_shape!(c09_t_from_bytes_13, 13, 2);
from_signed_bytes_shape!(c09_t_from_signed_bytes_13, 13, 2);
from_bytes_shape!(c09_t_from_bytes_14, 14, 2);
from_signed_bytes_shape!(c09_t_from_signed_bytes_14, 14, 2);
from_bytes_shape!(c09_t_from_bytes_15, 15, 2);
from_signed_bytes_shape!(c09_t_from_signed_bytes_15, 15, 2);
from_bytes_shape!(c09_q_from_bytes_16, 16, 3);
from_signed_bytes_shape!(c09_q_from_signed_bytes_16, 16, 3);
from_bytes_shape!(c09_q_from_bytes_17, 17, 3);
from_signed_bytes_shape!(c09_q_from_signed_bytes_17, 17, 3);
to_digits_shape!(c09_q_to_digits_p0, false, 0);
to_digits_shape!(c09_q_to_digits_p1, false, 1);
to_digits_shape!(c09_q_to_digits_p2, false, 2);
to_digits_shape!(c09_t_to_digits_p3, false, 3);
to_digits_shape!(c09_q_to_digits_m1, true, 1);
to_digits_shape!(c09_q_to_digits_m2, true, 2);
to_digits_shape!(c09_t_to_digits_m3, true, 3);
to_signed_bytes_shape!(c09_q_to_signed_bytes_le_p1, false, 1, 1, 2, tbl_1, tbb_1, false);
to_signed_bytes_shape!(c09_t_to_signed_bytes_be_p1, false, 1, 1, 2, tbl_1, tbb_1, true);
to_signed_bytes_shape!(c09_q_to_signed_bytes_le_p2, false, 2, 1, 2, tbl_2, tbb_2, false);
to_signed_bytes_shape!(c09_q_to_signed_bytes_be_p2, false, 2, 1, 2, tbl_2, tbb_2, true);
to_signed_bytes_shape!(c09_t_to_signed_bytes_le_p3, false, 3, 1, 2, tbl_3, tbb_3, false);
to_signed_bytes_shape!(c09_t_to_signed_bytes_be_p3, false, 3, 1, 2, tbl_3, tbb_3, true);
to_signed_bytes_shape!(c09_q_to_signed_bytes_le_p8, false, 8, 1, 2, tbl_8, tbb_8, false);
to_signed_bytes_shape!(c09_t_to_signed_bytes_be_p8, false, 8, 1, 2, tbl_8, tbb_8, true);
to_signed_bytes_shape!(c09_q_to_signed_bytes_le_p9, false, 9, 2, 3, tbl_9, tbb_9, false);
to_signed_bytes_shape!(c09_q_to_signed_bytes_be_p9, false, 9, 2, 3, tbl_9, tbb_9, true);
to_signed_bytes_shape!(c09_q_to_signed_bytes_le_p16, false, 16, 2, 3, tbl_16, tbb_16, false);
to_signed_bytes_shape!(c09_q_to_signed_bytes_be_p16, false, 16, 2, 3, tbl_16, tbb_16, true);
to_signed_bytes_shape!(c09_t_to_signed_bytes_le_p17, false, 17, 3, 4, tbl_17, tbb_17, false);
to_signed_bytes_shape!(c09_t_to_signed_bytes_be_p17, false, 17, 3, 4, tbl_17, tbb_17, true);
to_signed_bytes_shape!(c09_q_to_signed_bytes_le_m1, true, 1, 1, 2, tbl_1, tbb_1, false);
to_signed_bytes_shape!(c09_t_to_signed_bytes_be_m1, true, 1, 1, 2, tbl_1, tbb_1, true);
to_signed_bytes_shape!(c09_q_to_signed_bytes_le_m2, true, 2, 1, 2, tbl_2, tbb_2, false);
to_signed_bytes_shape!(c09_q_to_signed_bytes_be_m2, true, 2, 1, 2, tbl_2, tbb_2, true);
to_signed_bytes_shape!(c09_t_to_signed_bytes_le_m3, true, 3, 1, 2, tbl_3, tbb_3, false);
to_signed_bytes_shape!(c09_t_to_signed_bytes_be_m3, true, 3, 1, 2, tbl_3, tbb_3, true);
to_signed_bytes_shape!(c09_q_to_signed_bytes_le_m8, true, 8, 1, 2, tbl_8, tbb_8, false);
to_signed_bytes_shape!(c09_t_to_signed_bytes_be_m8, true, 8, 1, 2, tbl_8, tbb_8, true);
to_signed_bytes_shape!(c09_q_to_signed_bytes_le_m9, true, 9, 2, 3, tbl_9, tbb_9, false);
to_signed_bytes_shape!(c09_q_to_signed_bytes_be_m9, true, 9, 2, 3, tbl_9, tbb_9, true);
to_signed_bytes_shape!(c09_q_to_signed_bytes_le_m16, true, 16, 2, 3, tbl_16, tbb_16, false);
to_signed_bytes_shape!(c09_q_to_signed_bytes_be_m16, true, 16, 2, 3, tbl_16, tbb_16, true);
to_signed_bytes_shape!(c09_t_to_signed_bytes_le_m17, true, 17, 3, 4, tbl_17, tbb_17, false);
to_signed_bytes_shape!(c09_t_to_signed_bytes_be_m17, true, 17, 3, 4, tbl_17, tbb_17, true);
from_u32_shape!(c09_q_from_u32_0, 0, 1);
from_u32_shape!(c09_q_from_u32_1, 1, 1);
from_u32_shape!(c09_q_from_u32_2, 2, 2);
from_u32_shape!(c09_q_from_u32_3, 3, 2);
from_u32_shape!(c09_t_from_u32_4, 4, 3);
from_u32_shape!(c09_q_from_u32_5, 5, 3);
from_u32_shape!(c09_t_from_u32_6, 6, 4);
from_u32_shape!(c09_t_from_u32_7, 7, 4);
// END GENERATED
