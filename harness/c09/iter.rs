// C09 — U32Digits / U64Digits as exact-size double-ended iterators (anchored in src/biguint/iter.rs)
#![allow(unused_imports, dead_code)]
use super::*;
use crate::biguint::verif_common as vc;
use alloc::{vec, vec::Vec};

fn ref32(a: &[u64], i: usize) -> u32 {
    (a[i / 2] >> (32 * (i % 2))) as u32
}

// any interleaving (chosen by the solver) of K pulls from front/back, from the initial state of any canonical L-digit value;
// after each pull the iterator must agree with the reference list a[f..b) of base-2^32 digits and report its exact length;
// then one terminal operation (len/size_hint, count, last, nth) chosen by the solver.
macro_rules! u32_iter_shape {
    ($name:ident, $l:expr, $k:expr) => {
        #[kani::proof]
        #[kani::unwind(34)]
        fn $name() {
            let a0: [u64; $l] = vc::any_canon::<$l>();
            let n32: usize = if $l == 0 { 0 } else { 2 * $l - ((a0[$l - 1] >> 32) == 0) as usize };
            let mut it = U32Digits::new(&a0);
            let mut f: usize = 0;
            let mut b: usize = n32;
            kani::assert(it.len() == n32, "VERIF initial len");
            let mut step = 0;
            let stop: usize = kani::any(); // the solver also chooses HOW MANY pulls precede the terminal operation
            while step < $k {
                if step >= stop {
                    break;
                }
                let front: bool = kani::any();
                if front {
                    let g = it.next();
                    if f < b {
                        kani::assert(g == Some(ref32(&a0, f)), "VERIF next() digit");
                        f += 1;
                    } else {
                        kani::assert(g.is_none(), "VERIF next() after exhaustion (fused)");
                    }
                } else {
                    let g = it.next_back();
                    if f < b {
                        kani::assert(g == Some(ref32(&a0, b - 1)), "VERIF next_back() digit");
                        b -= 1;
                    } else {
                        kani::assert(g.is_none(), "VERIF next_back() after exhaustion (fused)");
                    }
                }
                kani::assert(it.len() == b - f, "VERIF len() not exact after a pull");
                kani::assert(it.size_hint() == (b - f, Some(b - f)), "VERIF size_hint not exact");
                step += 1;
            }
            let op: u8 = kani::any();
            if op == 0 {
                kani::assert(it.count() == b - f, "VERIF count()");
            } else if op == 1 {
                let e = if f < b { Some(ref32(&a0, b - 1)) } else { None };
                kani::assert(it.last() == e, "VERIF last()");
            } else {
                let j: usize = kani::any();
                kani::assume(j < 4);
                let e = if f + j < b { Some(ref32(&a0, f + j)) } else { None };
                kani::assert(it.nth(j) == e, "VERIF nth()");
            }
            kani::cover!($l == 0 || f == b, "reach:exhausted");
        }
    };
}
macro_rules! u64_iter_shape {
    ($name:ident, $l:expr, $k:expr) => {
        #[kani::proof]
        #[kani::unwind(34)]
        fn $name() {
            let a0: [u64; $l] = vc::any_canon::<$l>();
            let mut it = U64Digits::new(&a0);
            let mut f: usize = 0;
            let mut b: usize = $l;
            let mut step = 0;
            let stop: usize = kani::any();
            while step < $k {
                if step >= stop {
                    break;
                }
                let front: bool = kani::any();
                if front {
                    let g = it.next();
                    if f < b {
                        kani::assert(g == Some(a0[f]), "VERIF U64Digits::next digit");
                        f += 1;
                    } else {
                        kani::assert(g.is_none(), "VERIF U64Digits::next after exhaustion");
                    }
                } else {
                    let g = it.next_back();
                    if f < b {
                        kani::assert(g == Some(a0[b - 1]), "VERIF U64Digits::next_back digit");
                        b -= 1;
                    } else {
                        kani::assert(g.is_none(), "VERIF U64Digits::next_back after exhaustion");
                    }
                }
                kani::assert(it.len() == b - f, "VERIF U64Digits::len not exact");
                step += 1;
            }
            let op: u8 = kani::any();
            if op == 0 {
                kani::assert(it.count() == b - f, "VERIF U64Digits::count");
            } else if op == 1 {
                let e = if f < b { Some(a0[b - 1]) } else { None };
                kani::assert(it.last() == e, "VERIF U64Digits::last");
            } else {
                let j: usize = kani::any();
                kani::assume(j < 3);
                let e = if f + j < b { Some(a0[f + j]) } else { None };
                kani::assert(it.nth(j) == e, "VERIF U64Digits::nth");
            }
        }
    };
}
u32_iter_shape!(c09_q_u32_iter_0, 0, 2);
u32_iter_shape!(c09_q_u32_iter_1, 1, 3);
u32_iter_shape!(c09_q_u32_iter_2, 2, 5);
u32_iter_shape!(c09_q_u32_iter_3, 3, 7);
u32_iter_shape!(c09_t_u32_iter_4, 4, 9);
u64_iter_shape!(c09_q_u64_iter_0, 0, 2);
u64_iter_shape!(c09_q_u64_iter_2, 2, 3);
u64_iter_shape!(c09_q_u64_iter_3, 3, 4);
