// C12 — BigInt::pow sign rule (anchored in src/bigint/power.rs): negative exactly when x < 0 and e is odd; x^0 = 1
#![allow(unused_imports, dead_code)]
use super::*;
use crate::bigint::verif_icommon::*;
use crate::biguint::verif_common as vc;
use alloc::{vec, vec::Vec};

// the unsigned power is replaced by a model: |x|^0 = 1, |x|^e = some canonical value that is zero iff |x| is zero
fn upow_model_val<T: num_traits::Zero>(b: BigUint, e: T) -> BigUint {
    if e.is_zero() {
        vc::mk_from(&[1])
    } else if vc::digits(&b).is_empty() {
        BigUint::ZERO
    } else {
        vc::mk_from(&vc::any_canon::<1>())
    }
}
fn upow_u8(b: BigUint, e: u8) -> BigUint { upow_model_val(b, e) }
fn upow_u64(b: BigUint, e: u64) -> BigUint { upow_model_val(b, e) }
fn upow_u128(b: BigUint, e: u128) -> BigUint { upow_model_val(b, e) }
fn upow_big<'a>(b: BigUint, e: &'a BigUint) -> BigUint where 'a: 'a {
    if vc::digits(e).is_empty() { vc::mk_from(&[1]) } else if vc::digits(&b).is_empty() { BigUint::ZERO } else { vc::mk_from(&vc::any_canon::<1>()) }
}

macro_rules! ipow_shape {
    ($name:ident, $T:ty, $stub:ident, $neg:expr, $l:expr) => {
        #[kani::proof]
        #[kani::unwind(34)]
        #[kani::stub(<crate::biguint::BigUint as num_traits::Pow<$T>>::pow, $stub)]
        fn $name() {
            let a0: [u64; $l] = vc::any_canon::<$l>();
            let x = mkint($neg, &a0);
            let e: $T = kani::any();
            let r = Pow::pow(x, e);
            kani::assert(int_canonical(&r), "VERIF BigInt::pow result not canonical");
            let odd = (e & 1) == 1;
            if e == 0 {
                kani::assert(!is_neg(&r) && mag(&r).len() == 1 && mag(&r)[0] == 1, "VERIF x^0 is not +1");
            } else if $l == 0 {
                kani::assert(mag(&r).is_empty(), "VERIF 0^e is not 0");
            } else {
                kani::assert(is_neg(&r) == ($neg && odd), "VERIF BigInt::pow sign is not (x < 0 and e odd)");
            }
        }
    };
}
macro_rules! ipow_big_shape {
    ($name:ident, $neg:expr, $l:expr, $le:expr) => {
        #[kani::proof]
        #[kani::unwind(34)]
        #[kani::stub(<crate::biguint::BigUint as num_traits::Pow<&crate::biguint::BigUint>>::pow, upow_big)]
        fn $name() {
            let a0: [u64; $l] = vc::any_canon::<$l>();
            let e0: [u64; $le] = vc::any_canon::<$le>();
            let x = mkint($neg, &a0);
            let e = vc::mk_from(&e0);
            let r = Pow::pow(x, &e);
            kani::assert(int_canonical(&r), "VERIF BigInt::pow result not canonical");
            let odd = $le > 0 && (e0[0] & 1) == 1;
            if $le == 0 {
                kani::assert(!is_neg(&r) && mag(&r).len() == 1 && mag(&r)[0] == 1, "VERIF x^0 is not +1");
            } else if $l == 0 {
                kani::assert(mag(&r).is_empty(), "VERIF 0^e is not 0");
            } else {
                kani::assert(is_neg(&r) == ($neg && odd), "VERIF BigInt::pow sign is not (x < 0 and e odd)");
            }
        }
    };
}
ipow_shape!(c12_q_ipow_u8_m1, u8, upow_u8, true, 1);
ipow_shape!(c12_q_ipow_u8_p1, u8, upow_u8, false, 1);
ipow_shape!(c12_q_ipow_u8_z, u8, upow_u8, false, 0);
ipow_shape!(c12_q_ipow_u64_m2, u64, upow_u64, true, 2);
ipow_shape!(c12_q_ipow_u128_m1, u128, upow_u128, true, 1);
ipow_big_shape!(c12_q_ipow_big_m1_e2, true, 1, 2);
ipow_big_shape!(c12_q_ipow_big_m1_e0, true, 1, 0);
ipow_big_shape!(c12_q_ipow_big_p1_e1, false, 1, 1);
ipow_big_shape!(c12_q_ipow_big_z_e1, false, 0, 1);
