// C12 / C05 — exponentiation schedules decided by the EXPONENT-TALLY homomorphism (anchored in src/biguint/power.rs):
// every multiplication `x * y` is replaced by "add the tallies" (g^a * g^b = g^(a+b)), every reduction `% m` by the identity.
// A routine built only from multiplications and squarings computes g^e for every g iff its result tally equals e.
#![allow(unused_imports, dead_code)]
use super::*;
use crate::biguint::verif_common as vc;
use alloc::{vec, vec::Vec};
use core::ops::{Mul, MulAssign, Rem, RemAssign};

fn tally(x: &BigUint) -> u64 {
    let d = vc::digits(x);
    if d.is_empty() { 0 } else { d[0] }
}
fn of_tally(t: u64) -> BigUint {
    if t == 0 { BigUint::ZERO } else { vc::mk_from(&[t]) }
}
// stubs (trait-impl stubbing)
fn mul_ref_ref<'a, 'b>(a: &'a BigUint, b: &'b BigUint) -> BigUint
where
    'a: 'a,
    'b: 'b,
{
    of_tally(tally(a).wrapping_add(tally(b)))
}
fn mul_assign_ref<'a>(a: &mut BigUint, b: &'a BigUint)
where
    'a: 'a,
{
    *a = of_tally(tally(a).wrapping_add(tally(b)));
}
fn rem_val_ref<'a>(a: BigUint, _m: &'a BigUint) -> BigUint
where
    'a: 'a,
{
    a
}
fn rem_ref_ref<'a, 'b>(a: &'a BigUint, _m: &'b BigUint) -> BigUint
where
    'a: 'a,
    'b: 'b,
{
    a.clone()
}
fn rem_assign_ref<'a>(_a: &mut BigUint, _m: &'a BigUint)
where
    'a: 'a,
{
}

// Pow<T> for BigUint / &BigUint with the base = tally 1: result tally must be the exponent (mod 2^64), and e = 0 gives one.
// NOTE on e = 0: pow returns BigUint::one() (tally domain: the digit 1) - handled separately below.
macro_rules! pow_shape {
    ($name:ident, $T:ty, $max:expr, $byref:expr) => {
        #[kani::proof]
        #[kani::unwind(20)]
        #[kani::stub(<&BigUint as Mul<&BigUint>>::mul, mul_ref_ref)]
        #[kani::stub(crate::biguint::verif_common::symbolic, crate::biguint::verif_common::yes)]
        #[kani::stub(<BigUint as MulAssign<&BigUint>>::mul_assign, mul_assign_ref)]
        fn $name() {
            let e: $T = kani::any();
            kani::assume(e >= 1 && (e as u128) <= $max);
            if !vc::symbolic() {
                // native replay with the real multiplication: 2^e must be the single bit e
                let two = vc::mk_from(&[2]);
                let r = if $byref { Pow::pow(&two, e) } else { Pow::pow(two, e) };
                kani::assert(r.bits() == e as u64 + 1 && r.trailing_zeros() == Some(e as u64), "VERIF pow schedule: result is not base^exponent (tally differs)");
                return;
            }
            let g = of_tally(1);
            let r = if $byref { Pow::pow(&g, e) } else { Pow::pow(g, e) };
            kani::assert(tally(&r) as u128 == e as u128, "VERIF pow schedule: result is not base^exponent (tally differs)");
            kani::cover!((e as u128) == $max, "reach:max_exponent");
            kani::cover!(e == 1, "reach:exp_one_exit");
        }
    };
}
// powers of two up to the type width: the square-only prefix
macro_rules! pow_two_shape {
    ($name:ident, $T:ty, $k:expr) => {
        #[kani::proof]
        #[kani::unwind(70)]
        #[kani::stub(<&BigUint as Mul<&BigUint>>::mul, mul_ref_ref)]
        #[kani::stub(crate::biguint::verif_common::symbolic, crate::biguint::verif_common::yes)]
        #[kani::stub(<BigUint as MulAssign<&BigUint>>::mul_assign, mul_assign_ref)]
        fn $name() {
            let e: $T = (1 as $T) << $k;
            if !vc::symbolic() {
                return; // 2^(2^k) is too large to replay natively for the k of interest
            }
            let r = Pow::pow(of_tally(1), e);
            kani::assert(tally(&r) as u128 == ((e as u128) & (u64::MAX as u128)), "VERIF pow schedule on 2^k");
        }
    };
}
// exponent zero (and 0^0): one, for every exponent type and both receiver forms
#[kani::proof]
#[kani::unwind(20)]
fn c12_q_pow_zero_exponent() {
    let a0: [u64; 2] = kani::any();
    let x = if a0[1] != 0 { vc::mk_from(&a0) } else if a0[0] != 0 { vc::mk_from(&a0[..1]) } else { BigUint::ZERO };
    let one = |r: BigUint| vc::digits(&r).len() == 1 && vc::digits(&r)[0] == 1;
    kani::assert(one(Pow::pow(&x, 0u8)) && one(Pow::pow(&x, 0u16)) && one(Pow::pow(&x, 0u32)) && one(Pow::pow(&x, 0u64)), "VERIF x^0 != 1");
    kani::assert(one(Pow::pow(&x, 0usize)) && one(Pow::pow(&x, 0u128)) && one(Pow::pow(&x, &0u32)) && one(BigUint::pow(&x, 0u32)), "VERIF x^0 != 1");
    kani::assert(one(Pow::pow(x.clone(), 0u8)) && one(Pow::pow(x.clone(), 0u128)) && one(Pow::pow(x.clone(), &0u64)), "VERIF x^0 != 1 (by value)");
    kani::assert(one(Pow::pow(&x, &BigUint::ZERO)) && one(Pow::pow(x, BigUint::ZERO)), "VERIF x^0 != 1 (BigUint exponent)");
}
// Pow<&BigUint>: shortcuts and narrowing at the u64 / u128 edges
static mut REC_E: u128 = 0;
static mut REC_CALLS: u32 = 0;
fn rec_pow_u64(b: BigUint, e: u64) -> BigUint {
    unsafe { REC_E = e as u128; REC_CALLS += 1; }
    b
}
fn rec_pow_u128(b: BigUint, e: u128) -> BigUint {
    unsafe { REC_E = e; REC_CALLS += 1; }
    b
}
macro_rules! pow_big_shape {
    ($name:ident, $le:expr, $byref:expr) => {
        #[kani::proof]
        #[kani::unwind(20)]
        #[kani::stub(<BigUint as Pow<u64>>::pow, rec_pow_u64)]
        #[kani::stub(crate::biguint::verif_common::symbolic, crate::biguint::verif_common::yes)]
        #[kani::stub(<BigUint as Pow<u128>>::pow, rec_pow_u128)]
        fn $name() {
            let e0: [u64; $le] = vc::any_canon::<$le>();
            let b0: [u64; 1] = kani::any();
            let b = if b0[0] == 0 { BigUint::ZERO } else { vc::mk_from(&b0) };
            let e = vc::mk_from(&e0);
            unsafe { REC_CALLS = 0; }
            if !vc::symbolic() {
                return; // recorder-based harness: no native oracle (x^e with e up to 2^128 cannot be replayed)
            }
            let r = if $byref { Pow::pow(&b, &e) } else { Pow::pow(b, &e) };
            let ev: u128 = (vc::dig(&e0, 0) as u128) | ((vc::dig(&e0, 1) as u128) << 64);
            if b0[0] == 1 || $le == 0 {
                kani::assert(vc::digits(&r).len() == 1 && vc::digits(&r)[0] == 1 && unsafe { REC_CALLS } == 0, "VERIF 1^e or x^0 is not 1");
            } else if b0[0] == 0 {
                kani::assert(vc::digits(&r).is_empty() && unsafe { REC_CALLS } == 0, "VERIF 0^e (e > 0) is not 0");
            } else {
                kani::assert(unsafe { REC_CALLS } == 1 && unsafe { REC_E } == ev, "VERIF BigUint exponent not passed on losslessly");
            }
        }
    };
}
#[kani::proof]
#[kani::unwind(20)]
fn c12_q_pow_big_overflow_mp() {
    let e0: [u64; 3] = vc::any_canon::<3>();
    let b0: [u64; 1] = kani::any();
    kani::assume(b0[0] >= 2);
    let _ = Pow::pow(vc::mk_from(&b0), &vc::mk_from(&e0));
    kani::assert(false, "VERIF_SURVIVED x^(e >= 2^128) returned for x >= 2");
}
#[kani::proof]
#[kani::unwind(20)]
fn c12_q_pow_big_3digit_trivial_bases() {
    let e0: [u64; 3] = vc::any_canon::<3>();
    let one = Pow::pow(vc::mk_from(&[1]), &vc::mk_from(&e0));
    let zero = Pow::pow(BigUint::ZERO, &vc::mk_from(&e0));
    kani::assert(vc::digits(&one).len() == 1 && vc::digits(&one)[0] == 1 && vc::digits(&zero).is_empty(), "VERIF 1^huge / 0^huge");
}

// plain_modpow (even modulus): single exponent digit, tally = exponent; multiplication and reduction abstracted
macro_rules! plain_modpow_shape {
    ($name:ident, $max:expr, $unw:expr) => {
        #[kani::proof]
        #[kani::unwind($unw)]
        #[kani::stub(<&BigUint as Mul<&BigUint>>::mul, mul_ref_ref)]
        #[kani::stub(crate::biguint::verif_common::symbolic, crate::biguint::verif_common::yes)]
        #[kani::stub(<BigUint as MulAssign<&BigUint>>::mul_assign, mul_assign_ref)]
        #[kani::stub(<BigUint as Rem<&BigUint>>::rem, rem_val_ref)]
        #[kani::stub(<&BigUint as Rem<&BigUint>>::rem, rem_ref_ref)]
        #[kani::stub(<BigUint as RemAssign<&BigUint>>::rem_assign, rem_assign_ref)]
        fn $name() {
            let e: u64 = kani::any();
            kani::assume(e >= 1 && e <= $max);
            if !vc::symbolic() {
                // native replay: 2^e modulo 2^70 (even modulus, e <= 4095 < 70 only for small e: use a modulus of 2^4100)
                let m = vc::mk_from(&[1]) << 4100usize;
                let r = plain_modpow(&vc::mk_from(&[2]), &[e], &m);
                kani::assert(r.bits() == e + 1 && r.trailing_zeros() == Some(e), "VERIF plain_modpow schedule: result is not base^exponent (tally differs)");
                return;
            }
            let m = vc::mk_from(&[6]);
            let r = plain_modpow(&of_tally(1), &[e], &m);
            kani::assert(tally(&r) == e, "VERIF plain_modpow schedule: result is not base^exponent (tally differs)");
        }
    };
}
// exponent 0 -> one; dispatch by parity of the modulus; zero modulus panics
static mut REC_WHICH: u8 = 0;
fn rec_monty(_x: &BigUint, _y: &BigUint, _m: &BigUint) -> BigUint {
    unsafe { REC_WHICH = 1; }
    BigUint::ZERO
}
fn rec_plain(_b: &BigUint, _e: &[u64], _m: &BigUint) -> BigUint {
    unsafe { REC_WHICH = 2; }
    BigUint::ZERO
}
#[kani::proof]
#[kani::unwind(20)]
#[kani::stub(crate::biguint::monty::monty_modpow, rec_monty)]
#[kani::stub(plain_modpow, rec_plain)]
#[kani::stub(crate::biguint::verif_common::symbolic, crate::biguint::verif_common::yes)]
fn c12_q_modpow_dispatch() {
    let m0: [u64; 2] = vc::any_canon::<2>();
    let m = vc::mk_from(&m0);
    if !vc::symbolic() {
        // native replay: 3^5 mod m through the real routines
        let r = modpow(&vc::mk_from(&[3]), &vc::mk_from(&[5]), &m);
        kani::assert(vc::eq_window(vc::digits(&r), &[243]), "VERIF modpow dispatch: odd -> Montgomery, even -> plain");
        return;
    }
    unsafe { REC_WHICH = 0; }
    let _ = modpow(&vc::mk_from(&[3]), &vc::mk_from(&[5]), &m);
    kani::assert(unsafe { REC_WHICH } == if m0[0] & 1 == 1 { 1 } else { 2 }, "VERIF modpow dispatch: odd -> Montgomery, even -> plain");
}
#[kani::proof]
#[kani::unwind(20)]
#[kani::stub(crate::biguint::monty::monty_modpow, rec_monty)]
#[kani::stub(plain_modpow, rec_plain)]
fn c12_q_modpow_zero_modulus_mp() {
    let b0: [u64; 1] = kani::any();
    let _ = modpow(&vc::mk_from(&b0), &vc::mk_from(&[5]), &BigUint::ZERO);
    kani::assert(false, "VERIF_SURVIVED modpow with zero modulus returned");
}
#[kani::proof]
#[kani::unwind(20)]
fn c12_q_plain_modpow_zero_exponent() {
    let m0: [u64; 1] = vc::any_canon::<1>();
    let r0 = plain_modpow(&vc::mk_from(&[7]), &[], &vc::mk_from(&m0));
    let r1 = plain_modpow(&vc::mk_from(&[7]), &[0, 0], &vc::mk_from(&m0));
    kani::assert(vc::digits(&r0).len() == 1 && vc::digits(&r0)[0] == 1 && vc::digits(&r1).len() == 1 && vc::digits(&r1)[0] == 1, "VERIF b^0 != 1 in plain_modpow");
}

pow_shape!(c12_q_pow_u8_val, u8, 255, false);
pow_shape!(c12_q_pow_u8_ref, u8, 255, true);
pow_shape!(c12_q_pow_u16, u16, 1023, false);
pow_shape!(c12_q_pow_u32, u32, 1023, true);
pow_shape!(c12_q_pow_u64, u64, 1023, false);
pow_shape!(c12_q_pow_usize, usize, 1023, true);
pow_shape!(c12_q_pow_u128, u128, 1023, false);
pow_shape!(c12_t_pow_u32_4k, u32, 4095, false);
pow_shape!(c12_t_pow_u128_4k, u128, 4095, true);
pow_two_shape!(c12_q_pow_two_u64_40, u64, 40);
pow_two_shape!(c12_t_pow_two_u64_63, u64, 63);
pow_two_shape!(c12_t_pow_two_u128_100, u128, 100);
pow_two_shape!(c12_t_pow_two_u32_31, u32, 31);
pow_big_shape!(c12_q_pow_big_e0, 0, true);
pow_big_shape!(c12_q_pow_big_e1, 1, false);
pow_big_shape!(c12_q_pow_big_e2, 2, true);
plain_modpow_shape!(c12_q_plain_modpow_6bit, 63, 9);
plain_modpow_shape!(c12_t_plain_modpow_8bit, 255, 11);
plain_modpow_shape!(c12_t_plain_modpow_12bit, 4095, 15);
