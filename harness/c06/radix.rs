// C06 — radix kernels (anchored in src/biguint/convert.rs)
#![allow(unused_imports, dead_code)]
use super::*;
use crate::biguint::verif_common as vc;
use alloc::{vec, vec::Vec};

// power-of-two radices: digit i of the output holds bits [i*w, (i+1)*w) of the value (aligned w = 1,2,4,8 and unaligned w = 3,5,6,7)
fn bits_of(x: &[u64], start: u64, w: u32) -> u8 {
    let mut v: u8 = 0;
    let mut j = 0;
    while j < w {
        if vc::ref_bit(x, start + j as u64) {
            v |= 1 << j;
        }
        j += 1;
    }
    v
}
macro_rules! to_pow2_shape {
    ($name:ident, $l:expr, $w:expr, $unw:expr) => {
        #[kani::proof]
        #[kani::unwind($unw)]
        #[kani::stub(alloc::vec::Vec::with_capacity, vc::vec_with_capacity_ignored)]
        fn $name() {
            let a0: [u64; $l] = vc::any_canon::<$l>();
            let a = vc::mk_from(&a0);
            let out = to_radix_le(&a, 1u32 << $w);
            let nbits: u64 = 64 * ($l as u64) - a0[$l - 1].leading_zeros() as u64;
            let nd = ((nbits + $w - 1) / $w) as usize;
            kani::assert(out.len() == nd, "VERIF to_radix_le (2^w): number of digits is not minimal");
            let i: usize = kani::any();
            kani::assume(i < nd);
            kani::assert(out[i] == bits_of(&a0, (i as u64) * $w, $w), "VERIF to_radix_le (2^w): digit is not the corresponding bit group");
        }
    };
}
macro_rules! from_pow2_shape {
    ($name:ident, $n:expr, $w:expr, $words:expr) => {
        from_pow2_shape!($name, $n, $w, $words, 40);
    };
    ($name:ident, $n:expr, $w:expr, $words:expr, $unw:expr) => {
        #[kani::proof]
        #[kani::unwind($unw)]
        #[kani::stub(alloc::vec::Vec::with_capacity, vc::vec_with_capacity_ignored)]
        #[kani::stub(alloc::vec::Vec::shrink_to_fit, vc::noop_shrink)]
        fn $name() {
            let d: [u8; $n] = kani::any();
            let mut i = 0;
            while i < $n {
                kani::assume((d[i] as u32) < (1u32 << $w));
                i += 1;
            }
            let r = from_radix_le(&d, 1u32 << $w);
            match r {
                None => kani::assert(false, "VERIF from_radix_le (2^w) rejected valid digits"),
                Some(u) => {
                    kani::assert(vc::is_canonical(&u), "VERIF from_radix_le (2^w) result not canonical");
                    let k: usize = kani::any();
                    kani::assume(k < $n);
                    kani::assert(bits_of(vc::digits(&u), (k as u64) * $w, $w) == d[k], "VERIF from_radix_le (2^w): bit group differs from the digit");
                    kani::assert(vc::digits(&u).len() <= $words, "VERIF from_radix_le (2^w): too many digits");
                    let top: u64 = kani::any();
                    kani::assume(top >= ($n as u64) * $w && top < 64 * $words);
                    kani::assert(!vc::ref_bit(vc::digits(&u), top), "VERIF from_radix_le (2^w): stray bit above the input");
                }
            }
        }
    };
}
// the per-radix 'largest power fitting a digit' tables (compile-time constants: the harness reads the compiled table)
macro_rules! table_shape {
    ($name:ident, $lo:expr, $hi:expr) => {
        #[kani::proof]
        #[kani::unwind(140)]
        fn $name() {
            let mut r: u32 = $lo;
            while r < $hi {
                if !r.is_power_of_two() {
                    let (base, power) = get_radix_base(r);
                    let mut b: u128 = 1;
                    let mut k = 0;
                    while k < power {
                        b *= r as u128;
                        k += 1;
                    }
                    kani::assert(b == base as u128, "VERIF get_radix_base: base != radix^power");
                    kani::assert(b * (r as u128) > u64::MAX as u128, "VERIF get_radix_base: a larger power would still fit a digit");
                    let (hb, hp) = get_half_radix_base(r);
                    let mut b2: u128 = 1;
                    let mut k = 0;
                    while k < hp {
                        b2 *= r as u128;
                        k += 1;
                    }
                    kani::assert(b2 == hb as u128 && b2 <= big_digit::HALF as u128 && b2 * (r as u128) > big_digit::HALF as u128, "VERIF get_half_radix_base");
                }
                r += 1;
            }
        }
    };
}
// single-chunk Horner input: every digit string of length N below the radix (N <= power, so no big multiplication is involved)
macro_rules! digits_be_shape {
    ($name:ident, $n:expr, $radix:expr) => {
        #[kani::proof]
        #[kani::unwind(12)]
        #[kani::stub(alloc::vec::Vec::with_capacity, vc::vec_with_capacity_ignored)]
        #[kani::stub(alloc::vec::Vec::shrink_to_fit, vc::noop_shrink)]
        fn $name() {
            let d: [u8; $n] = kani::any();
            let mut v: u64 = 0;
            let mut i = 0;
            while i < $n {
                kani::assume((d[i] as u32) < $radix);
                v = v * $radix + d[i] as u64;
                i += 1;
            }
            let r = from_radix_digits_be(&d, $radix);
            kani::assert(vc::is_canonical(&r) && vc::eq_window(vc::digits(&r), &[v]), "VERIF from_radix_digits_be value");
        }
    };
}
to_pow2_shape!(c06_q_to_pow2_1_w1, 1, 1, 70);
to_pow2_shape!(c06_q_to_pow2_1_w4, 1, 4, 20);
to_pow2_shape!(c06_q_to_pow2_2_w8, 2, 8, 20);
to_pow2_shape!(c06_q_to_pow2_1_w3, 1, 3, 30);
to_pow2_shape!(c06_q_to_pow2_2_w5, 2, 5, 34);
to_pow2_shape!(c06_t_to_pow2_2_w7, 2, 7, 30);
to_pow2_shape!(c06_t_to_pow2_2_w6, 2, 6, 30);
to_pow2_shape!(c06_t_to_pow2_2_w2, 2, 2, 70);
from_pow2_shape!(c06_q_from_pow2_n9_w8, 9, 8, 2);
from_pow2_shape!(c06_q_from_pow2_n17_w4, 17, 4, 2);
from_pow2_shape!(c06_q_from_pow2_n13_w5, 13, 5, 2);
from_pow2_shape!(c06_q_from_pow2_n22_w3, 22, 3, 2);
// a radix digit ENDS exactly on a 64-bit word boundary after 64 / gcd(w, 64) digits (32 for w = 6, 64 for w = 3, 5, 7): one digit more than that
from_pow2_shape!(c06_q_from_pow2_n33_w6, 33, 6, 4);
from_pow2_shape!(c06_q_from_pow2_n65_w3, 65, 3, 4, 70);
from_pow2_shape!(c06_t_from_pow2_n65_w5, 65, 5, 6, 70);
from_pow2_shape!(c06_t_from_pow2_n65_w7, 65, 7, 8, 70);
from_pow2_shape!(c06_t_from_pow2_n24_w6, 24, 6, 3);
from_pow2_shape!(c06_t_from_pow2_n19_w7, 19, 7, 3);
from_pow2_shape!(c06_t_from_pow2_n33_w2, 33, 2, 2);
table_shape!(c06_q_tables_3_40, 3, 40);
table_shape!(c06_q_tables_40_128, 40, 128);
table_shape!(c06_q_tables_128_256, 128, 256);
digits_be_shape!(c06_q_digits_be_n3_r10, 3, 10);
digits_be_shape!(c06_q_digits_be_n5_r36, 5, 36);
digits_be_shape!(c06_q_digits_be_n2_r255, 2, 255);
digits_be_shape!(c06_t_digits_be_n7_r3, 7, 3);

// multi-chunk Horner input (non-power-of-two radix): a head chunk of 1 digit (zero included) followed by TWO full chunks, so the
// accumulator is multiplied by the chunk base twice and grows to two or three words. Everything real (mac_with_carry by the constant
// base, add2); oracle: chunk-level Horner in a 4-word window.
fn horner_step(acc: &mut [u64; 4], radix: u64, d: u64) {
    let mut carry: u128 = d as u128;
    let mut i = 0;
    while i < 4 {
        let t = (acc[i] as u128) * (radix as u128) + carry;
        acc[i] = t as u64;
        carry = t >> 64;
        i += 1;
    }
}
macro_rules! digits_be_multi_shape {
    ($name:ident, $n:expr, $radix:expr, $power:expr, $unw:expr, $sparse:expr, $head:expr, $mid:expr) => {
        #[kani::proof]
        #[kani::unwind($unw)]
        #[kani::stub(alloc::vec::Vec::with_capacity, vc::vec_with_capacity_ignored)]
        #[kani::stub(alloc::vec::Vec::shrink_to_fit, vc::noop_shrink)]
        #[kani::stub(core::arch::x86_64::_addcarry_u64, vc::stub_addcarry)]
        #[kani::stub(crate::biguint::addition::schoolbook_add_assign_x86_64, vc::model_add)]
        fn $name() {
            // $n = 1 + 2 * $power digits: value = (d[0] * B + c1) * B + c2 with B = radix^power and c1, c2 the one-word values of the
            // two full chunks (single-chunk values are decided by c06_*_digits_be_n*; B by c06_q_tables_*). A digit-by-digit oracle
            // makes the query a multiplier-equivalence problem that did not finish in 240 s.
            let d: [u8; $n] = kani::any();
            let base: u64 = ($radix as u64).pow($power);
            let mut c = [0u64; 2];
            let mut i = 0;
            while i < $n {
                kani::assume((d[i] as u32) < $radix);
                // pinned variant: the head digit and the first full chunk are concrete (head = $head, chunk = 0...0 $mid), so every
                // data-dependent push has a concrete outcome; the last chunk is arbitrary. THOROUGH TIER ONLY: even the pinned query took
                // 1447 s (2.3 M variables); the fully symbolic one did not finish in 900 s (the accumulator length depends on the data).
                kani::assume(!$sparse || i > $power || d[i] == (if i == 0 { $head } else if i == $power { $mid } else { 0 }));
                if i > 0 {
                    let k = (i - 1) / $power;
                    c[k] = c[k] * $radix + d[i] as u64;
                }
                i += 1;
            }
            let mut e = [d[0] as u64, 0, 0, 0];
            horner_step(&mut e, base, c[0]);
            horner_step(&mut e, base, c[1]);
            kani::cover!(e[1] != 0, "reach: a value above one word");
            let r = from_radix_digits_be(&d, $radix);
            kani::assert(vc::is_canonical(&r), "VERIF from_radix_digits_be (multi-chunk) result not canonical");
            kani::assert(vc::eq_window(vc::digits(&r), &e), "VERIF from_radix_digits_be (multi-chunk) value");
        }
    };
}
digits_be_multi_shape!(c06_t_digits_be_multi_n17_r255_h0, 17, 255, 8, 20, true, 0, 2);
digits_be_multi_shape!(c06_t_digits_be_multi_n17_r255_h3, 17, 255, 8, 20, true, 3, 200);
digits_be_multi_shape!(c06_t_digits_be_multi_n39_r10_h0, 39, 10, 19, 42, true, 0, 7);
digits_be_multi_shape!(c06_t_digits_be_multi_n39_r10_h9, 39, 10, 19, 42, true, 9, 0);


// TEXT LAYER of BigUint::from_str_radix: sign stripping, the underscore rules, digit mapping and the choice of back end, for EVERY
// ASCII string of the stated length. The three back ends are replaced by recorders (their values are decided by the digit-vector
// harnesses above), so the query is about which strings are accepted and which digit vector reaches which back end.
static mut T_KIND: u8 = 0;
static mut T_N: usize = 0;
static mut T_V: [u8; 4] = [0; 4];
static mut T_ARG: u32 = 0;
fn rec_common(kind: u8, v: &[u8], arg: u32) -> BigUint {
    unsafe {
        T_KIND = kind;
        T_N = v.len();
        let mut i = 0;
        while i < 4 {
            T_V[i] = if i < v.len() { v[i] } else { 0 };
            i += 1;
        }
        T_ARG = arg;
    }
    BigUint::ZERO
}
fn rec_bitwise(v: &[u8], bits: u8) -> BigUint { rec_common(1, v, bits as u32) }
fn rec_inexact(v: &[u8], bits: u8) -> BigUint { rec_common(2, v, bits as u32) }
fn rec_digits_be(v: &[u8], radix: u32) -> BigUint { rec_common(3, v, radix) }
fn text_digit(b: u8) -> u8 {
    if b >= b'0' && b <= b'9' {
        b - b'0'
    } else if b >= b'a' && b <= b'z' {
        b - b'a' + 10
    } else if b >= b'A' && b <= b'Z' {
        b - b'A' + 10
    } else {
        255
    }
}
macro_rules! text_layer_shape {
    ($name:ident, $n:expr, $radix:expr) => {
        #[kani::proof]
        #[kani::unwind(8)]
        #[kani::stub(alloc::vec::Vec::with_capacity, vc::vec_with_capacity_ignored)]
        #[kani::stub(alloc::vec::Vec::shrink_to_fit, vc::noop_shrink)]
        #[kani::stub(from_bitwise_digits_le, rec_bitwise)]
        #[kani::stub(from_inexact_bitwise_digits_le, rec_inexact)]
        #[kani::stub(from_radix_digits_be, rec_digits_be)]
        #[kani::stub(crate::biguint::verif_common::symbolic, crate::biguint::verif_common::yes)]
        fn $name() {
            let b: [u8; $n] = kani::any();
            let mut i = 0;
            while i < $n {
                kani::assume(b[i] < 128);
                i += 1;
            }
            // reference acceptor:  [+]? D (D | _)*   (a second plus sign right after the first keeps both, which then fails as a digit)
            let start = if $n > 0 && b[0] == b'+' && !($n > 1 && b[1] == b'+') { 1 } else { 0 };
            let empty = start >= $n;
            let mut ok = !empty && b[start] != b'_';
            let mut ev = [0u8; 4];
            let mut en = 0;
            let mut val: u64 = 0;
            let mut i = start;
            while i < $n {
                if b[i] != b'_' {
                    let dv = text_digit(b[i]);
                    if (dv as u32) < $radix {
                        ev[en] = dv;
                        en += 1;
                        val = val * $radix + dv as u64;
                    } else {
                        ok = false;
                    }
                }
                i += 1;
            }
            let s = unsafe { core::str::from_utf8_unchecked(&b) };
            unsafe { T_KIND = 0; }
            let got = <BigUint as Num>::from_str_radix(s, $radix);
            match got {
                Err(e) => {
                    kani::assert(!ok, "VERIF BigUint::from_str_radix rejected a well-formed string");
                    kani::assert((e.kind == crate::BigIntErrorKind::Empty) == empty, "VERIF BigUint::from_str_radix reports the wrong error kind");
                }
                Ok(u) => {
                    kani::assert(ok, "VERIF BigUint::from_str_radix accepted an ill-formed string");
                    if !ok {
                        return;
                    }
                    if !vc::symbolic() {
                        kani::assert(vc::is_canonical(&u) && vc::eq_window(vc::digits(&u), &[val]), "VERIF BigUint::from_str_radix wrong value");
                        return;
                    }
                    let r: u32 = $radix;
                    let (kind, arg) = if r.is_power_of_two() {
                        let bits = r.trailing_zeros();
                        (if 64 % bits == 0 { 1 } else { 2 }, bits)
                    } else {
                        (3, r)
                    };
                    kani::assert(unsafe { T_KIND } == kind && unsafe { T_ARG } == arg && unsafe { T_N } == en, "VERIF BigUint::from_str_radix: wrong back end / argument / digit count");
                    let k: usize = kani::any();
                    if k < en {
                        let want = if kind == 3 { ev[k] } else { ev[en - 1 - k] };
                        kani::assert(unsafe { T_V }[k] == want, "VERIF BigUint::from_str_radix: digit vector handed to the back end differs from the text");
                    }
                }
            }
            if $n > 0 {
                kani::cover!(ok, "reach: accepted string");
                kani::cover!(!ok && !empty, "reach: rejected string");
            }
        }
    };
}
text_layer_shape!(c06_q_text_n0_r10, 0, 10);
text_layer_shape!(c06_q_text_n1_r10, 1, 10);
text_layer_shape!(c06_q_text_n2_r10, 2, 10);
text_layer_shape!(c06_q_text_n3_r10, 3, 10);
text_layer_shape!(c06_q_text_n3_r16, 3, 16);
text_layer_shape!(c06_q_text_n3_r8, 3, 8);
text_layer_shape!(c06_q_text_n3_r36, 3, 36);
text_layer_shape!(c06_q_text_n3_r2, 3, 2);
text_layer_shape!(c06_t_text_n4_r10, 4, 10);
text_layer_shape!(c06_t_text_n4_r32, 4, 32);
