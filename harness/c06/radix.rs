// C06 — radix kernels (anchored in src/biguint/convert.rs)
#![allow(unused_imports, dead_code)]
use super::*;
use crate::biguint::verif_common as vc;
use alloc::{vec, vec::Vec};

// power-of-two radices: digit i of the output holds bits [i*w, (i+1)*w) of the value (aligned w = 1,2,4,8 and unaligned w = 3,5,6,7)
fn bits_of(x: &[u64], start: u64, w: u32) -> u8 {
    let mut v: u8 = 0;
    let mut j = 0;
    while j < w {
        if vc::ref_bit(x, start + j as u64) {
            v |= 1 << j;
        }
        j += 1;
    }
    v
}
macro_rules! to_pow2_shape {
    ($name:ident, $l:expr, $w:expr, $unw:expr) => {
        #[kani::proof]
        #[kani::unwind($unw)]
        #[kani::stub(alloc::vec::Vec::with_capacity, vc::vec_with_capacity_ignored)]
        fn $name() {
            let a0: [u64; $l] = vc::any_canon::<$l>();
            let a = vc::mk_from(&a0);
            let out = to_radix_le(&a, 1u32 << $w);
            let nbits: u64 = 64 * ($l as u64) - a0[$l - 1].leading_zeros() as u64;
            let nd = ((nbits + $w - 1) / $w) as usize;
            kani::assert(out.len() == nd, "VERIF to_radix_le (2^w): number of digits is not minimal");
            let i: usize = kani::any();
            kani::assume(i < nd);
            kani::assert(out[i] == bits_of(&a0, (i as u64) * $w, $w), "VERIF to_radix_le (2^w): digit is not the corresponding bit group");
        }
    };
}
macro_rules! from_pow2_shape {
    ($name:ident, $n:expr, $w:expr, $words:expr) => {
        #[kani::proof]
        #[kani::unwind(40)]
        #[kani::stub(alloc::vec::Vec::with_capacity, vc::vec_with_capacity_ignored)]
        #[kani::stub(alloc::vec::Vec::shrink_to_fit, vc::noop_shrink)]
        fn $name() {
            let d: [u8; $n] = kani::any();
            let mut i = 0;
            while i < $n {
                kani::assume((d[i] as u32) < (1u32 << $w));
                i += 1;
            }
            let r = from_radix_le(&d, 1u32 << $w);
            match r {
                None => kani::assert(false, "VERIF from_radix_le (2^w) rejected valid digits"),
                Some(u) => {
                    kani::assert(vc::is_canonical(&u), "VERIF from_radix_le (2^w) result not canonical");
                    let k: usize = kani::any();
                    kani::assume(k < $n);
                    kani::assert(bits_of(vc::digits(&u), (k as u64) * $w, $w) == d[k], "VERIF from_radix_le (2^w): bit group differs from the digit");
                    kani::assert(vc::digits(&u).len() <= $words, "VERIF from_radix_le (2^w): too many digits");
                    let top: u64 = kani::any();
                    kani::assume(top >= ($n as u64) * $w && top < 64 * $words);
                    kani::assert(!vc::ref_bit(vc::digits(&u), top), "VERIF from_radix_le (2^w): stray bit above the input");
                }
            }
        }
    };
}
// the per-radix 'largest power fitting a digit' tables (compile-time constants: the harness reads the compiled table)
macro_rules! table_shape {
    ($name:ident, $lo:expr, $hi:expr) => {
        #[kani::proof]
        #[kani::unwind(140)]
        fn $name() {
            let mut r: u32 = $lo;
            while r < $hi {
                if !r.is_power_of_two() {
                    let (base, power) = get_radix_base(r);
                    let mut b: u128 = 1;
                    let mut k = 0;
                    while k < power {
                        b *= r as u128;
                        k += 1;
                    }
                    kani::assert(b == base as u128, "VERIF get_radix_base: base != radix^power");
                    kani::assert(b * (r as u128) > u64::MAX as u128, "VERIF get_radix_base: a larger power would still fit a digit");
                    let (hb, hp) = get_half_radix_base(r);
                    let mut b2: u128 = 1;
                    let mut k = 0;
                    while k < hp {
                        b2 *= r as u128;
                        k += 1;
                    }
                    kani::assert(b2 == hb as u128 && b2 <= big_digit::HALF as u128 && b2 * (r as u128) > big_digit::HALF as u128, "VERIF get_half_radix_base");
                }
                r += 1;
            }
        }
    };
}
// single-chunk Horner input: every digit string of length N below the radix (N <= power, so no big multiplication is involved)
macro_rules! digits_be_shape {
    ($name:ident, $n:expr, $radix:expr) => {
        #[kani::proof]
        #[kani::unwind(12)]
        #[kani::stub(alloc::vec::Vec::with_capacity, vc::vec_with_capacity_ignored)]
        #[kani::stub(alloc::vec::Vec::shrink_to_fit, vc::noop_shrink)]
        fn $name() {
            let d: [u8; $n] = kani::any();
            let mut v: u64 = 0;
            let mut i = 0;
            while i < $n {
                kani::assume((d[i] as u32) < $radix);
                v = v * $radix + d[i] as u64;
                i += 1;
            }
            let r = from_radix_digits_be(&d, $radix);
            kani::assert(vc::is_canonical(&r) && vc::eq_window(vc::digits(&r), &[v]), "VERIF from_radix_digits_be value");
        }
    };
}
to_pow2_shape!(c06_q_to_pow2_1_w1, 1, 1, 70);
to_pow2_shape!(c06_q_to_pow2_1_w4, 1, 4, 20);
to_pow2_shape!(c06_q_to_pow2_2_w8, 2, 8, 20);
to_pow2_shape!(c06_q_to_pow2_1_w3, 1, 3, 30);
to_pow2_shape!(c06_q_to_pow2_2_w5, 2, 5, 34);
to_pow2_shape!(c06_t_to_pow2_2_w7, 2, 7, 30);
to_pow2_shape!(c06_t_to_pow2_2_w6, 2, 6, 30);
to_pow2_shape!(c06_t_to_pow2_2_w2, 2, 2, 70);
from_pow2_shape!(c06_q_from_pow2_n9_w8, 9, 8, 2);
from_pow2_shape!(c06_q_from_pow2_n17_w4, 17, 4, 2);
from_pow2_shape!(c06_q_from_pow2_n13_w5, 13, 5, 2);
from_pow2_shape!(c06_q_from_pow2_n22_w3, 22, 3, 2);
from_pow2_shape!(c06_t_from_pow2_n24_w6, 24, 6, 3);
from_pow2_shape!(c06_t_from_pow2_n19_w7, 19, 7, 3);
from_pow2_shape!(c06_t_from_pow2_n33_w2, 33, 2, 2);
table_shape!(c06_q_tables_3_40, 3, 40);
table_shape!(c06_q_tables_40_128, 40, 128);
table_shape!(c06_q_tables_128_256, 128, 256);
digits_be_shape!(c06_q_digits_be_n3_r10, 3, 10);
digits_be_shape!(c06_q_digits_be_n5_r36, 5, 36);
digits_be_shape!(c06_q_digits_be_n2_r255, 2, 255);
digits_be_shape!(c06_t_digits_be_n7_r3, 7, 3);
