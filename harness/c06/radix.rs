// C06 — radix kernels (anchored in src/biguint/convert.rs)
#![allow(unused_imports, dead_code)]
use super::*;
use crate::biguint::verif_common as vc;
use alloc::{vec, vec::Vec};

#[kani::proof]
#[kani::unwind(12)]
#[kani::stub(alloc::vec::Vec::with_capacity, vc::vec_with_capacity_ignored)]
#[kani::stub(alloc::vec::Vec::shrink_to_fit, vc::noop_shrink)]
fn c06_x_probe_digits_be() {
    let d: [u8; 2] = kani::any();
    kani::assume(d[0] < 10 && d[1] < 10);
    let r = from_radix_digits_be(&d, 10);
    kani::assert(vc::eq_window(vc::digits(&r), &[(d[0] as u64) * 10 + d[1] as u64]), "VERIF value");
}
#[kani::proof]
#[kani::unwind(12)]
fn c06_x_probe_strip() {
    let b: [u8; 2] = kani::any();
    kani::assume(b[0] < 128 && b[1] < 128);
    let s = unsafe { core::str::from_utf8_unchecked(&b) };
    let t = s.strip_prefix('+');
    kani::assert(t.is_some() == (b[0] == b'+'), "VERIF strip");
    kani::assert(s.starts_with('_') == (b[0] == b'_'), "VERIF starts");
}
