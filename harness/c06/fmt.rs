// C06 — formatter boundary (anchored in src/bigint.rs): Display/Binary/Octal/LowerHex/UpperHex hand (is_nonnegative, radix prefix, digits of the right radix,
// upper-cased only for UpperHex) to core's Formatter::pad_integral, which applies width/fill/sign/# flags and is TRUSTED. The digit text itself
// (to_str_radix) is replaced by a recorder returning a marker string.
#![allow(unused_imports, dead_code, static_mut_refs)]
use super::*;
use crate::bigint::verif_icommon::*;
use crate::biguint::verif_common as vc;
use alloc::string::String;
use alloc::{vec, vec::Vec};
use core::fmt::Write;

static mut REC_RADIX: u32 = 0;
static mut REC_NONNEG: bool = false;
static mut REC_PREFIX: [u8; 2] = [0; 2];
static mut REC_PLEN: usize = 0;
static mut REC_BUF: [u8; 2] = [0; 2];
static mut REC_CALLS: u32 = 0;
fn to_str_radix_rec(_x: &BigUint, radix: u32) -> String {
    unsafe { REC_RADIX = radix; }
    String::from("a1")
}
fn pad_integral_rec<'a>(_f: &mut fmt::Formatter<'a>, is_nonnegative: bool, prefix: &str, buf: &str) -> fmt::Result
where
    'a: 'a,
{
    unsafe {
        REC_CALLS += 1;
        REC_NONNEG = is_nonnegative;
        REC_PLEN = prefix.len();
        let pb = prefix.as_bytes();
        REC_PREFIX = [if pb.len() > 0 { pb[0] } else { 0 }, if pb.len() > 1 { pb[1] } else { 0 }];
        let bb = buf.as_bytes();
        REC_BUF = [if bb.len() > 0 { bb[0] } else { 0 }, if bb.len() > 1 { bb[1] } else { 0 }];
    }
    Ok(())
}
struct Sink;
impl fmt::Write for Sink {
    fn write_str(&mut self, _s: &str) -> fmt::Result {
        Ok(())
    }
}
macro_rules! fmt_shape {
    ($name:ident, $neg:expr, $fmtstr:expr, $radix:expr, $p0:expr, $p1:expr, $plen:expr, $upper:expr) => {
        #[kani::proof]
        #[kani::unwind(34)]
        #[kani::stub(crate::biguint::BigUint::to_str_radix, to_str_radix_rec)]
        #[kani::stub(core::fmt::Formatter::pad_integral, pad_integral_rec)]
        #[kani::stub(crate::biguint::verif_common::symbolic, crate::biguint::verif_common::yes)]
        fn $name() {
            let a0: [u64; 1] = vc::any_canon::<1>();
            let x = mkint($neg, &a0);
            if !vc::symbolic() {
                return; // recorder harness: core's formatting is trusted, nothing to replay natively
            }
            unsafe { REC_CALLS = 0; }
            let mut s = Sink;
            let _ = write!(s, $fmtstr, x);
            kani::assert(unsafe { REC_CALLS } == 1, "VERIF formatter did not call pad_integral exactly once");
            kani::assert(unsafe { REC_RADIX } == $radix, "VERIF formatter used the wrong radix");
            kani::assert(unsafe { REC_NONNEG } == !$neg, "VERIF formatter passed the wrong sign to pad_integral");
            kani::assert(unsafe { REC_PLEN } == $plen && unsafe { REC_PREFIX } == [$p0, $p1], "VERIF formatter passed the wrong radix prefix");
            let e = if $upper { [b'A', b'1'] } else { [b'a', b'1'] };
            kani::assert(unsafe { REC_BUF } == e, "VERIF formatter changed the digit text (only UpperHex upper-cases)");
        }
    };
}
// to_str_radix wrappers: reversed digit bytes -> text, '-' prepended for negative values only (digit production under a recorder)
fn reversed_rec(_u: &BigUint, radix: u32) -> Vec<u8> {
    unsafe { REC_RADIX = radix; }
    vec![b'7', b'z', b'1']   // least significant first
}
macro_rules! to_str_shape {
    ($name:ident, $neg:expr, $l:expr) => {
        #[kani::proof]
        #[kani::unwind(34)]
        #[kani::stub(crate::biguint::convert::to_str_radix_reversed, reversed_rec)]
        #[kani::stub(crate::biguint::verif_common::symbolic, crate::biguint::verif_common::yes)]
        fn $name() {
            let a0: [u64; $l] = vc::any_canon::<$l>();
            let x = mkint($neg, &a0);
            if !vc::symbolic() {
                return;
            }
            let radix: u32 = kani::any();
            kani::assume(radix >= 2 && radix <= 36);
            let s = x.to_str_radix(radix);
            let b = s.as_bytes();
            let neg = $neg && $l > 0;
            kani::assert(unsafe { REC_RADIX } == radix, "VERIF to_str_radix passed a different radix on");
            kani::assert(b.len() == 3 + neg as usize, "VERIF to_str_radix length (sign handling)");
            let o = neg as usize;
            kani::assert((!neg || b[0] == b'-') && b[o] == b'1' && b[o + 1] == b'z' && b[o + 2] == b'7', "VERIF to_str_radix: not '-' + most-significant-first digits");
            let u = vc::mk_from(&a0).to_str_radix(radix);
            kani::assert(u.as_bytes() == [b'1', b'z', b'7'], "VERIF BigUint::to_str_radix: digits not reversed into most-significant-first order");
        }
    };
}
to_str_shape!(c06_q_to_str_wrap_m1, true, 1);
to_str_shape!(c06_q_to_str_wrap_p2, false, 2);
to_str_shape!(c06_q_to_str_wrap_z, false, 0);
macro_rules! ufmt_shape {
    ($name:ident, $fmtstr:expr, $radix:expr, $p0:expr, $p1:expr, $plen:expr, $upper:expr) => {
        #[kani::proof]
        #[kani::unwind(34)]
        #[kani::stub(crate::biguint::BigUint::to_str_radix, to_str_radix_rec)]
        #[kani::stub(core::fmt::Formatter::pad_integral, pad_integral_rec)]
        #[kani::stub(crate::biguint::verif_common::symbolic, crate::biguint::verif_common::yes)]
        fn $name() {
            let a0: [u64; 2] = vc::any_canon::<2>();
            let x = vc::mk_from(&a0);
            if !vc::symbolic() {
                return;
            }
            unsafe { REC_CALLS = 0; }
            let mut s = Sink;
            let _ = write!(s, $fmtstr, x);
            kani::assert(unsafe { REC_CALLS } == 1 && unsafe { REC_RADIX } == $radix && unsafe { REC_NONNEG }, "VERIF BigUint formatter: pad_integral call / radix / sign");
            kani::assert(unsafe { REC_PLEN } == $plen && unsafe { REC_PREFIX } == [$p0, $p1], "VERIF BigUint formatter passed the wrong radix prefix");
            let e = if $upper { [b'A', b'1'] } else { [b'a', b'1'] };
            kani::assert(unsafe { REC_BUF } == e, "VERIF BigUint formatter changed the digit text (only UpperHex upper-cases)");
        }
    };
}
ufmt_shape!(c06_q_ufmt_display, "{}", 10, 0, 0, 0, false);
ufmt_shape!(c06_q_ufmt_debug, "{:?}", 10, 0, 0, 0, false);
ufmt_shape!(c06_q_ufmt_upperhex, "{:#X}", 16, b'0', b'x', 2, true);
ufmt_shape!(c06_q_ufmt_lowerhex, "{:08x}", 16, b'0', b'x', 2, false);
ufmt_shape!(c06_q_ufmt_octal, "{:o}", 8, b'0', b'o', 2, false);
ufmt_shape!(c06_q_ufmt_binary, "{:+b}", 2, b'0', b'b', 2, false);
fmt_shape!(c06_q_fmt_display_p, false, "{}", 10, 0, 0, 0, false);
fmt_shape!(c06_q_fmt_display_m, true, "{}", 10, 0, 0, 0, false);
fmt_shape!(c06_q_fmt_lowerhex_m, true, "{:x}", 16, b'0', b'x', 2, false);
fmt_shape!(c06_q_fmt_upperhex_p, false, "{:X}", 16, b'0', b'x', 2, true);
fmt_shape!(c06_q_fmt_binary_m, true, "{:b}", 2, b'0', b'b', 2, false);
fmt_shape!(c06_q_fmt_octal_p, false, "{:o}", 8, b'0', b'o', 2, false);
