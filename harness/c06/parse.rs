// C06 — text input: from_str_radix / FromStr / parse_bytes / from_radix_* as language membership + value
// (anchored in src/bigint/convert.rs; BigUint's public parsers are reached from here too)
#![allow(unused_imports, dead_code)]
use super::*;
use crate::bigint::verif_icommon::*;
use crate::biguint::verif_common as vc;
use alloc::{vec, vec::Vec};
use num_traits::Num;

fn digit_val(b: u8) -> u8 {
    if b >= b'0' && b <= b'9' {
        b - b'0'
    } else if b >= b'a' && b <= b'z' {
        b - b'a' + 10
    } else if b >= b'A' && b <= b'Z' {
        b - b'A' + 10
    } else {
        255
    }
}
/// reference acceptor for the unsigned grammar  [+]? D (D | _)*  ; returns Some(value) iff the text is well formed
fn ref_parse(s: &[u8], radix: u32, allow_minus: bool) -> Option<(bool, u64)> {
    let n = s.len();
    let mut pos = 0;
    let mut neg = false;
    if n > 0 && s[0] == b'+' {
        pos = 1;
    } else if allow_minus && n > 0 && s[0] == b'-' {
        pos = 1;
        neg = true;
    }
    if pos >= n {
        return None;
    }
    let d0 = digit_val(s[pos]);
    if d0 as u32 >= radix {
        return None;
    }
    let mut v: u64 = d0 as u64;
    let mut i = pos + 1;
    while i < n {
        if s[i] != b'_' {
            let d = digit_val(s[i]);
            if d as u32 >= radix {
                return None;
            }
            v = v * (radix as u64) + d as u64;
        }
        i += 1;
    }
    Some((neg, v))
}

// every ASCII string of length N, concrete radix
macro_rules! parse_shape {
    ($name:ident, $n:expr, $radix:expr) => {
        #[kani::proof]
        #[kani::unwind(12)]
        #[kani::stub(alloc::vec::Vec::with_capacity, vc::vec_with_capacity_ignored)]
        #[kani::stub(alloc::vec::Vec::shrink_to_fit, vc::noop_shrink)]
        fn $name() {
            let b: [u8; $n] = kani::any();
            let mut i = 0;
            while i < $n {
                kani::assume(b[i] < 128);
                i += 1;
            }
            let s = unsafe { core::str::from_utf8_unchecked(&b) };
            let got = BigUint::from_str_radix(s, $radix);
            let got_ok = got.is_ok();
            match ref_parse(&b, $radix, false) {
                Some((_, v)) => match got {
                    Ok(u) => kani::assert(vc::is_canonical(&u) && vc::eq_window(vc::digits(&u), &[v]), "VERIF BigUint::from_str_radix wrong value"),
                    Err(_) => kani::assert(false, "VERIF BigUint::from_str_radix rejected a well-formed string"),
                },
                None => kani::assert(got.is_err(), "VERIF BigUint::from_str_radix accepted an ill-formed string"),
            }
            let goti = BigInt::from_str_radix(s, $radix);
            let goti_ok = goti.is_ok();
            match ref_parse(&b, $radix, true) {
                Some((neg, v)) => match goti {
                    Ok(x) => kani::assert(int_canonical(&x) && vc::eq_window(mag(&x), &[v]) && (is_neg(&x) == (neg && v != 0)), "VERIF BigInt::from_str_radix wrong value/sign"),
                    Err(_) => kani::assert(false, "VERIF BigInt::from_str_radix rejected a well-formed string"),
                },
                None => kani::assert(goti.is_err(), "VERIF BigInt::from_str_radix accepted an ill-formed string"),
            }
            kani::cover!($n == 0 || got_ok, "reach:accepted");
            kani::cover!($n < 2 || (!got_ok && goti_ok), "reach:minus_sign_only_for_bigint");
        }
    };
}
// FromStr = radix 10; parse_bytes: None for non-UTF-8 / ill-formed, value otherwise
macro_rules! parse_bytes_shape {
    ($name:ident, $n:expr) => {
        #[kani::proof]
        #[kani::unwind(12)]
        #[kani::stub(alloc::vec::Vec::with_capacity, vc::vec_with_capacity_ignored)]
        #[kani::stub(alloc::vec::Vec::shrink_to_fit, vc::noop_shrink)]
        fn $name() {
            let b: [u8; $n] = kani::any();
            let mut ascii = true;
            let mut i = 0;
            while i < $n {
                if b[i] >= 128 {
                    ascii = false;
                }
                i += 1;
            }
            // restrict to: pure ASCII, or one stray byte >= 0x80 that can never start/continue a valid sequence of this length
            kani::assume(ascii || $n == 1 || b[$n - 1] >= 128);
            kani::assume(ascii || (b[$n - 1] >= 0xf8 || (b[$n - 1] >= 0x80 && b[$n - 1] < 0xc0 && ($n == 1 || b[$n - 2] < 128)) || b[$n - 1] >= 0xc0));
            let got = BigUint::parse_bytes(&b, 10);
            let got_some = got.is_some();
            if !ascii {
                kani::assert(got.is_none(), "VERIF parse_bytes accepted non-UTF-8 input");
            } else {
                match ref_parse(&b, 10, false) {
                    Some((_, v)) => match got {
                        Some(u) => kani::assert(vc::eq_window(vc::digits(&u), &[v]), "VERIF parse_bytes wrong value"),
                        None => kani::assert(false, "VERIF parse_bytes rejected a well-formed string"),
                    },
                    None => kani::assert(got.is_none(), "VERIF parse_bytes accepted an ill-formed string"),
                }
                let s = unsafe { core::str::from_utf8_unchecked(&b) };
                let f: Result<BigUint, _> = s.parse();
                kani::assert(f.is_ok() == got_some, "VERIF FromStr disagrees with parse_bytes(.., 10)");
            }
        }
    };
}
// from_radix_be / from_radix_le on digit slices: any digit >= radix -> None, empty -> zero, value otherwise
macro_rules! from_radix_shape {
    ($name:ident, $n:expr, $radix:expr) => {
        #[kani::proof]
        #[kani::unwind(12)]
        #[kani::stub(alloc::vec::Vec::with_capacity, vc::vec_with_capacity_ignored)]
        #[kani::stub(alloc::vec::Vec::shrink_to_fit, vc::noop_shrink)]
        fn $name() {
            let d: [u8; $n] = kani::any();
            let mut ok = true;
            let mut v: u64 = 0;
            let mut i = 0;
            while i < $n {
                if d[i] as u32 >= $radix {
                    ok = false;
                }
                v = v.wrapping_mul($radix as u64).wrapping_add(d[i] as u64);
                i += 1;
            }
            let be = BigUint::from_radix_be(&d, $radix);
            let mut r = d;
            r.reverse();
            let le = BigUint::from_radix_le(&r, $radix);
            match be {
                Some(u) => kani::assert(ok && vc::is_canonical(&u) && vc::eq_window(vc::digits(&u), &[v]), "VERIF from_radix_be value / accepted a digit >= radix"),
                None => kani::assert(!ok, "VERIF from_radix_be rejected valid digits"),
            }
            match le {
                Some(u) => kani::assert(ok && vc::is_canonical(&u) && vc::eq_window(vc::digits(&u), &[v]), "VERIF from_radix_le value / accepted a digit >= radix"),
                None => kani::assert(!ok, "VERIF from_radix_le rejected valid digits"),
            }
            let bi = BigInt::from_radix_be(Sign::Minus, &d, $radix);
            match bi {
                Some(x) => kani::assert(ok && int_canonical(&x) && vc::eq_window(mag(&x), &[v]) && (is_neg(&x) == (v != 0)), "VERIF BigInt::from_radix_be"),
                None => kani::assert(!ok, "VERIF BigInt::from_radix_be rejected valid digits"),
            }
        }
    };
}
macro_rules! radix_range_mp {
    ($name:ident, $which:expr) => {
        #[kani::proof]
        #[kani::unwind(12)]
        fn $name() {
            let r: u32 = kani::any();
            if $which == 0 {
                kani::assume(r < 2 || r > 36);
                let _ = BigUint::from_str_radix("1", r);
            } else if $which == 1 {
                kani::assume(r < 2 || r > 256);
                let _ = BigUint::from_radix_be(&[1], r);
            } else if $which == 2 {
                kani::assume(r < 2 || r > 256);
                let _ = BigUint::from_radix_le(&[1], r);
            } else if $which == 3 {
                kani::assume(r < 2 || r > 36);
                let _ = vc::mk_from(&[5]).to_str_radix(r);
            } else {
                kani::assume(r < 2 || r > 36);
                let _ = mkint(true, &[5]).to_str_radix(r);
            }
            kani::assert(false, "VERIF_SURVIVED radix outside the allowed range accepted");
        }
    };
}

// BEGIN GENERATED c06_parse
parse_shape!(c06_t_parse_n0_r2, 0, 2);
parse_shape!(c06_t_parse_n0_r8, 0, 8);
parse_shape!(c06_q_parse_n0_r10, 0, 10);
parse_shape!(c06_q_parse_n0_r16, 0, 16);
parse_shape!(c06_t_parse_n0_r36, 0, 36);
parse_shape!(c06_t_parse_n0_r3, 0, 3);
parse_shape!(c06_t_parse_n0_r7, 0, 7);
parse_shape!(c06_t_parse_n0_r32, 0, 32);
parse_shape!(c06_t_parse_n1_r2, 1, 2);
parse_shape!(c06_t_parse_n1_r8, 1, 8);
parse_shape!(c06_q_parse_n1_r10, 1, 10);
parse_shape!(c06_q_parse_n1_r16, 1, 16);
parse_shape!(c06_t_parse_n1_r36, 1, 36);
parse_shape!(c06_t_parse_n1_r3, 1, 3);
parse_shape!(c06_t_parse_n1_r7, 1, 7);
parse_shape!(c06_t_parse_n1_r32, 1, 32);
parse_shape!(c06_q_parse_n2_r2, 2, 2);
parse_shape!(c06_q_parse_n2_r8, 2, 8);
parse_shape!(c06_q_parse_n2_r10, 2, 10);
parse_shape!(c06_q_parse_n2_r16, 2, 16);
parse_shape!(c06_q_parse_n2_r36, 2, 36);
parse_shape!(c06_t_parse_n2_r3, 2, 3);
parse_shape!(c06_t_parse_n2_r7, 2, 7);
parse_shape!(c06_t_parse_n2_r32, 2, 32);
parse_shape!(c06_t_parse_n3_r2, 3, 2);
parse_shape!(c06_t_parse_n3_r8, 3, 8);
parse_shape!(c06_q_parse_n3_r10, 3, 10);
parse_shape!(c06_q_parse_n3_r16, 3, 16);
parse_shape!(c06_t_parse_n3_r36, 3, 36);
parse_shape!(c06_t_parse_n3_r3, 3, 3);
parse_shape!(c06_t_parse_n3_r7, 3, 7);
parse_shape!(c06_t_parse_n3_r32, 3, 32);
parse_shape!(c06_t_parse_n4_r2, 4, 2);
parse_shape!(c06_t_parse_n4_r8, 4, 8);
parse_shape!(c06_q_parse_n4_r10, 4, 10);
parse_shape!(c06_t_parse_n4_r16, 4, 16);
parse_shape!(c06_t_parse_n4_r36, 4, 36);
parse_shape!(c06_t_parse_n4_r3, 4, 3);
parse_shape!(c06_t_parse_n4_r7, 4, 7);
parse_shape!(c06_t_parse_n4_r32, 4, 32);
parse_shape!(c06_t_parse_n5_r10, 5, 10);
parse_bytes_shape!(c06_q_parse_bytes_1, 1);
parse_bytes_shape!(c06_q_parse_bytes_2, 2);
parse_bytes_shape!(c06_t_parse_bytes_3, 3);
from_radix_shape!(c06_t_from_radix_n0_r3, 0, 3);
from_radix_shape!(c06_q_from_radix_n0_r10, 0, 10);
from_radix_shape!(c06_t_from_radix_n0_r190, 0, 190);
from_radix_shape!(c06_t_from_radix_n0_r255, 0, 255);
from_radix_shape!(c06_q_from_radix_n0_r256, 0, 256);
from_radix_shape!(c06_t_from_radix_n0_r2, 0, 2);
from_radix_shape!(c06_q_from_radix_n0_r16, 0, 16);
from_radix_shape!(c06_t_from_radix_n0_r8, 0, 8);
from_radix_shape!(c06_t_from_radix_n0_r128, 0, 128);
from_radix_shape!(c06_t_from_radix_n1_r3, 1, 3);
from_radix_shape!(c06_q_from_radix_n1_r10, 1, 10);
from_radix_shape!(c06_t_from_radix_n1_r190, 1, 190);
from_radix_shape!(c06_t_from_radix_n1_r255, 1, 255);
from_radix_shape!(c06_q_from_radix_n1_r256, 1, 256);
from_radix_shape!(c06_t_from_radix_n1_r2, 1, 2);
from_radix_shape!(c06_q_from_radix_n1_r16, 1, 16);
from_radix_shape!(c06_t_from_radix_n1_r8, 1, 8);
from_radix_shape!(c06_t_from_radix_n1_r128, 1, 128);
from_radix_shape!(c06_q_from_radix_n2_r3, 2, 3);
from_radix_shape!(c06_t_from_radix_n2_r10, 2, 10);
from_radix_shape!(c06_t_from_radix_n2_r190, 2, 190);
from_radix_shape!(c06_q_from_radix_n2_r255, 2, 255);
from_radix_shape!(c06_t_from_radix_n2_r256, 2, 256);
from_radix_shape!(c06_t_from_radix_n2_r2, 2, 2);
from_radix_shape!(c06_t_from_radix_n2_r16, 2, 16);
from_radix_shape!(c06_q_from_radix_n2_r8, 2, 8);
from_radix_shape!(c06_t_from_radix_n2_r128, 2, 128);
from_radix_shape!(c06_t_from_radix_n3_r3, 3, 3);
from_radix_shape!(c06_q_from_radix_n3_r10, 3, 10);
from_radix_shape!(c06_t_from_radix_n3_r190, 3, 190);
from_radix_shape!(c06_t_from_radix_n3_r255, 3, 255);
from_radix_shape!(c06_q_from_radix_n3_r256, 3, 256);
from_radix_shape!(c06_t_from_radix_n3_r2, 3, 2);
from_radix_shape!(c06_q_from_radix_n3_r16, 3, 16);
from_radix_shape!(c06_t_from_radix_n3_r8, 3, 8);
from_radix_shape!(c06_t_from_radix_n3_r128, 3, 128);
from_radix_shape!(c06_t_from_radix_n4_r3, 4, 3);
from_radix_shape!(c06_t_from_radix_n4_r10, 4, 10);
from_radix_shape!(c06_t_from_radix_n4_r190, 4, 190);
from_radix_shape!(c06_t_from_radix_n4_r255, 4, 255);
from_radix_shape!(c06_t_from_radix_n4_r256, 4, 256);
from_radix_shape!(c06_t_from_radix_n4_r2, 4, 2);
from_radix_shape!(c06_t_from_radix_n4_r16, 4, 16);
from_radix_shape!(c06_t_from_radix_n4_r8, 4, 8);
from_radix_shape!(c06_t_from_radix_n4_r128, 4, 128);
radix_range_mp!(c06_q_radix_range_0_mp, 0);
radix_range_mp!(c06_q_radix_range_1_mp, 1);
radix_range_mp!(c06_q_radix_range_2_mp, 2);
radix_range_mp!(c06_q_radix_range_3_mp, 3);
radix_range_mp!(c06_q_radix_range_4_mp, 4);
// END GENERATED
