// C06 — text input: from_str_radix / FromStr / parse_bytes / from_radix_* as language membership + value
// (anchored in src/bigint/convert.rs; BigUint's public parsers are reached from here too)
#![allow(unused_imports, dead_code)]
use super::*;
use crate::bigint::verif_icommon::*;
use crate::biguint::verif_common as vc;
use alloc::{vec, vec::Vec};
use num_traits::Num;

fn digit_val(b: u8) -> u8 {
    if b >= b'0' && b <= b'9' {
        b - b'0'
    } else if b >= b'a' && b <= b'z' {
        b - b'a' + 10
    } else if b >= b'A' && b <= b'Z' {
        b - b'A' + 10
    } else {
        255
    }
}
/// reference acceptor for the unsigned grammar  [+]? D (D | _)*  ; returns Some(value) iff the text is well formed
fn ref_parse(s: &[u8], radix: u32, allow_minus: bool) -> Option<(bool, u64)> {
    let n = s.len();
    let mut pos = 0;
    let mut neg = false;
    if n > 0 && s[0] == b'+' {
        pos = 1;
    } else if allow_minus && n > 0 && s[0] == b'-' {
        pos = 1;
        neg = true;
    }
    if pos >= n {
        return None;
    }
    let d0 = digit_val(s[pos]);
    if d0 as u32 >= radix {
        return None;
    }
    let mut v: u64 = d0 as u64;
    let mut i = pos + 1;
    while i < n {
        if s[i] != b'_' {
            let d = digit_val(s[i]);
            if d as u32 >= radix {
                return None;
            }
            v = v * (radix as u64) + d as u64;
        }
        i += 1;
    }
    Some((neg, v))
}

// every ASCII string of a concrete CLASS PATTERN, concrete radix. The pattern fixes, per position, only whether the byte
// is '+', '-', '_' or "anything else" (so the number of digits that survive underscore-stripping is concrete per query);
// all bytes of class "anything else" are symbolic over the other 125+ ASCII values. Every pattern of the length is enumerated.
fn class_ok(b: u8, cls: u8, first: bool) -> bool {
    match cls {
        b'p' => b == b'+',
        b'm' => b == b'-',
        b'u' => b == b'_',
        // 'x': anything else; in the first position that also excludes the sign characters
        _ => b < 128 && b != b'_' && !(first && (b == b'+' || b == b'-')),
    }
}
macro_rules! parse_shape {
    ($name:ident, $n:expr, $radix:expr, $pat:expr, $int:expr) => {
        #[kani::proof]
        #[kani::unwind(12)]
        #[kani::stub(alloc::vec::Vec::with_capacity, vc::vec_with_capacity_ignored)]
        #[kani::stub(alloc::vec::Vec::shrink_to_fit, vc::noop_shrink)]
        fn $name() {
            let b: [u8; $n] = kani::any();
            let pat: &[u8; $n] = $pat;
            let mut i = 0;
            while i < $n {
                kani::assume(class_ok(b[i], pat[i], i == 0));
                i += 1;
            }
            let s = unsafe { core::str::from_utf8_unchecked(&b) };
            if !$int {
                let got = BigUint::from_str_radix(s, $radix);
                match ref_parse(&b, $radix, false) {
                    Some((_, v)) => match got {
                        Ok(u) => kani::assert(vc::is_canonical(&u) && vc::eq_window(vc::digits(&u), &[v]), "VERIF BigUint::from_str_radix wrong value"),
                        Err(_) => kani::assert(false, "VERIF BigUint::from_str_radix rejected a well-formed string"),
                    },
                    None => kani::assert(got.is_err(), "VERIF BigUint::from_str_radix accepted an ill-formed string"),
                }
            } else {
                let goti = BigInt::from_str_radix(s, $radix);
                match ref_parse(&b, $radix, true) {
                    Some((neg, v)) => match goti {
                        Ok(x) => kani::assert(int_canonical(&x) && vc::eq_window(mag(&x), &[v]) && (is_neg(&x) == (neg && v != 0)), "VERIF BigInt::from_str_radix wrong value/sign"),
                        Err(_) => kani::assert(false, "VERIF BigInt::from_str_radix rejected a well-formed string"),
                    },
                    None => kani::assert(goti.is_err(), "VERIF BigInt::from_str_radix accepted an ill-formed string"),
                }
            }
            kani::cover!(true, "reach:end_of_harness");
        }
    };
}
// FromStr = radix 10; parse_bytes: None for non-UTF-8 / ill-formed, value otherwise
macro_rules! parse_bytes_shape {
    ($name:ident, $n:expr) => {
        #[kani::proof]
        #[kani::unwind(12)]
        #[kani::stub(alloc::vec::Vec::with_capacity, vc::vec_with_capacity_ignored)]
        #[kani::stub(alloc::vec::Vec::shrink_to_fit, vc::noop_shrink)]
        fn $name() {
            let b: [u8; $n] = kani::any();
            let mut ascii = true;
            let mut i = 0;
            while i < $n {
                if b[i] >= 128 {
                    ascii = false;
                }
                i += 1;
            }
            // restrict to: pure ASCII, or one stray byte >= 0x80 that can never start/continue a valid sequence of this length
            kani::assume(ascii || $n == 1 || b[$n - 1] >= 128);
            kani::assume(ascii || (b[$n - 1] >= 0xf8 || (b[$n - 1] >= 0x80 && b[$n - 1] < 0xc0 && ($n == 1 || b[$n - 2] < 128)) || b[$n - 1] >= 0xc0));
            let got = BigUint::parse_bytes(&b, 10);
            let got_some = got.is_some();
            if !ascii {
                kani::assert(got.is_none(), "VERIF parse_bytes accepted non-UTF-8 input");
            } else {
                match ref_parse(&b, 10, false) {
                    Some((_, v)) => match got {
                        Some(u) => kani::assert(vc::eq_window(vc::digits(&u), &[v]), "VERIF parse_bytes wrong value"),
                        None => kani::assert(false, "VERIF parse_bytes rejected a well-formed string"),
                    },
                    None => kani::assert(got.is_none(), "VERIF parse_bytes accepted an ill-formed string"),
                }
                let s = unsafe { core::str::from_utf8_unchecked(&b) };
                let f: Result<BigUint, _> = s.parse();
                kani::assert(f.is_ok() == got_some, "VERIF FromStr disagrees with parse_bytes(.., 10)");
            }
        }
    };
}
// from_radix_be / from_radix_le on digit slices: any digit >= radix -> None, empty -> zero, value otherwise
macro_rules! from_radix_shape {
    ($name:ident, $n:expr, $radix:expr) => {
        #[kani::proof]
        #[kani::unwind(12)]
        #[kani::stub(alloc::vec::Vec::with_capacity, vc::vec_with_capacity_ignored)]
        #[kani::stub(alloc::vec::Vec::shrink_to_fit, vc::noop_shrink)]
        fn $name() {
            let d: [u8; $n] = kani::any();
            let mut ok = true;
            let mut v: u64 = 0;
            let mut i = 0;
            while i < $n {
                if d[i] as u32 >= $radix {
                    ok = false;
                }
                v = v.wrapping_mul($radix as u64).wrapping_add(d[i] as u64);
                i += 1;
            }
            let be = BigUint::from_radix_be(&d, $radix);
            let mut r = d;
            r.reverse();
            let le = BigUint::from_radix_le(&r, $radix);
            match be {
                Some(u) => kani::assert(ok && vc::is_canonical(&u) && vc::eq_window(vc::digits(&u), &[v]), "VERIF from_radix_be value / accepted a digit >= radix"),
                None => kani::assert(!ok, "VERIF from_radix_be rejected valid digits"),
            }
            match le {
                Some(u) => kani::assert(ok && vc::is_canonical(&u) && vc::eq_window(vc::digits(&u), &[v]), "VERIF from_radix_le value / accepted a digit >= radix"),
                None => kani::assert(!ok, "VERIF from_radix_le rejected valid digits"),
            }
            let bi = BigInt::from_radix_be(Sign::Minus, &d, $radix);
            match bi {
                Some(x) => kani::assert(ok && int_canonical(&x) && vc::eq_window(mag(&x), &[v]) && (is_neg(&x) == (v != 0)), "VERIF BigInt::from_radix_be"),
                None => kani::assert(!ok, "VERIF BigInt::from_radix_be rejected valid digits"),
            }
        }
    };
}
macro_rules! radix_range_mp {
    ($name:ident, $which:expr) => {
        #[kani::proof]
        #[kani::unwind(12)]
        fn $name() {
            let r: u32 = kani::any();
            if $which == 0 {
                kani::assume(r < 2 || r > 36);
                let _ = BigUint::from_str_radix("1", r);
            } else if $which == 1 {
                kani::assume(r < 2 || r > 256);
                let _ = BigUint::from_radix_be(&[1], r);
            } else if $which == 2 {
                kani::assume(r < 2 || r > 256);
                let _ = BigUint::from_radix_le(&[1], r);
            } else if $which == 3 {
                kani::assume(r < 2 || r > 36);
                let _ = vc::mk_from(&[5]).to_str_radix(r);
            } else {
                kani::assume(r < 2 || r > 36);
                let _ = mkint(true, &[5]).to_str_radix(r);
            }
            kani::assert(false, "VERIF_SURVIVED radix outside the allowed range accepted");
        }
    };
}

// one fully symbolic ASCII byte at position K of a concrete template (all other bytes as written)
macro_rules! parse_hole_shape {
    ($name:ident, $n:expr, $radix:expr, $tpl:expr, $k:expr, $int:expr) => {
        #[kani::proof]
        #[kani::unwind(12)]
        #[kani::stub(alloc::vec::Vec::with_capacity, vc::vec_with_capacity_ignored)]
        #[kani::stub(alloc::vec::Vec::shrink_to_fit, vc::noop_shrink)]
        fn $name() {
            let mut b: [u8; $n] = *$tpl;
            let c: u8 = kani::any();
            kani::assume(c < 128);
            b[$k] = c;
            let s = unsafe { core::str::from_utf8_unchecked(&b) };
            if !$int {
                let got = BigUint::from_str_radix(s, $radix);
                match ref_parse(&b, $radix, false) {
                    Some((_, v)) => match got {
                        Ok(u) => kani::assert(vc::is_canonical(&u) && vc::eq_window(vc::digits(&u), &[v]), "VERIF BigUint::from_str_radix wrong value"),
                        Err(_) => kani::assert(false, "VERIF BigUint::from_str_radix rejected a well-formed string"),
                    },
                    None => kani::assert(got.is_err(), "VERIF BigUint::from_str_radix accepted an ill-formed string"),
                }
            } else {
                let goti = BigInt::from_str_radix(s, $radix);
                match ref_parse(&b, $radix, true) {
                    Some((neg, v)) => match goti {
                        Ok(x) => kani::assert(int_canonical(&x) && vc::eq_window(mag(&x), &[v]) && (is_neg(&x) == (neg && v != 0)), "VERIF BigInt::from_str_radix wrong value/sign"),
                        Err(_) => kani::assert(false, "VERIF BigInt::from_str_radix rejected a well-formed string"),
                    },
                    None => kani::assert(goti.is_err(), "VERIF BigInt::from_str_radix accepted an ill-formed string"),
                }
            }
        }
    };
}
parse_hole_shape!(c06_x_hole_a, 2, 10, b"12", 0, false);
parse_hole_shape!(c06_x_hole_b, 1, 10, b"1", 0, false);
parse_hole_shape!(c06_x_hole_c, 3, 10, b"123", 1, false);
parse_hole_shape!(c06_x_hole_d, 3, 10, b"-23", 1, true);

// BEGIN GENERATED c06_parse
parse_shape!(c06_q_parse_uint_r10_empty, 0, 10, b"", false);
parse_shape!(c06_q_parse_int_r10_empty, 0, 10, b"", true);
parse_shape!(c06_q_parse_uint_r16_empty, 0, 16, b"", false);
parse_shape!(c06_t_parse_int_r16_empty, 0, 16, b"", true);
parse_shape!(c06_t_parse_uint_r2_empty, 0, 2, b"", false);
parse_shape!(c06_t_parse_int_r2_empty, 0, 2, b"", true);
parse_shape!(c06_t_parse_uint_r36_empty, 0, 36, b"", false);
parse_shape!(c06_t_parse_int_r36_empty, 0, 36, b"", true);
parse_shape!(c06_q_parse_uint_r10_p, 1, 10, b"p", false);
parse_shape!(c06_q_parse_uint_r10_u, 1, 10, b"u", false);
parse_shape!(c06_q_parse_uint_r10_x, 1, 10, b"x", false);
parse_shape!(c06_q_parse_int_r10_p, 1, 10, b"p", true);
parse_shape!(c06_q_parse_int_r10_u, 1, 10, b"u", true);
parse_shape!(c06_q_parse_int_r10_x, 1, 10, b"x", true);
parse_shape!(c06_q_parse_int_r10_m, 1, 10, b"m", true);
parse_shape!(c06_q_parse_uint_r16_p, 1, 16, b"p", false);
parse_shape!(c06_q_parse_uint_r16_u, 1, 16, b"u", false);
parse_shape!(c06_q_parse_uint_r16_x, 1, 16, b"x", false);
parse_shape!(c06_t_parse_int_r16_m, 1, 16, b"m", true);
parse_shape!(c06_t_parse_uint_r2_p, 1, 2, b"p", false);
parse_shape!(c06_t_parse_uint_r2_u, 1, 2, b"u", false);
parse_shape!(c06_t_parse_uint_r2_x, 1, 2, b"x", false);
parse_shape!(c06_t_parse_int_r2_m, 1, 2, b"m", true);
parse_shape!(c06_t_parse_uint_r36_p, 1, 36, b"p", false);
parse_shape!(c06_t_parse_uint_r36_u, 1, 36, b"u", false);
parse_shape!(c06_t_parse_uint_r36_x, 1, 36, b"x", false);
parse_shape!(c06_t_parse_int_r36_m, 1, 36, b"m", true);
parse_shape!(c06_q_parse_uint_r10_pu, 2, 10, b"pu", false);
parse_shape!(c06_q_parse_uint_r10_px, 2, 10, b"px", false);
parse_shape!(c06_q_parse_uint_r10_uu, 2, 10, b"uu", false);
parse_shape!(c06_q_parse_uint_r10_ux, 2, 10, b"ux", false);
parse_shape!(c06_q_parse_uint_r10_xu, 2, 10, b"xu", false);
parse_shape!(c06_q_parse_uint_r10_xx, 2, 10, b"xx", false);
parse_shape!(c06_q_parse_int_r10_pu, 2, 10, b"pu", true);
parse_shape!(c06_q_parse_int_r10_px, 2, 10, b"px", true);
parse_shape!(c06_q_parse_int_r10_uu, 2, 10, b"uu", true);
parse_shape!(c06_q_parse_int_r10_ux, 2, 10, b"ux", true);
parse_shape!(c06_q_parse_int_r10_xu, 2, 10, b"xu", true);
parse_shape!(c06_q_parse_int_r10_xx, 2, 10, b"xx", true);
parse_shape!(c06_q_parse_int_r10_mu, 2, 10, b"mu", true);
parse_shape!(c06_q_parse_int_r10_mx, 2, 10, b"mx", true);
parse_shape!(c06_q_parse_uint_r16_pu, 2, 16, b"pu", false);
parse_shape!(c06_q_parse_uint_r16_px, 2, 16, b"px", false);
parse_shape!(c06_q_parse_uint_r16_uu, 2, 16, b"uu", false);
parse_shape!(c06_q_parse_uint_r16_ux, 2, 16, b"ux", false);
parse_shape!(c06_q_parse_uint_r16_xu, 2, 16, b"xu", false);
parse_shape!(c06_q_parse_uint_r16_xx, 2, 16, b"xx", false);
parse_shape!(c06_t_parse_int_r16_mu, 2, 16, b"mu", true);
parse_shape!(c06_t_parse_int_r16_mx, 2, 16, b"mx", true);
parse_shape!(c06_t_parse_uint_r2_pu, 2, 2, b"pu", false);
parse_shape!(c06_q_parse_uint_r2_px, 2, 2, b"px", false);
parse_shape!(c06_t_parse_uint_r2_uu, 2, 2, b"uu", false);
parse_shape!(c06_t_parse_uint_r2_ux, 2, 2, b"ux", false);
parse_shape!(c06_t_parse_uint_r2_xu, 2, 2, b"xu", false);
parse_shape!(c06_q_parse_uint_r2_xx, 2, 2, b"xx", false);
parse_shape!(c06_t_parse_int_r2_mu, 2, 2, b"mu", true);
parse_shape!(c06_q_parse_int_r2_mx, 2, 2, b"mx", true);
parse_shape!(c06_t_parse_uint_r36_pu, 2, 36, b"pu", false);
parse_shape!(c06_q_parse_uint_r36_px, 2, 36, b"px", false);
parse_shape!(c06_t_parse_uint_r36_uu, 2, 36, b"uu", false);
parse_shape!(c06_t_parse_uint_r36_ux, 2, 36, b"ux", false);
parse_shape!(c06_t_parse_uint_r36_xu, 2, 36, b"xu", false);
parse_shape!(c06_q_parse_uint_r36_xx, 2, 36, b"xx", false);
parse_shape!(c06_t_parse_int_r36_mu, 2, 36, b"mu", true);
parse_shape!(c06_q_parse_int_r36_mx, 2, 36, b"mx", true);
parse_shape!(c06_t_parse_uint_r8_pu, 2, 8, b"pu", false);
parse_shape!(c06_t_parse_uint_r8_px, 2, 8, b"px", false);
parse_shape!(c06_t_parse_uint_r8_uu, 2, 8, b"uu", false);
parse_shape!(c06_t_parse_uint_r8_ux, 2, 8, b"ux", false);
parse_shape!(c06_t_parse_uint_r8_xu, 2, 8, b"xu", false);
parse_shape!(c06_t_parse_uint_r8_xx, 2, 8, b"xx", false);
parse_shape!(c06_t_parse_int_r8_mu, 2, 8, b"mu", true);
parse_shape!(c06_t_parse_int_r8_mx, 2, 8, b"mx", true);
parse_shape!(c06_t_parse_uint_r3_pu, 2, 3, b"pu", false);
parse_shape!(c06_t_parse_uint_r3_px, 2, 3, b"px", false);
parse_shape!(c06_t_parse_uint_r3_uu, 2, 3, b"uu", false);
parse_shape!(c06_t_parse_uint_r3_ux, 2, 3, b"ux", false);
parse_shape!(c06_t_parse_uint_r3_xu, 2, 3, b"xu", false);
parse_shape!(c06_t_parse_uint_r3_xx, 2, 3, b"xx", false);
parse_shape!(c06_t_parse_int_r3_mu, 2, 3, b"mu", true);
parse_shape!(c06_t_parse_int_r3_mx, 2, 3, b"mx", true);
parse_shape!(c06_q_parse_uint_r10_puu, 3, 10, b"puu", false);
parse_shape!(c06_q_parse_uint_r10_pux, 3, 10, b"pux", false);
parse_shape!(c06_q_parse_uint_r10_pxu, 3, 10, b"pxu", false);
parse_shape!(c06_q_parse_uint_r10_pxx, 3, 10, b"pxx", false);
parse_shape!(c06_q_parse_uint_r10_uuu, 3, 10, b"uuu", false);
parse_shape!(c06_q_parse_uint_r10_uux, 3, 10, b"uux", false);
parse_shape!(c06_q_parse_uint_r10_uxu, 3, 10, b"uxu", false);
parse_shape!(c06_q_parse_uint_r10_uxx, 3, 10, b"uxx", false);
parse_shape!(c06_q_parse_uint_r10_xuu, 3, 10, b"xuu", false);
parse_shape!(c06_q_parse_uint_r10_xux, 3, 10, b"xux", false);
parse_shape!(c06_q_parse_uint_r10_xxu, 3, 10, b"xxu", false);
parse_shape!(c06_q_parse_uint_r10_xxx, 3, 10, b"xxx", false);
parse_shape!(c06_q_parse_int_r10_puu, 3, 10, b"puu", true);
parse_shape!(c06_q_parse_int_r10_pux, 3, 10, b"pux", true);
parse_shape!(c06_q_parse_int_r10_pxu, 3, 10, b"pxu", true);
parse_shape!(c06_q_parse_int_r10_pxx, 3, 10, b"pxx", true);
parse_shape!(c06_q_parse_int_r10_uuu, 3, 10, b"uuu", true);
parse_shape!(c06_q_parse_int_r10_uux, 3, 10, b"uux", true);
parse_shape!(c06_q_parse_int_r10_uxu, 3, 10, b"uxu", true);
parse_shape!(c06_q_parse_int_r10_uxx, 3, 10, b"uxx", true);
parse_shape!(c06_q_parse_int_r10_xuu, 3, 10, b"xuu", true);
parse_shape!(c06_q_parse_int_r10_xux, 3, 10, b"xux", true);
parse_shape!(c06_q_parse_int_r10_xxu, 3, 10, b"xxu", true);
parse_shape!(c06_q_parse_int_r10_xxx, 3, 10, b"xxx", true);
parse_shape!(c06_q_parse_int_r10_muu, 3, 10, b"muu", true);
parse_shape!(c06_q_parse_int_r10_mux, 3, 10, b"mux", true);
parse_shape!(c06_q_parse_int_r10_mxu, 3, 10, b"mxu", true);
parse_shape!(c06_q_parse_int_r10_mxx, 3, 10, b"mxx", true);
parse_shape!(c06_t_parse_uint_r16_puu, 3, 16, b"puu", false);
parse_shape!(c06_t_parse_uint_r16_pux, 3, 16, b"pux", false);
parse_shape!(c06_t_parse_uint_r16_pxu, 3, 16, b"pxu", false);
parse_shape!(c06_t_parse_uint_r16_pxx, 3, 16, b"pxx", false);
parse_shape!(c06_t_parse_uint_r16_uuu, 3, 16, b"uuu", false);
parse_shape!(c06_t_parse_uint_r16_uux, 3, 16, b"uux", false);
parse_shape!(c06_t_parse_uint_r16_uxu, 3, 16, b"uxu", false);
parse_shape!(c06_t_parse_uint_r16_uxx, 3, 16, b"uxx", false);
parse_shape!(c06_t_parse_uint_r16_xuu, 3, 16, b"xuu", false);
parse_shape!(c06_t_parse_uint_r16_xux, 3, 16, b"xux", false);
parse_shape!(c06_t_parse_uint_r16_xxu, 3, 16, b"xxu", false);
parse_shape!(c06_t_parse_uint_r16_xxx, 3, 16, b"xxx", false);
parse_shape!(c06_t_parse_int_r16_muu, 3, 16, b"muu", true);
parse_shape!(c06_t_parse_int_r16_mux, 3, 16, b"mux", true);
parse_shape!(c06_t_parse_int_r16_mxu, 3, 16, b"mxu", true);
parse_shape!(c06_t_parse_int_r16_mxx, 3, 16, b"mxx", true);
parse_shape!(c06_t_parse_uint_r2_puu, 3, 2, b"puu", false);
parse_shape!(c06_t_parse_uint_r2_pux, 3, 2, b"pux", false);
parse_shape!(c06_t_parse_uint_r2_pxu, 3, 2, b"pxu", false);
parse_shape!(c06_t_parse_uint_r2_pxx, 3, 2, b"pxx", false);
parse_shape!(c06_t_parse_uint_r2_uuu, 3, 2, b"uuu", false);
parse_shape!(c06_t_parse_uint_r2_uux, 3, 2, b"uux", false);
parse_shape!(c06_t_parse_uint_r2_uxu, 3, 2, b"uxu", false);
parse_shape!(c06_t_parse_uint_r2_uxx, 3, 2, b"uxx", false);
parse_shape!(c06_t_parse_uint_r2_xuu, 3, 2, b"xuu", false);
parse_shape!(c06_t_parse_uint_r2_xux, 3, 2, b"xux", false);
parse_shape!(c06_t_parse_uint_r2_xxu, 3, 2, b"xxu", false);
parse_shape!(c06_t_parse_uint_r2_xxx, 3, 2, b"xxx", false);
parse_shape!(c06_t_parse_int_r2_muu, 3, 2, b"muu", true);
parse_shape!(c06_t_parse_int_r2_mux, 3, 2, b"mux", true);
parse_shape!(c06_t_parse_int_r2_mxu, 3, 2, b"mxu", true);
parse_shape!(c06_t_parse_int_r2_mxx, 3, 2, b"mxx", true);
parse_shape!(c06_t_parse_uint_r36_puu, 3, 36, b"puu", false);
parse_shape!(c06_t_parse_uint_r36_pux, 3, 36, b"pux", false);
parse_shape!(c06_t_parse_uint_r36_pxu, 3, 36, b"pxu", false);
parse_shape!(c06_t_parse_uint_r36_pxx, 3, 36, b"pxx", false);
parse_shape!(c06_t_parse_uint_r36_uuu, 3, 36, b"uuu", false);
parse_shape!(c06_t_parse_uint_r36_uux, 3, 36, b"uux", false);
parse_shape!(c06_t_parse_uint_r36_uxu, 3, 36, b"uxu", false);
parse_shape!(c06_t_parse_uint_r36_uxx, 3, 36, b"uxx", false);
parse_shape!(c06_t_parse_uint_r36_xuu, 3, 36, b"xuu", false);
parse_shape!(c06_t_parse_uint_r36_xux, 3, 36, b"xux", false);
parse_shape!(c06_t_parse_uint_r36_xxu, 3, 36, b"xxu", false);
parse_shape!(c06_t_parse_uint_r36_xxx, 3, 36, b"xxx", false);
parse_shape!(c06_t_parse_int_r36_muu, 3, 36, b"muu", true);
parse_shape!(c06_t_parse_int_r36_mux, 3, 36, b"mux", true);
parse_shape!(c06_t_parse_int_r36_mxu, 3, 36, b"mxu", true);
parse_shape!(c06_t_parse_int_r36_mxx, 3, 36, b"mxx", true);
parse_shape!(c06_t_parse_uint_r10_puuu, 4, 10, b"puuu", false);
parse_shape!(c06_t_parse_uint_r10_puux, 4, 10, b"puux", false);
parse_shape!(c06_t_parse_uint_r10_puxu, 4, 10, b"puxu", false);
parse_shape!(c06_t_parse_uint_r10_puxx, 4, 10, b"puxx", false);
parse_shape!(c06_t_parse_uint_r10_pxuu, 4, 10, b"pxuu", false);
parse_shape!(c06_t_parse_uint_r10_pxux, 4, 10, b"pxux", false);
parse_shape!(c06_t_parse_uint_r10_pxxu, 4, 10, b"pxxu", false);
parse_shape!(c06_t_parse_uint_r10_pxxx, 4, 10, b"pxxx", false);
parse_shape!(c06_t_parse_uint_r10_uuuu, 4, 10, b"uuuu", false);
parse_shape!(c06_t_parse_uint_r10_uuux, 4, 10, b"uuux", false);
parse_shape!(c06_t_parse_uint_r10_uuxu, 4, 10, b"uuxu", false);
parse_shape!(c06_t_parse_uint_r10_uuxx, 4, 10, b"uuxx", false);
parse_shape!(c06_t_parse_uint_r10_uxuu, 4, 10, b"uxuu", false);
parse_shape!(c06_t_parse_uint_r10_uxux, 4, 10, b"uxux", false);
parse_shape!(c06_t_parse_uint_r10_uxxu, 4, 10, b"uxxu", false);
parse_shape!(c06_t_parse_uint_r10_uxxx, 4, 10, b"uxxx", false);
parse_shape!(c06_t_parse_uint_r10_xuuu, 4, 10, b"xuuu", false);
parse_shape!(c06_t_parse_uint_r10_xuux, 4, 10, b"xuux", false);
parse_shape!(c06_t_parse_uint_r10_xuxu, 4, 10, b"xuxu", false);
parse_shape!(c06_t_parse_uint_r10_xuxx, 4, 10, b"xuxx", false);
parse_shape!(c06_t_parse_uint_r10_xxuu, 4, 10, b"xxuu", false);
parse_shape!(c06_t_parse_uint_r10_xxux, 4, 10, b"xxux", false);
parse_shape!(c06_t_parse_uint_r10_xxxu, 4, 10, b"xxxu", false);
parse_shape!(c06_t_parse_uint_r10_xxxx, 4, 10, b"xxxx", false);
parse_shape!(c06_t_parse_int_r10_puuu, 4, 10, b"puuu", true);
parse_shape!(c06_t_parse_int_r10_puux, 4, 10, b"puux", true);
parse_shape!(c06_t_parse_int_r10_puxu, 4, 10, b"puxu", true);
parse_shape!(c06_t_parse_int_r10_puxx, 4, 10, b"puxx", true);
parse_shape!(c06_t_parse_int_r10_pxuu, 4, 10, b"pxuu", true);
parse_shape!(c06_t_parse_int_r10_pxux, 4, 10, b"pxux", true);
parse_shape!(c06_t_parse_int_r10_pxxu, 4, 10, b"pxxu", true);
parse_shape!(c06_t_parse_int_r10_pxxx, 4, 10, b"pxxx", true);
parse_shape!(c06_t_parse_int_r10_uuuu, 4, 10, b"uuuu", true);
parse_shape!(c06_t_parse_int_r10_uuux, 4, 10, b"uuux", true);
parse_shape!(c06_t_parse_int_r10_uuxu, 4, 10, b"uuxu", true);
parse_shape!(c06_t_parse_int_r10_uuxx, 4, 10, b"uuxx", true);
parse_shape!(c06_t_parse_int_r10_uxuu, 4, 10, b"uxuu", true);
parse_shape!(c06_t_parse_int_r10_uxux, 4, 10, b"uxux", true);
parse_shape!(c06_t_parse_int_r10_uxxu, 4, 10, b"uxxu", true);
parse_shape!(c06_t_parse_int_r10_uxxx, 4, 10, b"uxxx", true);
parse_shape!(c06_t_parse_int_r10_xuuu, 4, 10, b"xuuu", true);
parse_shape!(c06_t_parse_int_r10_xuux, 4, 10, b"xuux", true);
parse_shape!(c06_t_parse_int_r10_xuxu, 4, 10, b"xuxu", true);
parse_shape!(c06_t_parse_int_r10_xuxx, 4, 10, b"xuxx", true);
parse_shape!(c06_t_parse_int_r10_xxuu, 4, 10, b"xxuu", true);
parse_shape!(c06_t_parse_int_r10_xxux, 4, 10, b"xxux", true);
parse_shape!(c06_t_parse_int_r10_xxxu, 4, 10, b"xxxu", true);
parse_shape!(c06_t_parse_int_r10_xxxx, 4, 10, b"xxxx", true);
parse_shape!(c06_t_parse_int_r10_muuu, 4, 10, b"muuu", true);
parse_shape!(c06_t_parse_int_r10_muux, 4, 10, b"muux", true);
parse_shape!(c06_t_parse_int_r10_muxu, 4, 10, b"muxu", true);
parse_shape!(c06_t_parse_int_r10_muxx, 4, 10, b"muxx", true);
parse_shape!(c06_t_parse_int_r10_mxuu, 4, 10, b"mxuu", true);
parse_shape!(c06_t_parse_int_r10_mxux, 4, 10, b"mxux", true);
parse_shape!(c06_t_parse_int_r10_mxxu, 4, 10, b"mxxu", true);
parse_shape!(c06_t_parse_int_r10_mxxx, 4, 10, b"mxxx", true);
parse_shape!(c06_t_parse_uint_r16_puuu, 4, 16, b"puuu", false);
parse_shape!(c06_t_parse_uint_r16_puux, 4, 16, b"puux", false);
parse_shape!(c06_t_parse_uint_r16_puxu, 4, 16, b"puxu", false);
parse_shape!(c06_t_parse_uint_r16_puxx, 4, 16, b"puxx", false);
parse_shape!(c06_t_parse_uint_r16_pxuu, 4, 16, b"pxuu", false);
parse_shape!(c06_t_parse_uint_r16_pxux, 4, 16, b"pxux", false);
parse_shape!(c06_t_parse_uint_r16_pxxu, 4, 16, b"pxxu", false);
parse_shape!(c06_t_parse_uint_r16_pxxx, 4, 16, b"pxxx", false);
parse_shape!(c06_t_parse_uint_r16_uuuu, 4, 16, b"uuuu", false);
parse_shape!(c06_t_parse_uint_r16_uuux, 4, 16, b"uuux", false);
parse_shape!(c06_t_parse_uint_r16_uuxu, 4, 16, b"uuxu", false);
parse_shape!(c06_t_parse_uint_r16_uuxx, 4, 16, b"uuxx", false);
parse_shape!(c06_t_parse_uint_r16_uxuu, 4, 16, b"uxuu", false);
parse_shape!(c06_t_parse_uint_r16_uxux, 4, 16, b"uxux", false);
parse_shape!(c06_t_parse_uint_r16_uxxu, 4, 16, b"uxxu", false);
parse_shape!(c06_t_parse_uint_r16_uxxx, 4, 16, b"uxxx", false);
parse_shape!(c06_t_parse_uint_r16_xuuu, 4, 16, b"xuuu", false);
parse_shape!(c06_t_parse_uint_r16_xuux, 4, 16, b"xuux", false);
parse_shape!(c06_t_parse_uint_r16_xuxu, 4, 16, b"xuxu", false);
parse_shape!(c06_t_parse_uint_r16_xuxx, 4, 16, b"xuxx", false);
parse_shape!(c06_t_parse_uint_r16_xxuu, 4, 16, b"xxuu", false);
parse_shape!(c06_t_parse_uint_r16_xxux, 4, 16, b"xxux", false);
parse_shape!(c06_t_parse_uint_r16_xxxu, 4, 16, b"xxxu", false);
parse_shape!(c06_t_parse_uint_r16_xxxx, 4, 16, b"xxxx", false);
parse_shape!(c06_t_parse_int_r16_muuu, 4, 16, b"muuu", true);
parse_shape!(c06_t_parse_int_r16_muux, 4, 16, b"muux", true);
parse_shape!(c06_t_parse_int_r16_muxu, 4, 16, b"muxu", true);
parse_shape!(c06_t_parse_int_r16_muxx, 4, 16, b"muxx", true);
parse_shape!(c06_t_parse_int_r16_mxuu, 4, 16, b"mxuu", true);
parse_shape!(c06_t_parse_int_r16_mxux, 4, 16, b"mxux", true);
parse_shape!(c06_t_parse_int_r16_mxxu, 4, 16, b"mxxu", true);
parse_shape!(c06_t_parse_int_r16_mxxx, 4, 16, b"mxxx", true);
parse_shape!(c06_t_parse_uint_r2_puuu, 4, 2, b"puuu", false);
parse_shape!(c06_t_parse_uint_r2_puux, 4, 2, b"puux", false);
parse_shape!(c06_t_parse_uint_r2_puxu, 4, 2, b"puxu", false);
parse_shape!(c06_t_parse_uint_r2_puxx, 4, 2, b"puxx", false);
parse_shape!(c06_t_parse_uint_r2_pxuu, 4, 2, b"pxuu", false);
parse_shape!(c06_t_parse_uint_r2_pxux, 4, 2, b"pxux", false);
parse_shape!(c06_t_parse_uint_r2_pxxu, 4, 2, b"pxxu", false);
parse_shape!(c06_t_parse_uint_r2_pxxx, 4, 2, b"pxxx", false);
parse_shape!(c06_t_parse_uint_r2_uuuu, 4, 2, b"uuuu", false);
parse_shape!(c06_t_parse_uint_r2_uuux, 4, 2, b"uuux", false);
parse_shape!(c06_t_parse_uint_r2_uuxu, 4, 2, b"uuxu", false);
parse_shape!(c06_t_parse_uint_r2_uuxx, 4, 2, b"uuxx", false);
parse_shape!(c06_t_parse_uint_r2_uxuu, 4, 2, b"uxuu", false);
parse_shape!(c06_t_parse_uint_r2_uxux, 4, 2, b"uxux", false);
parse_shape!(c06_t_parse_uint_r2_uxxu, 4, 2, b"uxxu", false);
parse_shape!(c06_t_parse_uint_r2_uxxx, 4, 2, b"uxxx", false);
parse_shape!(c06_t_parse_uint_r2_xuuu, 4, 2, b"xuuu", false);
parse_shape!(c06_t_parse_uint_r2_xuux, 4, 2, b"xuux", false);
parse_shape!(c06_t_parse_uint_r2_xuxu, 4, 2, b"xuxu", false);
parse_shape!(c06_t_parse_uint_r2_xuxx, 4, 2, b"xuxx", false);
parse_shape!(c06_t_parse_uint_r2_xxuu, 4, 2, b"xxuu", false);
parse_shape!(c06_t_parse_uint_r2_xxux, 4, 2, b"xxux", false);
parse_shape!(c06_t_parse_uint_r2_xxxu, 4, 2, b"xxxu", false);
parse_shape!(c06_t_parse_uint_r2_xxxx, 4, 2, b"xxxx", false);
parse_shape!(c06_t_parse_int_r2_muuu, 4, 2, b"muuu", true);
parse_shape!(c06_t_parse_int_r2_muux, 4, 2, b"muux", true);
parse_shape!(c06_t_parse_int_r2_muxu, 4, 2, b"muxu", true);
parse_shape!(c06_t_parse_int_r2_muxx, 4, 2, b"muxx", true);
parse_shape!(c06_t_parse_int_r2_mxuu, 4, 2, b"mxuu", true);
parse_shape!(c06_t_parse_int_r2_mxux, 4, 2, b"mxux", true);
parse_shape!(c06_t_parse_int_r2_mxxu, 4, 2, b"mxxu", true);
parse_shape!(c06_t_parse_int_r2_mxxx, 4, 2, b"mxxx", true);
parse_shape!(c06_t_parse_uint_r36_puuu, 4, 36, b"puuu", false);
parse_shape!(c06_t_parse_uint_r36_puux, 4, 36, b"puux", false);
parse_shape!(c06_t_parse_uint_r36_puxu, 4, 36, b"puxu", false);
parse_shape!(c06_t_parse_uint_r36_puxx, 4, 36, b"puxx", false);
parse_shape!(c06_t_parse_uint_r36_pxuu, 4, 36, b"pxuu", false);
parse_shape!(c06_t_parse_uint_r36_pxux, 4, 36, b"pxux", false);
parse_shape!(c06_t_parse_uint_r36_pxxu, 4, 36, b"pxxu", false);
parse_shape!(c06_t_parse_uint_r36_pxxx, 4, 36, b"pxxx", false);
parse_shape!(c06_t_parse_uint_r36_uuuu, 4, 36, b"uuuu", false);
parse_shape!(c06_t_parse_uint_r36_uuux, 4, 36, b"uuux", false);
parse_shape!(c06_t_parse_uint_r36_uuxu, 4, 36, b"uuxu", false);
parse_shape!(c06_t_parse_uint_r36_uuxx, 4, 36, b"uuxx", false);
parse_shape!(c06_t_parse_uint_r36_uxuu, 4, 36, b"uxuu", false);
parse_shape!(c06_t_parse_uint_r36_uxux, 4, 36, b"uxux", false);
parse_shape!(c06_t_parse_uint_r36_uxxu, 4, 36, b"uxxu", false);
parse_shape!(c06_t_parse_uint_r36_uxxx, 4, 36, b"uxxx", false);
parse_shape!(c06_t_parse_uint_r36_xuuu, 4, 36, b"xuuu", false);
parse_shape!(c06_t_parse_uint_r36_xuux, 4, 36, b"xuux", false);
parse_shape!(c06_t_parse_uint_r36_xuxu, 4, 36, b"xuxu", false);
parse_shape!(c06_t_parse_uint_r36_xuxx, 4, 36, b"xuxx", false);
parse_shape!(c06_t_parse_uint_r36_xxuu, 4, 36, b"xxuu", false);
parse_shape!(c06_t_parse_uint_r36_xxux, 4, 36, b"xxux", false);
parse_shape!(c06_t_parse_uint_r36_xxxu, 4, 36, b"xxxu", false);
parse_shape!(c06_t_parse_uint_r36_xxxx, 4, 36, b"xxxx", false);
parse_shape!(c06_t_parse_int_r36_muuu, 4, 36, b"muuu", true);
parse_shape!(c06_t_parse_int_r36_muux, 4, 36, b"muux", true);
parse_shape!(c06_t_parse_int_r36_muxu, 4, 36, b"muxu", true);
parse_shape!(c06_t_parse_int_r36_muxx, 4, 36, b"muxx", true);
parse_shape!(c06_t_parse_int_r36_mxuu, 4, 36, b"mxuu", true);
parse_shape!(c06_t_parse_int_r36_mxux, 4, 36, b"mxux", true);
parse_shape!(c06_t_parse_int_r36_mxxu, 4, 36, b"mxxu", true);
parse_shape!(c06_t_parse_int_r36_mxxx, 4, 36, b"mxxx", true);
parse_bytes_shape!(c06_q_parse_bytes_1, 1);
parse_bytes_shape!(c06_q_parse_bytes_2, 2);
parse_bytes_shape!(c06_t_parse_bytes_3, 3);
from_radix_shape!(c06_t_from_radix_n0_r3, 0, 3);
from_radix_shape!(c06_q_from_radix_n0_r10, 0, 10);
from_radix_shape!(c06_t_from_radix_n0_r190, 0, 190);
from_radix_shape!(c06_t_from_radix_n0_r255, 0, 255);
from_radix_shape!(c06_q_from_radix_n0_r256, 0, 256);
from_radix_shape!(c06_t_from_radix_n0_r2, 0, 2);
from_radix_shape!(c06_q_from_radix_n0_r16, 0, 16);
from_radix_shape!(c06_t_from_radix_n0_r8, 0, 8);
from_radix_shape!(c06_t_from_radix_n0_r128, 0, 128);
from_radix_shape!(c06_t_from_radix_n1_r3, 1, 3);
from_radix_shape!(c06_q_from_radix_n1_r10, 1, 10);
from_radix_shape!(c06_t_from_radix_n1_r190, 1, 190);
from_radix_shape!(c06_t_from_radix_n1_r255, 1, 255);
from_radix_shape!(c06_q_from_radix_n1_r256, 1, 256);
from_radix_shape!(c06_t_from_radix_n1_r2, 1, 2);
from_radix_shape!(c06_q_from_radix_n1_r16, 1, 16);
from_radix_shape!(c06_t_from_radix_n1_r8, 1, 8);
from_radix_shape!(c06_t_from_radix_n1_r128, 1, 128);
from_radix_shape!(c06_q_from_radix_n2_r3, 2, 3);
from_radix_shape!(c06_t_from_radix_n2_r10, 2, 10);
from_radix_shape!(c06_t_from_radix_n2_r190, 2, 190);
from_radix_shape!(c06_q_from_radix_n2_r255, 2, 255);
from_radix_shape!(c06_t_from_radix_n2_r256, 2, 256);
from_radix_shape!(c06_t_from_radix_n2_r2, 2, 2);
from_radix_shape!(c06_t_from_radix_n2_r16, 2, 16);
from_radix_shape!(c06_q_from_radix_n2_r8, 2, 8);
from_radix_shape!(c06_t_from_radix_n2_r128, 2, 128);
from_radix_shape!(c06_t_from_radix_n3_r3, 3, 3);
from_radix_shape!(c06_q_from_radix_n3_r10, 3, 10);
from_radix_shape!(c06_t_from_radix_n3_r190, 3, 190);
from_radix_shape!(c06_t_from_radix_n3_r255, 3, 255);
from_radix_shape!(c06_q_from_radix_n3_r256, 3, 256);
from_radix_shape!(c06_t_from_radix_n3_r2, 3, 2);
from_radix_shape!(c06_q_from_radix_n3_r16, 3, 16);
from_radix_shape!(c06_t_from_radix_n3_r8, 3, 8);
from_radix_shape!(c06_t_from_radix_n3_r128, 3, 128);
from_radix_shape!(c06_t_from_radix_n4_r3, 4, 3);
from_radix_shape!(c06_t_from_radix_n4_r10, 4, 10);
from_radix_shape!(c06_t_from_radix_n4_r190, 4, 190);
from_radix_shape!(c06_t_from_radix_n4_r255, 4, 255);
from_radix_shape!(c06_t_from_radix_n4_r256, 4, 256);
from_radix_shape!(c06_t_from_radix_n4_r2, 4, 2);
from_radix_shape!(c06_t_from_radix_n4_r16, 4, 16);
from_radix_shape!(c06_t_from_radix_n4_r8, 4, 8);
from_radix_shape!(c06_t_from_radix_n4_r128, 4, 128);
radix_range_mp!(c06_q_radix_range_0_mp, 0);
radix_range_mp!(c06_q_radix_range_1_mp, 1);
radix_range_mp!(c06_q_radix_range_2_mp, 2);
radix_range_mp!(c06_q_radix_range_3_mp, 3);
radix_range_mp!(c06_q_radix_range_4_mp, 4);
// END GENERATED
