// C06 — text input: from_str_radix / FromStr / parse_bytes / from_radix_* as language membership + value
// (anchored in src/bigint/convert.rs; BigUint's public parsers are reached from here too)
#![allow(unused_imports, dead_code)]
use super::*;
use crate::bigint::verif_icommon::*;
use crate::biguint::verif_common as vc;
use alloc::{vec, vec::Vec};
use num_traits::Num;

fn digit_val(b: u8) -> u8 {
    if b >= b'0' && b <= b'9' {
        b - b'0'
    } else if b >= b'a' && b <= b'z' {
        b - b'a' + 10
    } else if b >= b'A' && b <= b'Z' {
        b - b'A' + 10
    } else {
        255
    }
}
/// reference acceptor for the unsigned grammar  [+]? D (D | _)*  ; returns Some(value) iff the text is well formed
fn ref_parse(s: &[u8], radix: u32, allow_minus: bool) -> Option<(bool, u64)> {
    let n = s.len();
    let mut pos = 0;
    let mut neg = false;
    if n > 0 && s[0] == b'+' {
        pos = 1;
    } else if allow_minus && n > 0 && s[0] == b'-' {
        pos = 1;
        neg = true;
    }
    if pos >= n {
        return None;
    }
    let d0 = digit_val(s[pos]);
    if d0 as u32 >= radix {
        return None;
    }
    let mut v: u64 = d0 as u64;
    let mut i = pos + 1;
    while i < n {
        if s[i] != b'_' {
            let d = digit_val(s[i]);
            if d as u32 >= radix {
                return None;
            }
            v = v * (radix as u64) + d as u64;
        }
        i += 1;
    }
    Some((neg, v))
}

// every ASCII string of a concrete CLASS PATTERN, concrete radix. The pattern fixes, per position, only whether the byte
// is '+', '-', '_' or "anything else" (so the number of digits that survive underscore-stripping is concrete per query);
// all bytes of class "anything else" are symbolic over the other 125+ ASCII values. Every pattern of the length is enumerated.
fn class_ok(b: u8, cls: u8, first: bool) -> bool {
    match cls {
        b'p' => b == b'+',
        b'm' => b == b'-',
        b'u' => b == b'_',
        // 'x': anything else; in the first position that also excludes the sign characters
        _ => b < 128 && b != b'_' && !(first && (b == b'+' || b == b'-')),
    }
}
macro_rules! parse_shape {
    ($name:ident, $n:expr, $radix:expr, $pat:expr, $int:expr) => {
        #[kani::proof]
        #[kani::unwind(12)]
        #[kani::stub(alloc::vec::Vec::with_capacity, vc::vec_with_capacity_ignored)]
        #[kani::stub(alloc::vec::Vec::shrink_to_fit, vc::noop_shrink)]
        fn $name() {
            let b: [u8; $n] = kani::any();
            let pat: &[u8; $n] = $pat;
            let mut i = 0;
            while i < $n {
                kani::assume(class_ok(b[i], pat[i], i == 0));
                i += 1;
            }
            let s = unsafe { core::str::from_utf8_unchecked(&b) };
            if !$int {
                let got = BigUint::from_str_radix(s, $radix);
                match ref_parse(&b, $radix, false) {
                    Some((_, v)) => match got {
                        Ok(u) => kani::assert(vc::is_canonical(&u) && vc::eq_window(vc::digits(&u), &[v]), "VERIF BigUint::from_str_radix wrong value"),
                        Err(_) => kani::assert(false, "VERIF BigUint::from_str_radix rejected a well-formed string"),
                    },
                    None => kani::assert(got.is_err(), "VERIF BigUint::from_str_radix accepted an ill-formed string"),
                }
            } else {
                let goti = BigInt::from_str_radix(s, $radix);
                match ref_parse(&b, $radix, true) {
                    Some((neg, v)) => match goti {
                        Ok(x) => kani::assert(int_canonical(&x) && vc::eq_window(mag(&x), &[v]) && (is_neg(&x) == (neg && v != 0)), "VERIF BigInt::from_str_radix wrong value/sign"),
                        Err(_) => kani::assert(false, "VERIF BigInt::from_str_radix rejected a well-formed string"),
                    },
                    None => kani::assert(goti.is_err(), "VERIF BigInt::from_str_radix accepted an ill-formed string"),
                }
            }
            kani::cover!(true, "reach:end_of_harness");
        }
    };
}
// FromStr = radix 10; parse_bytes: None for non-UTF-8 / ill-formed, value otherwise
macro_rules! parse_bytes_shape {
    ($name:ident, $n:expr) => {
        #[kani::proof]
        #[kani::unwind(12)]
        #[kani::stub(alloc::vec::Vec::with_capacity, vc::vec_with_capacity_ignored)]
        #[kani::stub(alloc::vec::Vec::shrink_to_fit, vc::noop_shrink)]
        fn $name() {
            let b: [u8; $n] = kani::any();
            let mut ascii = true;
            let mut i = 0;
            while i < $n {
                if b[i] >= 128 {
                    ascii = false;
                }
                i += 1;
            }
            // restrict to: pure ASCII, or one stray byte >= 0x80 that can never start/continue a valid sequence of this length
            kani::assume(ascii || $n == 1 || b[$n - 1] >= 128);
            kani::assume(ascii || (b[$n - 1] >= 0xf8 || (b[$n - 1] >= 0x80 && b[$n - 1] < 0xc0 && ($n == 1 || b[$n - 2] < 128)) || b[$n - 1] >= 0xc0));
            let got = BigUint::parse_bytes(&b, 10);
            let got_some = got.is_some();
            if !ascii {
                kani::assert(got.is_none(), "VERIF parse_bytes accepted non-UTF-8 input");
            } else {
                match ref_parse(&b, 10, false) {
                    Some((_, v)) => match got {
                        Some(u) => kani::assert(vc::eq_window(vc::digits(&u), &[v]), "VERIF parse_bytes wrong value"),
                        None => kani::assert(false, "VERIF parse_bytes rejected a well-formed string"),
                    },
                    None => kani::assert(got.is_none(), "VERIF parse_bytes accepted an ill-formed string"),
                }
                let s = unsafe { core::str::from_utf8_unchecked(&b) };
                let f: Result<BigUint, _> = s.parse();
                kani::assert(f.is_ok() == got_some, "VERIF FromStr disagrees with parse_bytes(.., 10)");
            }
        }
    };
}
// from_radix_be / from_radix_le on digit slices: any digit >= radix -> None, empty -> zero, value otherwise
macro_rules! from_radix_shape {
    ($name:ident, $n:expr, $radix:expr) => {
        #[kani::proof]
        #[kani::unwind(12)]
        #[kani::stub(alloc::vec::Vec::with_capacity, vc::vec_with_capacity_ignored)]
        #[kani::stub(alloc::vec::Vec::shrink_to_fit, vc::noop_shrink)]
        fn $name() {
            let d: [u8; $n] = kani::any();
            let mut ok = true;
            let mut v: u64 = 0;
            let mut i = 0;
            while i < $n {
                if d[i] as u32 >= $radix {
                    ok = false;
                }
                v = v.wrapping_mul($radix as u64).wrapping_add(d[i] as u64);
                i += 1;
            }
            let be = BigUint::from_radix_be(&d, $radix);
            let mut r = d;
            r.reverse();
            let le = BigUint::from_radix_le(&r, $radix);
            match be {
                Some(u) => kani::assert(ok && vc::is_canonical(&u) && vc::eq_window(vc::digits(&u), &[v]), "VERIF from_radix_be value / accepted a digit >= radix"),
                None => kani::assert(!ok, "VERIF from_radix_be rejected valid digits"),
            }
            match le {
                Some(u) => kani::assert(ok && vc::is_canonical(&u) && vc::eq_window(vc::digits(&u), &[v]), "VERIF from_radix_le value / accepted a digit >= radix"),
                None => kani::assert(!ok, "VERIF from_radix_le rejected valid digits"),
            }
            let bi = BigInt::from_radix_be(Sign::Minus, &d, $radix);
            match bi {
                Some(x) => kani::assert(ok && int_canonical(&x) && vc::eq_window(mag(&x), &[v]) && (is_neg(&x) == (v != 0)), "VERIF BigInt::from_radix_be"),
                None => kani::assert(!ok, "VERIF BigInt::from_radix_be rejected valid digits"),
            }
        }
    };
}
// radix outside the allowed range panics (concrete out-of-range radices: a symbolic radix keeps the whole parser in the formula)
macro_rules! radix_range_mp {
    ($name:ident, $which:expr, $r:expr) => {
        #[kani::proof]
        #[kani::unwind(12)]
        fn $name() {
            let r: u32 = $r;
            if $which == 0 {
                let _ = BigUint::from_str_radix("1", r);
            } else if $which == 1 {
                let _ = BigUint::from_radix_be(&[1], r);
            } else if $which == 2 {
                let _ = BigUint::from_radix_le(&[1], r);
            } else if $which == 3 {
                let _ = vc::mk_from(&[5]).to_str_radix(r);
            } else {
                let _ = mkint(true, &[5]).to_str_radix(r);
            }
            kani::assert(false, "VERIF_SURVIVED radix outside the allowed range accepted");
        }
    };
}

// BEGIN GENERATED c06_parse
parse_shape!(c06_t_parse_uint_r10_x, 1, 10, b"x", false);
parse_shape!(c06_t_parse_int_r10_x, 1, 10, b"x", true);
parse_shape!(c06_t_parse_uint_r10_px, 2, 10, b"px", false);
parse_shape!(c06_t_parse_int_r10_px, 2, 10, b"px", true);
parse_shape!(c06_t_parse_int_r10_mx, 2, 10, b"mx", true);
parse_bytes_shape!(c06_t_parse_bytes_1, 1);
from_radix_shape!(c06_t_from_radix_n0_r3, 0, 3);
from_radix_shape!(c06_q_from_radix_n0_r10, 0, 10);
from_radix_shape!(c06_t_from_radix_n0_r190, 0, 190);
from_radix_shape!(c06_t_from_radix_n0_r255, 0, 255);
from_radix_shape!(c06_q_from_radix_n0_r256, 0, 256);
from_radix_shape!(c06_t_from_radix_n0_r2, 0, 2);
from_radix_shape!(c06_q_from_radix_n0_r16, 0, 16);
from_radix_shape!(c06_t_from_radix_n0_r8, 0, 8);
from_radix_shape!(c06_t_from_radix_n0_r128, 0, 128);
from_radix_shape!(c06_t_from_radix_n1_r3, 1, 3);
from_radix_shape!(c06_q_from_radix_n1_r10, 1, 10);
from_radix_shape!(c06_t_from_radix_n1_r190, 1, 190);
from_radix_shape!(c06_t_from_radix_n1_r255, 1, 255);
from_radix_shape!(c06_q_from_radix_n1_r256, 1, 256);
from_radix_shape!(c06_t_from_radix_n1_r2, 1, 2);
from_radix_shape!(c06_q_from_radix_n1_r16, 1, 16);
from_radix_shape!(c06_t_from_radix_n1_r8, 1, 8);
from_radix_shape!(c06_t_from_radix_n1_r128, 1, 128);
from_radix_shape!(c06_q_from_radix_n2_r3, 2, 3);
from_radix_shape!(c06_t_from_radix_n2_r10, 2, 10);
from_radix_shape!(c06_t_from_radix_n2_r190, 2, 190);
from_radix_shape!(c06_q_from_radix_n2_r255, 2, 255);
from_radix_shape!(c06_t_from_radix_n2_r256, 2, 256);
from_radix_shape!(c06_t_from_radix_n2_r2, 2, 2);
from_radix_shape!(c06_t_from_radix_n2_r16, 2, 16);
from_radix_shape!(c06_q_from_radix_n2_r8, 2, 8);
from_radix_shape!(c06_t_from_radix_n2_r128, 2, 128);
from_radix_shape!(c06_t_from_radix_n3_r3, 3, 3);
from_radix_shape!(c06_q_from_radix_n3_r10, 3, 10);
from_radix_shape!(c06_t_from_radix_n3_r190, 3, 190);
from_radix_shape!(c06_t_from_radix_n3_r255, 3, 255);
from_radix_shape!(c06_q_from_radix_n3_r256, 3, 256);
from_radix_shape!(c06_t_from_radix_n3_r2, 3, 2);
from_radix_shape!(c06_q_from_radix_n3_r16, 3, 16);
from_radix_shape!(c06_t_from_radix_n3_r8, 3, 8);
from_radix_shape!(c06_t_from_radix_n3_r128, 3, 128);
from_radix_shape!(c06_t_from_radix_n4_r3, 4, 3);
from_radix_shape!(c06_t_from_radix_n4_r10, 4, 10);
from_radix_shape!(c06_t_from_radix_n4_r190, 4, 190);
from_radix_shape!(c06_t_from_radix_n4_r255, 4, 255);
from_radix_shape!(c06_t_from_radix_n4_r256, 4, 256);
from_radix_shape!(c06_t_from_radix_n4_r2, 4, 2);
from_radix_shape!(c06_t_from_radix_n4_r16, 4, 16);
from_radix_shape!(c06_t_from_radix_n4_r8, 4, 8);
from_radix_shape!(c06_t_from_radix_n4_r128, 4, 128);
radix_range_mp!(c06_t_radix_range_0_r0_mp, 0, 0);
radix_range_mp!(c06_q_radix_range_0_r1_mp, 0, 1);
radix_range_mp!(c06_q_radix_range_0_r37_mp, 0, 37);
radix_range_mp!(c06_t_radix_range_0_r4294967295_mp, 0, 4294967295);
radix_range_mp!(c06_t_radix_range_1_r0_mp, 1, 0);
radix_range_mp!(c06_q_radix_range_1_r1_mp, 1, 1);
radix_range_mp!(c06_q_radix_range_1_r257_mp, 1, 257);
radix_range_mp!(c06_t_radix_range_1_r4294967295_mp, 1, 4294967295);
radix_range_mp!(c06_t_radix_range_2_r0_mp, 2, 0);
radix_range_mp!(c06_q_radix_range_2_r1_mp, 2, 1);
radix_range_mp!(c06_q_radix_range_2_r257_mp, 2, 257);
radix_range_mp!(c06_t_radix_range_2_r4294967295_mp, 2, 4294967295);
radix_range_mp!(c06_t_radix_range_3_r0_mp, 3, 0);
radix_range_mp!(c06_q_radix_range_3_r1_mp, 3, 1);
radix_range_mp!(c06_q_radix_range_3_r37_mp, 3, 37);
radix_range_mp!(c06_t_radix_range_3_r4294967295_mp, 3, 4294967295);
radix_range_mp!(c06_t_radix_range_4_r0_mp, 4, 0);
radix_range_mp!(c06_q_radix_range_4_r1_mp, 4, 1);
radix_range_mp!(c06_q_radix_range_4_r37_mp, 4, 37);
radix_range_mp!(c06_t_radix_range_4_r4294967295_mp, 4, 4294967295);
// END GENERATED

// SIGN LAYER of BigInt::from_str_radix: which text is handed to the unsigned parser and how its answer is signed, for EVERY ASCII
// string of the stated length. The unsigned parser is a recorder returning an arbitrary answer (its own language and values are decided
// by c06_q_text_* and the digit-vector queries in src/biguint/convert.rs).
static mut S_LEN: usize = 0;
static mut S_BYTES: [u8; 4] = [0; 4];
static mut S_RADIX: u32 = 0;
static mut S_OK: bool = false;
static mut S_VAL: u64 = 0;
fn unsigned_parser_rec(s: &str, radix: u32) -> Result<BigUint, ParseBigIntError> {
    let b = s.as_bytes();
    let ok: bool = kani::any();
    let v: u64 = kani::any();
    unsafe {
        S_LEN = b.len();
        let mut i = 0;
        while i < 4 {
            S_BYTES[i] = if i < b.len() { b[i] } else { 0 };
            i += 1;
        }
        S_RADIX = radix;
        S_OK = ok;
        S_VAL = v;
    }
    if ok {
        Ok(if v == 0 { BigUint::ZERO } else { vc::mk_from(&[v]) })
    } else {
        Err(ParseBigIntError::invalid())
    }
}
macro_rules! sign_layer_shape {
    ($name:ident, $n:expr, $radix:expr) => {
        #[kani::proof]
        #[kani::unwind(8)]
        #[kani::stub(<crate::biguint::BigUint as num_traits::Num>::from_str_radix, unsigned_parser_rec)]
        #[kani::stub(crate::biguint::verif_common::symbolic, crate::biguint::verif_common::yes)]
        #[kani::stub(alloc::vec::Vec::with_capacity, vc::vec_with_capacity_ignored)]
        #[kani::stub(alloc::vec::Vec::shrink_to_fit, vc::noop_shrink)]
        fn $name() {
            let b: [u8; $n] = kani::any();
            let mut i = 0;
            while i < $n {
                kani::assume(b[i] < 128);
                i += 1;
            }
            let s = unsafe { core::str::from_utf8_unchecked(&b) };
            let got = <BigInt as Num>::from_str_radix(s, $radix);
            if !vc::symbolic() {
                // native: the real unsigned parser ran; exact reference for the whole signed grammar
                match ref_parse(&b, $radix, true) {
                    Some((neg, v)) => match got {
                        Ok(x) => kani::assert(int_canonical(&x) && vc::eq_window(mag(&x), &[v]) && (is_neg(&x) == (neg && v != 0)), "VERIF BigInt::from_str_radix wrong value/sign"),
                        Err(_) => kani::assert(false, "VERIF BigInt::from_str_radix rejected a well-formed string"),
                    },
                    None => kani::assert(got.is_err(), "VERIF BigInt::from_str_radix accepted an ill-formed string"),
                }
                return;
            }
            // a leading '-' is consumed unless a '+' follows it (then the unsigned parser sees "-+..." and rejects it)
            let minus = $n > 0 && b[0] == b'-';
            let skip = if minus && !($n > 1 && b[1] == b'+') { 1 } else { 0 };
            kani::assert(unsafe { S_LEN } == $n - skip && unsafe { S_RADIX } == $radix, "VERIF BigInt::from_str_radix hands the wrong text / radix to the unsigned parser");
            if $n - skip > 0 {
                let k: usize = kani::any();
                if k < $n - skip {
                    kani::assert(unsafe { S_BYTES }[k] == b[k + skip], "VERIF BigInt::from_str_radix hands the wrong text / radix to the unsigned parser");
                }
            }
            match got {
                Err(_) => kani::assert(!unsafe { S_OK }, "VERIF BigInt::from_str_radix rejected what the unsigned parser accepted"),
                Ok(x) => {
                    kani::assert(unsafe { S_OK }, "VERIF BigInt::from_str_radix accepted what the unsigned parser rejected");
                    let v = unsafe { S_VAL };
                    kani::assert(int_canonical(&x) && vc::eq_window(mag(&x), &[v]) && (is_neg(&x) == (minus && v != 0)), "VERIF BigInt::from_str_radix wrong value/sign");
                    if $n > 0 {
                        kani::cover!(minus && v != 0, "reach: negative value accepted");
                    }
                }
            }
        }
    };
}
sign_layer_shape!(c06_q_int_sign_n0, 0, 10);
sign_layer_shape!(c06_q_int_sign_n1, 1, 10);
sign_layer_shape!(c06_q_int_sign_n2, 2, 10);
sign_layer_shape!(c06_q_int_sign_n3, 3, 16);
