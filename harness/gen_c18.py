def c18_rand():
    L = []
    for n in (0, 1, 31, 32, 33, 63, 64, 65, 95, 96, 97, 127, 128, 129, 130, 200):
        q = n in (0, 1, 32, 33, 64, 65, 97, 128, 130)
        L.append("gen_biguint_shape!(c18_%s_gen_biguint_%d, %d, %d);" % (tier(q), n, n, n // 64 + 1))
    for n in (0, 1, 32, 64, 65, 130):
        L.append("gen_bigint_shape!(c18_%s_gen_bigint_%d, %d, %d);" % (tier(n in (0, 1, 64, 65)), n, n, n // 64 + 1))
    for (l, k) in [(1, 1), (1, 5), (1, 33), (1, 64), (2, 65), (2, 70)]:
        L.append("below_shape!(c18_%s_below_b%d, %d, %d, bits_%d, %d);" % (tier(k in (1, 5, 64, 65)), k, l, k, k, l + 1))
    for which in (0, 1, 2, 3):
        for (ll, lh, lc) in [(1, 1, 1), (0, 1, 1), (1, 1, 0), (1, 2, 2), (2, 2, 1)]:
            if which == 3 and (ll, lh, lc) != (1, 1, 1):
                continue
            q = (which == 0 and (ll, lh, lc) in {(1, 1, 1), (0, 1, 1), (1, 2, 2)}) or (which == 1 and (ll, lh, lc) == (1, 1, 1)) or (which == 2 and (ll, lh, lc) == (1, 1, 0))
            L.append("urange_shape!(c18_%s_urange_%d_%d_c%d_api%d, %d, %d, below_c%d, %d);" % (tier(q), ll, lh, lc, which, ll, lh, lc, which))
    for w in (0, 1, 2):
        L.append("urange_empty_mp!(c18_q_urange_empty_%d_mp, %d);" % (w, w))
    for (nl, ll, nh, lh) in [(True, 1, False, 1), (False, 0, False, 1), (True, 1, False, 0), (True, 1, True, 1), (False, 1, False, 1), (True, 2, False, 1)]:
        for which in (0, 1, 2, 3):
            for lc in (0, 1):
                if which == 3 and not ((nl, nh) == (True, False) and ll == 1 and lh == 1 and lc == 1):
                    continue
                q = which == 0 and lc == 1
                L.append("irange_shape!(c18_%s_irange_%s%d_%s%d_c%d_api%d, %s, %d, %s, %d, below_c%d, %d);" % (
                    tier(q), "m" if nl else "p", ll, "m" if nh else "p", lh, lc, which, str(nl).lower(), ll, str(nh).lower(), lh, lc, which))
    return L
GEN["c18_rand"] = c18_rand
