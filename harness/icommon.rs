// Shared BigInt helpers for the injected harnesses; injected as `crate::bigint::verif_icommon` (child of `bigint`).
#![allow(dead_code, unused_imports)]
use super::Sign::{self, Minus, NoSign, Plus};
use super::BigInt;
use crate::biguint::verif_common as vc;
use crate::biguint::BigUint;
use alloc::vec::Vec;

/// BigInt of exactly the given magnitude digits (must be canonical); sign Minus iff neg, NoSign iff empty
pub(crate) fn mkint(neg: bool, mag: &[u64]) -> BigInt {
    let sign = if mag.is_empty() {
        NoSign
    } else if neg {
        Minus
    } else {
        Plus
    };
    BigInt { sign, data: vc::mk_from(mag) }
}
pub(crate) fn raw(sign: Sign, data: BigUint) -> BigInt {
    BigInt { sign, data }
}
pub(crate) fn sign_of(x: &BigInt) -> Sign {
    x.sign
}
pub(crate) fn mag(x: &BigInt) -> &[u64] {
    vc::digits(&x.data)
}
pub(crate) fn is_neg(x: &BigInt) -> bool {
    x.sign == Minus
}
/// representation invariant of BigInt
pub(crate) fn int_canonical(x: &BigInt) -> bool {
    vc::is_canonical(&x.data) && ((x.sign == NoSign) == vc::digits(&x.data).is_empty())
}
/// two's-complement window of a BigInt
pub(crate) fn tc<const W: usize>(x: &BigInt) -> [u64; W] {
    vc::ref_tc::<W>(x.sign == Minus, vc::digits(&x.data))
}
/// BigInt equals the two's-complement window value, and is canonical
pub(crate) fn check_int<const W: usize>(r: &BigInt, expect_tc: &[u64; W]) {
    let (neg, mag) = vc::ref_from_tc::<W>(expect_tc);
    let zero = vc::ref_is_zero(&mag);
    kani::assert(vc::is_canonical(&r.data), "VERIF magnitude not canonical");
    kani::assert((r.sign == NoSign) == zero, "VERIF NoSign iff zero violated");
    kani::assert(vc::eq_window(vc::digits(&r.data), &mag), "VERIF magnitude differs from exact result");
    if !zero {
        kani::assert((r.sign == Minus) == neg, "VERIF sign differs from exact result");
    }
    kani::assert(vc::digits(&r.data).len() == 0 || r.sign != NoSign, "VERIF NoSign with non-zero magnitude");
}
pub(crate) fn neg_w<const W: usize>(a: &[u64; W]) -> [u64; W] {
    let z = [0u64; W];
    vc::ref_sub::<W>(&z, a).0
}
pub(crate) fn add_w<const W: usize>(a: &[u64; W], b: &[u64; W]) -> [u64; W] {
    vc::ref_add::<W>(a, b).0
}
pub(crate) fn sub_w<const W: usize>(a: &[u64; W], b: &[u64; W]) -> [u64; W] {
    vc::ref_sub::<W>(a, b).0
}
pub(crate) fn eq_w<const W: usize>(a: &[u64; W], b: &[u64; W]) -> bool {
    let mut i = 0;
    while i < W {
        if a[i] != b[i] {
            return false;
        }
        i += 1;
    }
    true
}
pub(crate) fn is_neg_w<const W: usize>(a: &[u64; W]) -> bool {
    (a[W - 1] >> 63) == 1
}
