// C01 — harnesses anchored in src/biguint/addition.rs (child module => sees private fns).
#![allow(unused_imports, dead_code)]
use super::*;
use crate::biguint::verif_common as vc;
use alloc::{vec, vec::Vec};

// `__add2(a, b)`: a += b over slices with la >= lb; returns the carry out of a.
// Oracle: u128 ripple-carry over the fixed arrays.
macro_rules! add2_shape {
    ($name:ident, $la:expr, $lb:expr) => {
        #[kani::proof]
        #[kani::unwind(14)]
        #[kani::stub(core::arch::x86_64::_addcarry_u64, vc::stub_addcarry)]
        #[kani::stub(schoolbook_add_assign_x86_64, vc::model_add)]
        fn $name() {
            let a0: [u64; $la] = kani::any();
            let b0: [u64; $lb] = kani::any();
            let mut a = a0;
            let b = b0;
            let carry = __add2(&mut a, &b);
            let mut c: u128 = 0;
            let mut i = 0;
            while i < $la {
                let s = a0[i] as u128 + vc::dig(&b0, i) as u128 + c;
                kani::assert(a[i] == s as u64, "VERIF __add2 digit differs from ripple-carry sum");
                c = s >> 64;
                i += 1;
            }
            kani::assert(carry as u128 == c, "VERIF __add2 returned carry differs");
            let mut j = 0;
            while j < $lb {
                kani::assert(b[j] == b0[j], "VERIF borrowed operand modified");
                j += 1;
            }
            kani::cover!($lb == 0 || carry == 1, "reach:carry_out");
            kani::cover!($la == 0 || carry == 0, "reach:no_carry_out");
        }
    };
}

// `a += &b` on BigUint (both branches, extend, push of the final carry) and `&a + &b`.
macro_rules! add_assign_shape {
    ($name:ident, $la:expr, $lb:expr, $w:expr, $extra:expr) => {
        #[kani::proof]
        #[kani::unwind(14)]
        #[kani::stub(core::arch::x86_64::_addcarry_u64, vc::stub_addcarry)]
        #[kani::stub(schoolbook_add_assign_x86_64, vc::model_add)]
        fn $name() {
            let a0: [u64; $la] = vc::any_canon::<$la>();
            let b0: [u64; $lb] = vc::any_canon::<$lb>();
            let mut a = vc::mk_cap(&a0, $extra);
            let b = vc::mk_cap(&b0, 0);
            a += &b;
            let (sum, cout) = vc::ref_add::<$w>(&a0, &b0);
            kani::assert(!cout, "VERIF window too small");
            kani::assert(vc::eq_window(vc::digits(&a), &sum), "VERIF a += &b differs from the exact sum");
            kani::assert(vc::is_canonical(&a), "VERIF result not canonical");
            kani::assert(vc::eq_window(vc::digits(&b), &b0) && vc::digits(&b).len() == $lb, "VERIF borrowed operand modified");
            kani::cover!($la == 0 || $lb == 0 || vc::digits(&a).len() == $w, "reach:grew_by_carry");
        }
    };
}

macro_rules! add_refref_shape {
    ($name:ident, $la:expr, $lb:expr, $w:expr) => {
        #[kani::proof]
        #[kani::unwind(14)]
        #[kani::stub(core::arch::x86_64::_addcarry_u64, vc::stub_addcarry)]
        #[kani::stub(schoolbook_add_assign_x86_64, vc::model_add)]
        fn $name() {
            let a0: [u64; $la] = vc::any_canon::<$la>();
            let b0: [u64; $lb] = vc::any_canon::<$lb>();
            let a = vc::mk_from(&a0);
            let b = vc::mk_from(&b0);
            let r = &a + &b;
            let (sum, cout) = vc::ref_add::<$w>(&a0, &b0);
            kani::assert(!cout, "VERIF window too small");
            kani::assert(vc::eq_window(vc::digits(&r), &sum), "VERIF &a + &b differs from the exact sum");
            kani::assert(vc::is_canonical(&r), "VERIF result not canonical");
            let c = a.checked_add(&b);
            match c {
                Some(cv) => kani::assert(vc::eq_window(vc::digits(&cv), &sum), "VERIF checked_add differs"),
                None => kani::assert(false, "VERIF checked_add returned None"),
            }
        }
    };
}

// val + val picks the operand with the larger capacity as receiver: value must not depend on it.
macro_rules! add_valval_shape {
    ($name:ident, $la:expr, $lb:expr, $w:expr, $ea:expr, $eb:expr) => {
        #[kani::proof]
        #[kani::unwind(14)]
        #[kani::stub(core::arch::x86_64::_addcarry_u64, vc::stub_addcarry)]
        #[kani::stub(schoolbook_add_assign_x86_64, vc::model_add)]
        fn $name() {
            let a0: [u64; $la] = vc::any_canon::<$la>();
            let b0: [u64; $lb] = vc::any_canon::<$lb>();
            let a = vc::mk_cap(&a0, $ea);
            let b = vc::mk_cap(&b0, $eb);
            let r = a + b;
            let (sum, cout) = vc::ref_add::<$w>(&a0, &b0);
            kani::assert(!cout, "VERIF window too small");
            kani::assert(vc::eq_window(vc::digits(&r), &sum), "VERIF a + b (by value) differs from the exact sum");
            kani::assert(vc::is_canonical(&r), "VERIF result not canonical");
        }
    };
}

// BEGIN GENERATED c01_biguint_addition
add2_shape!(c01_q_add2_0_0, 0, 0);
add2_shape!(c01_q_add2_1_0, 1, 0);
add2_shape!(c01_q_add2_1_1, 1, 1);
add2_shape!(c01_t_add2_2_0, 2, 0);
add2_shape!(c01_q_add2_2_1, 2, 1);
add2_shape!(c01_t_add2_2_2, 2, 2);
add2_shape!(c01_t_add2_3_0, 3, 0);
add2_shape!(c01_t_add2_3_1, 3, 1);
add2_shape!(c01_t_add2_3_2, 3, 2);
add2_shape!(c01_t_add2_3_3, 3, 3);
add2_shape!(c01_t_add2_4_0, 4, 0);
add2_shape!(c01_t_add2_4_1, 4, 1);
add2_shape!(c01_t_add2_4_2, 4, 2);
add2_shape!(c01_t_add2_4_3, 4, 3);
add2_shape!(c01_q_add2_4_4, 4, 4);
add2_shape!(c01_t_add2_5_0, 5, 0);
add2_shape!(c01_t_add2_5_1, 5, 1);
add2_shape!(c01_t_add2_5_2, 5, 2);
add2_shape!(c01_t_add2_5_3, 5, 3);
add2_shape!(c01_t_add2_5_4, 5, 4);
add2_shape!(c01_q_add2_5_5, 5, 5);
add2_shape!(c01_t_add2_6_0, 6, 0);
add2_shape!(c01_t_add2_6_1, 6, 1);
add2_shape!(c01_t_add2_6_2, 6, 2);
add2_shape!(c01_t_add2_6_3, 6, 3);
add2_shape!(c01_t_add2_6_4, 6, 4);
add2_shape!(c01_q_add2_6_5, 6, 5);
add2_shape!(c01_q_add2_6_6, 6, 6);
add2_shape!(c01_t_add2_7_0, 7, 0);
add2_shape!(c01_t_add2_7_1, 7, 1);
add2_shape!(c01_t_add2_7_2, 7, 2);
add2_shape!(c01_q_add2_7_3, 7, 3);
add2_shape!(c01_t_add2_7_4, 7, 4);
add2_shape!(c01_t_add2_7_5, 7, 5);
add2_shape!(c01_t_add2_7_6, 7, 6);
add2_shape!(c01_t_add2_7_7, 7, 7);
add2_shape!(c01_t_add2_8_0, 8, 0);
add2_shape!(c01_t_add2_8_1, 8, 1);
add2_shape!(c01_t_add2_8_2, 8, 2);
add2_shape!(c01_t_add2_8_3, 8, 3);
add2_shape!(c01_t_add2_8_4, 8, 4);
add2_shape!(c01_t_add2_8_5, 8, 5);
add2_shape!(c01_t_add2_8_6, 8, 6);
add2_shape!(c01_t_add2_8_7, 8, 7);
add2_shape!(c01_t_add2_8_8, 8, 8);
add2_shape!(c01_t_add2_9_0, 9, 0);
add2_shape!(c01_t_add2_9_1, 9, 1);
add2_shape!(c01_t_add2_9_2, 9, 2);
add2_shape!(c01_t_add2_9_3, 9, 3);
add2_shape!(c01_t_add2_9_4, 9, 4);
add2_shape!(c01_q_add2_9_5, 9, 5);
add2_shape!(c01_t_add2_9_6, 9, 6);
add2_shape!(c01_t_add2_9_7, 9, 7);
add2_shape!(c01_t_add2_9_8, 9, 8);
add2_shape!(c01_t_add2_9_9, 9, 9);
add2_shape!(c01_t_add2_10_0, 10, 0);
add2_shape!(c01_t_add2_10_1, 10, 1);
add2_shape!(c01_t_add2_10_2, 10, 2);
add2_shape!(c01_t_add2_10_3, 10, 3);
add2_shape!(c01_t_add2_10_4, 10, 4);
add2_shape!(c01_t_add2_10_5, 10, 5);
add2_shape!(c01_t_add2_10_6, 10, 6);
add2_shape!(c01_t_add2_10_7, 10, 7);
add2_shape!(c01_t_add2_10_8, 10, 8);
add2_shape!(c01_t_add2_10_9, 10, 9);
add2_shape!(c01_q_add2_10_10, 10, 10);
add2_shape!(c01_t_add2_11_0, 11, 0);
add2_shape!(c01_t_add2_11_1, 11, 1);
add2_shape!(c01_t_add2_11_2, 11, 2);
add2_shape!(c01_t_add2_11_3, 11, 3);
add2_shape!(c01_t_add2_11_4, 11, 4);
add2_shape!(c01_t_add2_11_5, 11, 5);
add2_shape!(c01_q_add2_11_6, 11, 6);
add2_shape!(c01_t_add2_11_7, 11, 7);
add2_shape!(c01_t_add2_11_8, 11, 8);
add2_shape!(c01_t_add2_11_9, 11, 9);
add2_shape!(c01_q_add2_11_10, 11, 10);
add2_shape!(c01_q_add2_11_11, 11, 11);
add_assign_shape!(c01_q_addassign_0_0, 0, 0, 1, 0);
add_assign_shape!(c01_t_addassign_0_1, 0, 1, 2, 0);
add_assign_shape!(c01_q_addassign_0_2, 0, 2, 3, 0);
add_assign_shape!(c01_t_addassign_0_3, 0, 3, 4, 0);
add_assign_shape!(c01_t_addassign_0_4, 0, 4, 5, 0);
add_assign_shape!(c01_t_addassign_1_0, 1, 0, 2, 0);
add_assign_shape!(c01_q_addassign_1_1, 1, 1, 2, 0);
add_assign_shape!(c01_q_addassign_1_2, 1, 2, 3, 0);
add_assign_shape!(c01_t_addassign_1_3, 1, 3, 4, 0);
add_assign_shape!(c01_t_addassign_1_4, 1, 4, 5, 0);
add_assign_shape!(c01_q_addassign_2_0, 2, 0, 3, 0);
add_assign_shape!(c01_q_addassign_2_1, 2, 1, 3, 0);
add_assign_shape!(c01_t_addassign_2_2, 2, 2, 3, 0);
add_assign_shape!(c01_q_addassign_2_3, 2, 3, 4, 0);
add_assign_shape!(c01_t_addassign_2_4, 2, 4, 5, 0);
add_assign_shape!(c01_t_addassign_3_0, 3, 0, 4, 0);
add_assign_shape!(c01_t_addassign_3_1, 3, 1, 4, 0);
add_assign_shape!(c01_t_addassign_3_2, 3, 2, 4, 0);
add_assign_shape!(c01_q_addassign_3_3, 3, 3, 4, 0);
add_assign_shape!(c01_t_addassign_3_4, 3, 4, 5, 0);
add_assign_shape!(c01_t_addassign_4_0, 4, 0, 5, 0);
add_assign_shape!(c01_t_addassign_4_1, 4, 1, 5, 0);
add_assign_shape!(c01_t_addassign_4_2, 4, 2, 5, 0);
add_assign_shape!(c01_t_addassign_4_3, 4, 3, 5, 0);
add_assign_shape!(c01_t_addassign_4_4, 4, 4, 5, 0);
add_assign_shape!(c01_q_addassign_5_5, 5, 5, 6, 0);
add_assign_shape!(c01_q_addassign_5_6, 5, 6, 7, 0);
add_assign_shape!(c01_q_addassign_6_5, 6, 5, 7, 0);
add_assign_shape!(c01_t_addassign_6_6, 6, 6, 7, 0);
add_assign_shape!(c01_t_addassign_10_11, 10, 11, 12, 0);
add_assign_shape!(c01_t_addassign_11_10, 11, 10, 12, 0);
add_assign_shape!(c01_t_addassign_10_5, 10, 5, 11, 0);
add_assign_shape!(c01_t_addassign_5_10, 5, 10, 11, 0);
add_assign_shape!(c01_t_addassign_cap_1_1, 1, 1, 2, 3);
add_assign_shape!(c01_t_addassign_cap_2_3, 2, 3, 4, 3);
add_assign_shape!(c01_t_addassign_cap_3_2, 3, 2, 4, 3);
add_refref_shape!(c01_q_addrefref_0_0, 0, 0, 1);
add_refref_shape!(c01_q_addrefref_0_1, 0, 1, 2);
add_refref_shape!(c01_t_addrefref_0_2, 0, 2, 3);
add_refref_shape!(c01_t_addrefref_0_3, 0, 3, 4);
add_refref_shape!(c01_t_addrefref_1_0, 1, 0, 2);
add_refref_shape!(c01_t_addrefref_1_1, 1, 1, 2);
add_refref_shape!(c01_q_addrefref_1_2, 1, 2, 3);
add_refref_shape!(c01_t_addrefref_1_3, 1, 3, 4);
add_refref_shape!(c01_t_addrefref_2_0, 2, 0, 3);
add_refref_shape!(c01_q_addrefref_2_1, 2, 1, 3);
add_refref_shape!(c01_q_addrefref_2_2, 2, 2, 3);
add_refref_shape!(c01_t_addrefref_2_3, 2, 3, 4);
add_refref_shape!(c01_t_addrefref_3_0, 3, 0, 4);
add_refref_shape!(c01_t_addrefref_3_1, 3, 1, 4);
add_refref_shape!(c01_t_addrefref_3_2, 3, 2, 4);
add_refref_shape!(c01_t_addrefref_3_3, 3, 3, 4);
add_valval_shape!(c01_q_addvalval_1_2_c0_0, 1, 2, 3, 0, 0);
add_valval_shape!(c01_q_addvalval_1_2_c4_0, 1, 2, 3, 4, 0);
add_valval_shape!(c01_q_addvalval_2_1_c0_4, 2, 1, 3, 0, 4);
add_valval_shape!(c01_t_addvalval_2_2_c1_0, 2, 2, 3, 1, 0);
add_valval_shape!(c01_t_addvalval_0_2_c3_0, 0, 2, 3, 3, 0);
add_valval_shape!(c01_t_addvalval_3_1_c0_3, 3, 1, 4, 0, 3);
add_valval_shape!(c01_t_addvalval_3_3_c0_1, 3, 3, 4, 0, 1);
// END GENERATED
