// C01 — harnesses anchored in src/biguint/subtraction.rs
#![allow(unused_imports, dead_code)]
use super::*;
use crate::biguint::verif_common as vc;
use alloc::{vec, vec::Vec};
use num_traits::CheckedSub;

// sub2(a, b): a -= b in place; REQUIRED to panic iff a < b (numerically, b may be longer than a).
// no-panic half: assume a >= b, any panic/overflow is a failure; result compared with the window oracle.
macro_rules! sub2_ge_shape {
    ($name:ident, $la:expr, $lb:expr) => {
        #[kani::proof]
        #[kani::unwind(14)]
        #[kani::stub(core::arch::x86_64::_subborrow_u64, vc::stub_subborrow)]
        #[kani::stub(schoolbook_sub_assign_x86_64, vc::model_sub)]
        fn $name() {
            let a0: [u64; $la] = kani::any();
            let b0: [u64; $lb] = kani::any();
            kani::assume(vc::ref_cmp(&a0, &b0) >= 0);
            let mut a = a0;
            let b = b0;
            sub2(&mut a, &b);
            let (d, borrow) = vc::ref_sub::<$la>(&a0, &b0);
            kani::assert(!borrow, "VERIF oracle borrow under a>=b");
            let mut i = 0;
            while i < $la {
                kani::assert(a[i] == d[i], "VERIF sub2 digit differs from exact difference");
                i += 1;
            }
            let mut j = 0;
            while j < $lb {
                kani::assert(b[j] == b0[j], "VERIF borrowed operand modified");
                j += 1;
            }
            kani::cover!($lb == 0 || $la < 2 || (a0[$la - 1] != a[$la - 1] && a0[0] < vc::dig(&b0, 0)), "reach:borrow_reaches_top");
        }
    };
}
// must-panic half: a < b
macro_rules! sub2_lt_shape {
    ($name:ident, $la:expr, $lb:expr) => {
        #[kani::proof]
        #[kani::unwind(14)]
        #[kani::stub(core::arch::x86_64::_subborrow_u64, vc::stub_subborrow)]
        #[kani::stub(schoolbook_sub_assign_x86_64, vc::model_sub)]
        fn $name() {
            let a0: [u64; $la] = kani::any();
            let b0: [u64; $lb] = kani::any();
            kani::assume(vc::ref_cmp(&a0, &b0) < 0);
            let mut a = a0;
            sub2(&mut a, &b0);
            kani::assert(false, "VERIF_SURVIVED sub2 returned although a < b");
        }
    };
}

// a -= &b ; a - &b ; &a - &b  on canonical operands with a >= b: exact difference, canonical.
macro_rules! subassign_shape {
    ($name:ident, $la:expr, $lb:expr) => {
        #[kani::proof]
        #[kani::unwind(14)]
        #[kani::stub(core::arch::x86_64::_subborrow_u64, vc::stub_subborrow)]
        #[kani::stub(schoolbook_sub_assign_x86_64, vc::model_sub)]
        fn $name() {
            let a0: [u64; $la] = vc::any_canon::<$la>();
            let b0: [u64; $lb] = vc::any_canon::<$lb>();
            kani::assume(vc::ref_cmp(&a0, &b0) >= 0);
            let mut a = vc::mk_cap(&a0, 0);
            let b = vc::mk_cap(&b0, 0);
            a -= &b;
            let (d, _) = vc::ref_sub::<$la>(&a0, &b0);
            kani::assert(vc::eq_window(vc::digits(&a), &d), "VERIF a -= &b differs from exact difference");
            kani::assert(vc::is_canonical(&a), "VERIF result not canonical");
            kani::assert(vc::eq_window(vc::digits(&b), &b0) && vc::digits(&b).len() == $lb, "VERIF borrowed operand modified");
            kani::cover!($la != $lb || vc::digits(&a).len() == 0, "reach:result_zero");
            kani::cover!($la < 2 || vc::digits(&a).len() == $la - 1, "reach:shrunk_by_one");
        }
    };
}
macro_rules! subassign_lt_shape {
    ($name:ident, $la:expr, $lb:expr) => {
        #[kani::proof]
        #[kani::unwind(14)]
        #[kani::stub(core::arch::x86_64::_subborrow_u64, vc::stub_subborrow)]
        #[kani::stub(schoolbook_sub_assign_x86_64, vc::model_sub)]
        fn $name() {
            let a0: [u64; $la] = vc::any_canon::<$la>();
            let b0: [u64; $lb] = vc::any_canon::<$lb>();
            kani::assume(vc::ref_cmp(&a0, &b0) < 0);
            let mut a = vc::mk_cap(&a0, 0);
            let b = vc::mk_cap(&b0, 0);
            a -= &b;
            kani::assert(false, "VERIF_SURVIVED BigUint -= returned although a < b");
        }
    };
}
// &a - b (b by value: the __sub2rev / extend / sub2(.., &[1]) path and the sub2rev path)
macro_rules! sub_refval_shape {
    ($name:ident, $la:expr, $lb:expr) => {
        #[kani::proof]
        #[kani::unwind(14)]
        #[kani::stub(core::arch::x86_64::_subborrow_u64, vc::stub_subborrow)]
        #[kani::stub(schoolbook_sub_assign_x86_64, vc::model_sub)]
        fn $name() {
            let a0: [u64; $la] = vc::any_canon::<$la>();
            let b0: [u64; $lb] = vc::any_canon::<$lb>();
            kani::assume(vc::ref_cmp(&a0, &b0) >= 0);
            let a = vc::mk_cap(&a0, 0);
            let b = vc::mk_cap(&b0, 0);
            let r = &a - b;
            let (d, _) = vc::ref_sub::<$la>(&a0, &b0);
            kani::assert(vc::eq_window(vc::digits(&r), &d), "VERIF &a - b differs from exact difference");
            kani::assert(vc::is_canonical(&r), "VERIF result not canonical");
            kani::assert(vc::eq_window(vc::digits(&a), &a0) && vc::digits(&a).len() == $la, "VERIF borrowed operand modified");
            kani::cover!($lb == 0 || $la <= $lb || a0[0] < b0[0], "reach:low_borrow_into_tail");
        }
    };
}
macro_rules! sub_refval_lt_shape {
    ($name:ident, $la:expr, $lb:expr) => {
        #[kani::proof]
        #[kani::unwind(14)]
        #[kani::stub(core::arch::x86_64::_subborrow_u64, vc::stub_subborrow)]
        #[kani::stub(schoolbook_sub_assign_x86_64, vc::model_sub)]
        fn $name() {
            let a0: [u64; $la] = vc::any_canon::<$la>();
            let b0: [u64; $lb] = vc::any_canon::<$lb>();
            kani::assume(vc::ref_cmp(&a0, &b0) < 0);
            let a = vc::mk_cap(&a0, 0);
            let b = vc::mk_cap(&b0, 0);
            let _r = &a - b;
            kani::assert(false, "VERIF_SURVIVED &BigUint - BigUint returned although a < b");
        }
    };
}
// checked_sub: None iff a < b, Some(exact) otherwise, never panics; &a - &b same value.
macro_rules! checked_sub_shape {
    ($name:ident, $la:expr, $lb:expr, $w:expr) => {
        #[kani::proof]
        #[kani::unwind(14)]
        #[kani::stub(core::arch::x86_64::_subborrow_u64, vc::stub_subborrow)]
        #[kani::stub(schoolbook_sub_assign_x86_64, vc::model_sub)]
        fn $name() {
            let a0: [u64; $la] = vc::any_canon::<$la>();
            let b0: [u64; $lb] = vc::any_canon::<$lb>();
            let a = vc::mk_cap(&a0, 0);
            let b = vc::mk_cap(&b0, 0);
            let r = a.checked_sub(&b);
            let lt = vc::ref_cmp(&a0, &b0) < 0;
            match r {
                None => kani::assert(lt, "VERIF checked_sub returned None although a >= b"),
                Some(v) => {
                    kani::assert(!lt, "VERIF checked_sub returned Some although a < b");
                    let (d, _) = vc::ref_sub::<$w>(&a0, &b0);
                    kani::assert(vc::eq_window(vc::digits(&v), &d), "VERIF checked_sub value differs");
                    kani::assert(vc::is_canonical(&v), "VERIF result not canonical");
                }
            }
            kani::cover!($la < $lb || !lt, "reach:some");
            kani::cover!($la > $lb || ($la == 0 && $lb == 0) || lt, "reach:none");
        }
    };
}

// BEGIN GENERATED c01_biguint_subtraction
sub2_ge_shape!(c01_t_sub2_ge_0_0, 0, 0);
sub2_ge_shape!(c01_t_sub2_ge_0_1, 0, 1);
sub2_lt_shape!(c01_t_sub2_lt_0_1_mp, 0, 1);
sub2_ge_shape!(c01_t_sub2_ge_0_2, 0, 2);
sub2_lt_shape!(c01_t_sub2_lt_0_2_mp, 0, 2);
sub2_ge_shape!(c01_t_sub2_ge_0_3, 0, 3);
sub2_lt_shape!(c01_t_sub2_lt_0_3_mp, 0, 3);
sub2_ge_shape!(c01_t_sub2_ge_0_4, 0, 4);
sub2_lt_shape!(c01_t_sub2_lt_0_4_mp, 0, 4);
sub2_ge_shape!(c01_t_sub2_ge_0_5, 0, 5);
sub2_lt_shape!(c01_t_sub2_lt_0_5_mp, 0, 5);
sub2_ge_shape!(c01_t_sub2_ge_0_6, 0, 6);
sub2_lt_shape!(c01_t_sub2_lt_0_6_mp, 0, 6);
sub2_ge_shape!(c01_t_sub2_ge_0_7, 0, 7);
sub2_lt_shape!(c01_t_sub2_lt_0_7_mp, 0, 7);
sub2_ge_shape!(c01_t_sub2_ge_0_8, 0, 8);
sub2_lt_shape!(c01_t_sub2_lt_0_8_mp, 0, 8);
sub2_ge_shape!(c01_t_sub2_ge_0_9, 0, 9);
sub2_lt_shape!(c01_t_sub2_lt_0_9_mp, 0, 9);
sub2_ge_shape!(c01_t_sub2_ge_0_10, 0, 10);
sub2_lt_shape!(c01_t_sub2_lt_0_10_mp, 0, 10);
sub2_ge_shape!(c01_t_sub2_ge_0_11, 0, 11);
sub2_lt_shape!(c01_t_sub2_lt_0_11_mp, 0, 11);
sub2_ge_shape!(c01_t_sub2_ge_1_0, 1, 0);
sub2_ge_shape!(c01_q_sub2_ge_1_1, 1, 1);
sub2_lt_shape!(c01_q_sub2_lt_1_1_mp, 1, 1);
sub2_ge_shape!(c01_t_sub2_ge_1_2, 1, 2);
sub2_lt_shape!(c01_t_sub2_lt_1_2_mp, 1, 2);
sub2_ge_shape!(c01_t_sub2_ge_1_3, 1, 3);
sub2_lt_shape!(c01_t_sub2_lt_1_3_mp, 1, 3);
sub2_ge_shape!(c01_t_sub2_ge_1_4, 1, 4);
sub2_lt_shape!(c01_t_sub2_lt_1_4_mp, 1, 4);
sub2_ge_shape!(c01_t_sub2_ge_1_5, 1, 5);
sub2_lt_shape!(c01_t_sub2_lt_1_5_mp, 1, 5);
sub2_ge_shape!(c01_t_sub2_ge_1_6, 1, 6);
sub2_lt_shape!(c01_t_sub2_lt_1_6_mp, 1, 6);
sub2_ge_shape!(c01_t_sub2_ge_1_7, 1, 7);
sub2_lt_shape!(c01_t_sub2_lt_1_7_mp, 1, 7);
sub2_ge_shape!(c01_t_sub2_ge_1_8, 1, 8);
sub2_lt_shape!(c01_t_sub2_lt_1_8_mp, 1, 8);
sub2_ge_shape!(c01_t_sub2_ge_1_9, 1, 9);
sub2_lt_shape!(c01_t_sub2_lt_1_9_mp, 1, 9);
sub2_ge_shape!(c01_t_sub2_ge_1_10, 1, 10);
sub2_lt_shape!(c01_t_sub2_lt_1_10_mp, 1, 10);
sub2_ge_shape!(c01_t_sub2_ge_1_11, 1, 11);
sub2_lt_shape!(c01_t_sub2_lt_1_11_mp, 1, 11);
sub2_ge_shape!(c01_q_sub2_ge_2_0, 2, 0);
sub2_ge_shape!(c01_q_sub2_ge_2_1, 2, 1);
sub2_lt_shape!(c01_q_sub2_lt_2_1_mp, 2, 1);
sub2_ge_shape!(c01_t_sub2_ge_2_2, 2, 2);
sub2_lt_shape!(c01_t_sub2_lt_2_2_mp, 2, 2);
sub2_ge_shape!(c01_t_sub2_ge_2_3, 2, 3);
sub2_lt_shape!(c01_t_sub2_lt_2_3_mp, 2, 3);
sub2_ge_shape!(c01_t_sub2_ge_2_4, 2, 4);
sub2_lt_shape!(c01_t_sub2_lt_2_4_mp, 2, 4);
sub2_ge_shape!(c01_t_sub2_ge_2_5, 2, 5);
sub2_lt_shape!(c01_t_sub2_lt_2_5_mp, 2, 5);
sub2_ge_shape!(c01_t_sub2_ge_2_6, 2, 6);
sub2_lt_shape!(c01_t_sub2_lt_2_6_mp, 2, 6);
sub2_ge_shape!(c01_t_sub2_ge_2_7, 2, 7);
sub2_lt_shape!(c01_t_sub2_lt_2_7_mp, 2, 7);
sub2_ge_shape!(c01_t_sub2_ge_2_8, 2, 8);
sub2_lt_shape!(c01_t_sub2_lt_2_8_mp, 2, 8);
sub2_ge_shape!(c01_t_sub2_ge_2_9, 2, 9);
sub2_lt_shape!(c01_t_sub2_lt_2_9_mp, 2, 9);
sub2_ge_shape!(c01_t_sub2_ge_2_10, 2, 10);
sub2_lt_shape!(c01_t_sub2_lt_2_10_mp, 2, 10);
sub2_ge_shape!(c01_t_sub2_ge_2_11, 2, 11);
sub2_lt_shape!(c01_t_sub2_lt_2_11_mp, 2, 11);
sub2_ge_shape!(c01_t_sub2_ge_3_0, 3, 0);
sub2_ge_shape!(c01_t_sub2_ge_3_1, 3, 1);
sub2_lt_shape!(c01_t_sub2_lt_3_1_mp, 3, 1);
sub2_ge_shape!(c01_t_sub2_ge_3_2, 3, 2);
sub2_lt_shape!(c01_t_sub2_lt_3_2_mp, 3, 2);
sub2_ge_shape!(c01_q_sub2_ge_3_3, 3, 3);
sub2_lt_shape!(c01_q_sub2_lt_3_3_mp, 3, 3);
sub2_ge_shape!(c01_t_sub2_ge_3_4, 3, 4);
sub2_lt_shape!(c01_t_sub2_lt_3_4_mp, 3, 4);
sub2_ge_shape!(c01_q_sub2_ge_3_5, 3, 5);
sub2_lt_shape!(c01_q_sub2_lt_3_5_mp, 3, 5);
sub2_ge_shape!(c01_t_sub2_ge_3_6, 3, 6);
sub2_lt_shape!(c01_t_sub2_lt_3_6_mp, 3, 6);
sub2_ge_shape!(c01_t_sub2_ge_3_7, 3, 7);
sub2_lt_shape!(c01_t_sub2_lt_3_7_mp, 3, 7);
sub2_ge_shape!(c01_t_sub2_ge_3_8, 3, 8);
sub2_lt_shape!(c01_t_sub2_lt_3_8_mp, 3, 8);
sub2_ge_shape!(c01_t_sub2_ge_3_9, 3, 9);
sub2_lt_shape!(c01_t_sub2_lt_3_9_mp, 3, 9);
sub2_ge_shape!(c01_t_sub2_ge_3_10, 3, 10);
sub2_lt_shape!(c01_t_sub2_lt_3_10_mp, 3, 10);
sub2_ge_shape!(c01_t_sub2_ge_3_11, 3, 11);
sub2_lt_shape!(c01_t_sub2_lt_3_11_mp, 3, 11);
sub2_ge_shape!(c01_t_sub2_ge_4_0, 4, 0);
sub2_ge_shape!(c01_t_sub2_ge_4_1, 4, 1);
sub2_lt_shape!(c01_t_sub2_lt_4_1_mp, 4, 1);
sub2_ge_shape!(c01_t_sub2_ge_4_2, 4, 2);
sub2_lt_shape!(c01_t_sub2_lt_4_2_mp, 4, 2);
sub2_ge_shape!(c01_t_sub2_ge_4_3, 4, 3);
sub2_lt_shape!(c01_t_sub2_lt_4_3_mp, 4, 3);
sub2_ge_shape!(c01_t_sub2_ge_4_4, 4, 4);
sub2_lt_shape!(c01_t_sub2_lt_4_4_mp, 4, 4);
sub2_ge_shape!(c01_t_sub2_ge_4_5, 4, 5);
sub2_lt_shape!(c01_t_sub2_lt_4_5_mp, 4, 5);
sub2_ge_shape!(c01_t_sub2_ge_4_6, 4, 6);
sub2_lt_shape!(c01_t_sub2_lt_4_6_mp, 4, 6);
sub2_ge_shape!(c01_t_sub2_ge_4_7, 4, 7);
sub2_lt_shape!(c01_t_sub2_lt_4_7_mp, 4, 7);
sub2_ge_shape!(c01_t_sub2_ge_4_8, 4, 8);
sub2_lt_shape!(c01_t_sub2_lt_4_8_mp, 4, 8);
sub2_ge_shape!(c01_t_sub2_ge_4_9, 4, 9);
sub2_lt_shape!(c01_t_sub2_lt_4_9_mp, 4, 9);
sub2_ge_shape!(c01_t_sub2_ge_4_10, 4, 10);
sub2_lt_shape!(c01_t_sub2_lt_4_10_mp, 4, 10);
sub2_ge_shape!(c01_t_sub2_ge_4_11, 4, 11);
sub2_lt_shape!(c01_t_sub2_lt_4_11_mp, 4, 11);
sub2_ge_shape!(c01_t_sub2_ge_5_0, 5, 0);
sub2_ge_shape!(c01_t_sub2_ge_5_1, 5, 1);
sub2_lt_shape!(c01_t_sub2_lt_5_1_mp, 5, 1);
sub2_ge_shape!(c01_t_sub2_ge_5_2, 5, 2);
sub2_lt_shape!(c01_t_sub2_lt_5_2_mp, 5, 2);
sub2_ge_shape!(c01_t_sub2_ge_5_3, 5, 3);
sub2_lt_shape!(c01_t_sub2_lt_5_3_mp, 5, 3);
sub2_ge_shape!(c01_t_sub2_ge_5_4, 5, 4);
sub2_lt_shape!(c01_t_sub2_lt_5_4_mp, 5, 4);
sub2_ge_shape!(c01_q_sub2_ge_5_5, 5, 5);
sub2_lt_shape!(c01_q_sub2_lt_5_5_mp, 5, 5);
sub2_ge_shape!(c01_t_sub2_ge_5_6, 5, 6);
sub2_lt_shape!(c01_t_sub2_lt_5_6_mp, 5, 6);
sub2_ge_shape!(c01_t_sub2_ge_5_7, 5, 7);
sub2_lt_shape!(c01_t_sub2_lt_5_7_mp, 5, 7);
sub2_ge_shape!(c01_t_sub2_ge_5_8, 5, 8);
sub2_lt_shape!(c01_t_sub2_lt_5_8_mp, 5, 8);
sub2_ge_shape!(c01_t_sub2_ge_5_9, 5, 9);
sub2_lt_shape!(c01_t_sub2_lt_5_9_mp, 5, 9);
sub2_ge_shape!(c01_t_sub2_ge_5_10, 5, 10);
sub2_lt_shape!(c01_t_sub2_lt_5_10_mp, 5, 10);
sub2_ge_shape!(c01_t_sub2_ge_5_11, 5, 11);
sub2_lt_shape!(c01_t_sub2_lt_5_11_mp, 5, 11);
sub2_ge_shape!(c01_t_sub2_ge_6_0, 6, 0);
sub2_ge_shape!(c01_t_sub2_ge_6_1, 6, 1);
sub2_lt_shape!(c01_t_sub2_lt_6_1_mp, 6, 1);
sub2_ge_shape!(c01_t_sub2_ge_6_2, 6, 2);
sub2_lt_shape!(c01_t_sub2_lt_6_2_mp, 6, 2);
sub2_ge_shape!(c01_t_sub2_ge_6_3, 6, 3);
sub2_lt_shape!(c01_t_sub2_lt_6_3_mp, 6, 3);
sub2_ge_shape!(c01_t_sub2_ge_6_4, 6, 4);
sub2_lt_shape!(c01_t_sub2_lt_6_4_mp, 6, 4);
sub2_ge_shape!(c01_q_sub2_ge_6_5, 6, 5);
sub2_lt_shape!(c01_q_sub2_lt_6_5_mp, 6, 5);
sub2_ge_shape!(c01_q_sub2_ge_6_6, 6, 6);
sub2_lt_shape!(c01_q_sub2_lt_6_6_mp, 6, 6);
sub2_ge_shape!(c01_t_sub2_ge_6_7, 6, 7);
sub2_lt_shape!(c01_t_sub2_lt_6_7_mp, 6, 7);
sub2_ge_shape!(c01_t_sub2_ge_6_8, 6, 8);
sub2_lt_shape!(c01_t_sub2_lt_6_8_mp, 6, 8);
sub2_ge_shape!(c01_t_sub2_ge_6_9, 6, 9);
sub2_lt_shape!(c01_t_sub2_lt_6_9_mp, 6, 9);
sub2_ge_shape!(c01_t_sub2_ge_6_10, 6, 10);
sub2_lt_shape!(c01_t_sub2_lt_6_10_mp, 6, 10);
sub2_ge_shape!(c01_t_sub2_ge_6_11, 6, 11);
sub2_lt_shape!(c01_t_sub2_lt_6_11_mp, 6, 11);
sub2_ge_shape!(c01_t_sub2_ge_7_0, 7, 0);
sub2_ge_shape!(c01_t_sub2_ge_7_1, 7, 1);
sub2_lt_shape!(c01_t_sub2_lt_7_1_mp, 7, 1);
sub2_ge_shape!(c01_t_sub2_ge_7_2, 7, 2);
sub2_lt_shape!(c01_t_sub2_lt_7_2_mp, 7, 2);
sub2_ge_shape!(c01_t_sub2_ge_7_3, 7, 3);
sub2_lt_shape!(c01_t_sub2_lt_7_3_mp, 7, 3);
sub2_ge_shape!(c01_t_sub2_ge_7_4, 7, 4);
sub2_lt_shape!(c01_t_sub2_lt_7_4_mp, 7, 4);
sub2_ge_shape!(c01_t_sub2_ge_7_5, 7, 5);
sub2_lt_shape!(c01_t_sub2_lt_7_5_mp, 7, 5);
sub2_ge_shape!(c01_t_sub2_ge_7_6, 7, 6);
sub2_lt_shape!(c01_t_sub2_lt_7_6_mp, 7, 6);
sub2_ge_shape!(c01_t_sub2_ge_7_7, 7, 7);
sub2_lt_shape!(c01_t_sub2_lt_7_7_mp, 7, 7);
sub2_ge_shape!(c01_t_sub2_ge_7_8, 7, 8);
sub2_lt_shape!(c01_t_sub2_lt_7_8_mp, 7, 8);
sub2_ge_shape!(c01_q_sub2_ge_7_9, 7, 9);
sub2_lt_shape!(c01_q_sub2_lt_7_9_mp, 7, 9);
sub2_ge_shape!(c01_t_sub2_ge_7_10, 7, 10);
sub2_lt_shape!(c01_t_sub2_lt_7_10_mp, 7, 10);
sub2_ge_shape!(c01_t_sub2_ge_7_11, 7, 11);
sub2_lt_shape!(c01_t_sub2_lt_7_11_mp, 7, 11);
sub2_ge_shape!(c01_t_sub2_ge_8_0, 8, 0);
sub2_ge_shape!(c01_t_sub2_ge_8_1, 8, 1);
sub2_lt_shape!(c01_t_sub2_lt_8_1_mp, 8, 1);
sub2_ge_shape!(c01_t_sub2_ge_8_2, 8, 2);
sub2_lt_shape!(c01_t_sub2_lt_8_2_mp, 8, 2);
sub2_ge_shape!(c01_t_sub2_ge_8_3, 8, 3);
sub2_lt_shape!(c01_t_sub2_lt_8_3_mp, 8, 3);
sub2_ge_shape!(c01_t_sub2_ge_8_4, 8, 4);
sub2_lt_shape!(c01_t_sub2_lt_8_4_mp, 8, 4);
sub2_ge_shape!(c01_t_sub2_ge_8_5, 8, 5);
sub2_lt_shape!(c01_t_sub2_lt_8_5_mp, 8, 5);
sub2_ge_shape!(c01_t_sub2_ge_8_6, 8, 6);
sub2_lt_shape!(c01_t_sub2_lt_8_6_mp, 8, 6);
sub2_ge_shape!(c01_t_sub2_ge_8_7, 8, 7);
sub2_lt_shape!(c01_t_sub2_lt_8_7_mp, 8, 7);
sub2_ge_shape!(c01_t_sub2_ge_8_8, 8, 8);
sub2_lt_shape!(c01_t_sub2_lt_8_8_mp, 8, 8);
sub2_ge_shape!(c01_t_sub2_ge_8_9, 8, 9);
sub2_lt_shape!(c01_t_sub2_lt_8_9_mp, 8, 9);
sub2_ge_shape!(c01_t_sub2_ge_8_10, 8, 10);
sub2_lt_shape!(c01_t_sub2_lt_8_10_mp, 8, 10);
sub2_ge_shape!(c01_t_sub2_ge_8_11, 8, 11);
sub2_lt_shape!(c01_t_sub2_lt_8_11_mp, 8, 11);
sub2_ge_shape!(c01_t_sub2_ge_9_0, 9, 0);
sub2_ge_shape!(c01_t_sub2_ge_9_1, 9, 1);
sub2_lt_shape!(c01_t_sub2_lt_9_1_mp, 9, 1);
sub2_ge_shape!(c01_t_sub2_ge_9_2, 9, 2);
sub2_lt_shape!(c01_t_sub2_lt_9_2_mp, 9, 2);
sub2_ge_shape!(c01_t_sub2_ge_9_3, 9, 3);
sub2_lt_shape!(c01_t_sub2_lt_9_3_mp, 9, 3);
sub2_ge_shape!(c01_t_sub2_ge_9_4, 9, 4);
sub2_lt_shape!(c01_t_sub2_lt_9_4_mp, 9, 4);
sub2_ge_shape!(c01_t_sub2_ge_9_5, 9, 5);
sub2_lt_shape!(c01_t_sub2_lt_9_5_mp, 9, 5);
sub2_ge_shape!(c01_t_sub2_ge_9_6, 9, 6);
sub2_lt_shape!(c01_t_sub2_lt_9_6_mp, 9, 6);
sub2_ge_shape!(c01_t_sub2_ge_9_7, 9, 7);
sub2_lt_shape!(c01_t_sub2_lt_9_7_mp, 9, 7);
sub2_ge_shape!(c01_t_sub2_ge_9_8, 9, 8);
sub2_lt_shape!(c01_t_sub2_lt_9_8_mp, 9, 8);
sub2_ge_shape!(c01_t_sub2_ge_9_9, 9, 9);
sub2_lt_shape!(c01_t_sub2_lt_9_9_mp, 9, 9);
sub2_ge_shape!(c01_t_sub2_ge_9_10, 9, 10);
sub2_lt_shape!(c01_t_sub2_lt_9_10_mp, 9, 10);
sub2_ge_shape!(c01_t_sub2_ge_9_11, 9, 11);
sub2_lt_shape!(c01_t_sub2_lt_9_11_mp, 9, 11);
sub2_ge_shape!(c01_t_sub2_ge_10_0, 10, 0);
sub2_ge_shape!(c01_t_sub2_ge_10_1, 10, 1);
sub2_lt_shape!(c01_t_sub2_lt_10_1_mp, 10, 1);
sub2_ge_shape!(c01_t_sub2_ge_10_2, 10, 2);
sub2_lt_shape!(c01_t_sub2_lt_10_2_mp, 10, 2);
sub2_ge_shape!(c01_t_sub2_ge_10_3, 10, 3);
sub2_lt_shape!(c01_t_sub2_lt_10_3_mp, 10, 3);
sub2_ge_shape!(c01_t_sub2_ge_10_4, 10, 4);
sub2_lt_shape!(c01_t_sub2_lt_10_4_mp, 10, 4);
sub2_ge_shape!(c01_t_sub2_ge_10_5, 10, 5);
sub2_lt_shape!(c01_t_sub2_lt_10_5_mp, 10, 5);
sub2_ge_shape!(c01_t_sub2_ge_10_6, 10, 6);
sub2_lt_shape!(c01_t_sub2_lt_10_6_mp, 10, 6);
sub2_ge_shape!(c01_t_sub2_ge_10_7, 10, 7);
sub2_lt_shape!(c01_t_sub2_lt_10_7_mp, 10, 7);
sub2_ge_shape!(c01_t_sub2_ge_10_8, 10, 8);
sub2_lt_shape!(c01_t_sub2_lt_10_8_mp, 10, 8);
sub2_ge_shape!(c01_t_sub2_ge_10_9, 10, 9);
sub2_lt_shape!(c01_t_sub2_lt_10_9_mp, 10, 9);
sub2_ge_shape!(c01_q_sub2_ge_10_10, 10, 10);
sub2_lt_shape!(c01_q_sub2_lt_10_10_mp, 10, 10);
sub2_ge_shape!(c01_t_sub2_ge_10_11, 10, 11);
sub2_lt_shape!(c01_t_sub2_lt_10_11_mp, 10, 11);
sub2_ge_shape!(c01_t_sub2_ge_11_0, 11, 0);
sub2_ge_shape!(c01_t_sub2_ge_11_1, 11, 1);
sub2_lt_shape!(c01_t_sub2_lt_11_1_mp, 11, 1);
sub2_ge_shape!(c01_t_sub2_ge_11_2, 11, 2);
sub2_lt_shape!(c01_t_sub2_lt_11_2_mp, 11, 2);
sub2_ge_shape!(c01_t_sub2_ge_11_3, 11, 3);
sub2_lt_shape!(c01_t_sub2_lt_11_3_mp, 11, 3);
sub2_ge_shape!(c01_t_sub2_ge_11_4, 11, 4);
sub2_lt_shape!(c01_t_sub2_lt_11_4_mp, 11, 4);
sub2_ge_shape!(c01_q_sub2_ge_11_5, 11, 5);
sub2_lt_shape!(c01_q_sub2_lt_11_5_mp, 11, 5);
sub2_ge_shape!(c01_t_sub2_ge_11_6, 11, 6);
sub2_lt_shape!(c01_t_sub2_lt_11_6_mp, 11, 6);
sub2_ge_shape!(c01_t_sub2_ge_11_7, 11, 7);
sub2_lt_shape!(c01_t_sub2_lt_11_7_mp, 11, 7);
sub2_ge_shape!(c01_t_sub2_ge_11_8, 11, 8);
sub2_lt_shape!(c01_t_sub2_lt_11_8_mp, 11, 8);
sub2_ge_shape!(c01_t_sub2_ge_11_9, 11, 9);
sub2_lt_shape!(c01_t_sub2_lt_11_9_mp, 11, 9);
sub2_ge_shape!(c01_t_sub2_ge_11_10, 11, 10);
sub2_lt_shape!(c01_t_sub2_lt_11_10_mp, 11, 10);
sub2_ge_shape!(c01_q_sub2_ge_11_11, 11, 11);
sub2_lt_shape!(c01_q_sub2_lt_11_11_mp, 11, 11);
subassign_shape!(c01_t_subassign_0_0, 0, 0);
sub_refval_shape!(c01_t_subrefval_0_0, 0, 0);
subassign_shape!(c01_q_subassign_1_0, 1, 0);
sub_refval_shape!(c01_q_subrefval_1_0, 1, 0);
subassign_shape!(c01_q_subassign_1_1, 1, 1);
sub_refval_shape!(c01_q_subrefval_1_1, 1, 1);
subassign_shape!(c01_t_subassign_2_0, 2, 0);
sub_refval_shape!(c01_t_subrefval_2_0, 2, 0);
subassign_shape!(c01_q_subassign_2_1, 2, 1);
sub_refval_shape!(c01_q_subrefval_2_1, 2, 1);
subassign_shape!(c01_q_subassign_2_2, 2, 2);
sub_refval_shape!(c01_q_subrefval_2_2, 2, 2);
subassign_shape!(c01_t_subassign_3_0, 3, 0);
sub_refval_shape!(c01_t_subrefval_3_0, 3, 0);
subassign_shape!(c01_q_subassign_3_1, 3, 1);
sub_refval_shape!(c01_q_subrefval_3_1, 3, 1);
subassign_shape!(c01_q_subassign_3_2, 3, 2);
sub_refval_shape!(c01_q_subrefval_3_2, 3, 2);
subassign_shape!(c01_t_subassign_3_3, 3, 3);
sub_refval_shape!(c01_t_subrefval_3_3, 3, 3);
subassign_shape!(c01_t_subassign_4_0, 4, 0);
sub_refval_shape!(c01_t_subrefval_4_0, 4, 0);
subassign_shape!(c01_t_subassign_4_1, 4, 1);
sub_refval_shape!(c01_t_subrefval_4_1, 4, 1);
subassign_shape!(c01_q_subassign_4_2, 4, 2);
sub_refval_shape!(c01_q_subrefval_4_2, 4, 2);
subassign_shape!(c01_t_subassign_4_3, 4, 3);
sub_refval_shape!(c01_t_subrefval_4_3, 4, 3);
subassign_shape!(c01_t_subassign_4_4, 4, 4);
sub_refval_shape!(c01_t_subrefval_4_4, 4, 4);
subassign_shape!(c01_q_subassign_5_5, 5, 5);
sub_refval_shape!(c01_q_subrefval_5_5, 5, 5);
subassign_shape!(c01_q_subassign_6_5, 6, 5);
sub_refval_shape!(c01_q_subrefval_6_5, 6, 5);
subassign_shape!(c01_t_subassign_6_6, 6, 6);
sub_refval_shape!(c01_t_subrefval_6_6, 6, 6);
subassign_shape!(c01_t_subassign_10_5, 10, 5);
sub_refval_shape!(c01_t_subrefval_10_5, 10, 5);
subassign_shape!(c01_t_subassign_11_10, 11, 10);
sub_refval_shape!(c01_t_subrefval_11_10, 11, 10);
subassign_shape!(c01_t_subassign_11_11, 11, 11);
sub_refval_shape!(c01_t_subrefval_11_11, 11, 11);
subassign_shape!(c01_t_subassign_11_6, 11, 6);
sub_refval_shape!(c01_t_subrefval_11_6, 11, 6);
subassign_lt_shape!(c01_q_subassign_lt_1_1_mp, 1, 1);
sub_refval_lt_shape!(c01_q_subrefval_lt_1_1_mp, 1, 1);
subassign_lt_shape!(c01_q_subassign_lt_2_2_mp, 2, 2);
sub_refval_lt_shape!(c01_q_subrefval_lt_2_2_mp, 2, 2);
subassign_lt_shape!(c01_q_subassign_lt_1_2_mp, 1, 2);
sub_refval_lt_shape!(c01_q_subrefval_lt_1_2_mp, 1, 2);
subassign_lt_shape!(c01_t_subassign_lt_0_1_mp, 0, 1);
sub_refval_lt_shape!(c01_t_subrefval_lt_0_1_mp, 0, 1);
subassign_lt_shape!(c01_t_subassign_lt_2_3_mp, 2, 3);
sub_refval_lt_shape!(c01_t_subrefval_lt_2_3_mp, 2, 3);
subassign_lt_shape!(c01_t_subassign_lt_5_5_mp, 5, 5);
sub_refval_lt_shape!(c01_t_subrefval_lt_5_5_mp, 5, 5);
subassign_lt_shape!(c01_t_subassign_lt_5_6_mp, 5, 6);
sub_refval_lt_shape!(c01_t_subrefval_lt_5_6_mp, 5, 6);
checked_sub_shape!(c01_q_checked_sub_0_0, 0, 0, 1);
checked_sub_shape!(c01_t_checked_sub_0_1, 0, 1, 1);
checked_sub_shape!(c01_t_checked_sub_0_2, 0, 2, 2);
checked_sub_shape!(c01_t_checked_sub_0_3, 0, 3, 3);
checked_sub_shape!(c01_t_checked_sub_1_0, 1, 0, 1);
checked_sub_shape!(c01_q_checked_sub_1_1, 1, 1, 1);
checked_sub_shape!(c01_q_checked_sub_1_2, 1, 2, 2);
checked_sub_shape!(c01_t_checked_sub_1_3, 1, 3, 3);
checked_sub_shape!(c01_t_checked_sub_2_0, 2, 0, 2);
checked_sub_shape!(c01_q_checked_sub_2_1, 2, 1, 2);
checked_sub_shape!(c01_q_checked_sub_2_2, 2, 2, 2);
checked_sub_shape!(c01_t_checked_sub_2_3, 2, 3, 3);
checked_sub_shape!(c01_t_checked_sub_3_0, 3, 0, 3);
checked_sub_shape!(c01_t_checked_sub_3_1, 3, 1, 3);
checked_sub_shape!(c01_t_checked_sub_3_2, 3, 2, 3);
checked_sub_shape!(c01_q_checked_sub_3_3, 3, 3, 3);
// END GENERATED
