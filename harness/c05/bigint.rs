// C05 — BigInt::modpow / BigInt::modinv: sign placement and interval of the result, with the unsigned routine
// under its contract (result < |m| canonical; for modinv additionally result = 0 => |m| = 1 and Some/None arbitrary);
// documented panics (zero modulus, negative exponent).
#![allow(unused_imports, dead_code, static_mut_refs)]
use super::*;
use crate::bigint::verif_icommon::*;
use crate::biguint::verif_common as vc;
use alloc::{vec, vec::Vec};

const W: usize = 4;
static mut GH_X: [u64; W] = [0; W];
static mut GH_SOME: bool = false;
static mut GH_CALLS: u32 = 0;

fn widen<const N: usize>(x: &[u64; N]) -> [u64; W] {
    let mut o = [0u64; W];
    let mut i = 0;
    while i < N {
        o[i] = x[i];
        i += 1;
    }
    o
}

fn widen_slice(x: &[u64]) -> [u64; W] {
    let mut o = [0u64; W];
    let mut i = 0;
    while i < x.len() && i < W {
        o[i] = x[i];
        i += 1;
    }
    o
}
fn modinv_contract_body<const LX: usize>(_b: &BigUint, m: &BigUint) -> Option<BigUint> {
    kani::assert(!vc::digits(m).is_empty(), "VERIF unsigned modinv reached with zero modulus");
    unsafe {
        GH_CALLS += 1;
        GH_SOME = true;
    }
    let x = vc::any_canon::<LX>();
    kani::assume(vc::ref_cmp(&x, vc::digits(m)) < 0);
    if LX == 0 {
        // 0 is an inverse only modulo 1
        kani::assume(vc::digits(m).len() == 1 && vc::digits(m)[0] == 1);
    }
    unsafe {
        GH_X = widen(&x);
    }
    Some(vc::mk_from(&x))
}
fn modpow_contract_body<const LX: usize>(_b: &BigUint, _e: &BigUint, m: &BigUint) -> BigUint {
    if vc::digits(m).is_empty() {
        panic!("attempt to calculate with zero modulus!")
    }
    let x = vc::any_canon::<LX>();
    kani::assume(vc::ref_cmp(&x, vc::digits(m)) < 0);
    unsafe {
        GH_CALLS += 1;
        GH_X = widen(&x);
    }
    vc::mk_from(&x)
}
pub(crate) fn modinv_none(_b: &BigUint, m: &BigUint) -> Option<BigUint> {
    kani::assert(!vc::digits(m).is_empty(), "VERIF unsigned modinv reached with zero modulus");
    unsafe {
        GH_CALLS += 1;
        GH_SOME = false;
    }
    None
}
pub(crate) fn modinv_c0(b: &BigUint, m: &BigUint) -> Option<BigUint> { modinv_contract_body::<0>(b, m) }
pub(crate) fn modinv_c1(b: &BigUint, m: &BigUint) -> Option<BigUint> { modinv_contract_body::<1>(b, m) }
pub(crate) fn modinv_c2(b: &BigUint, m: &BigUint) -> Option<BigUint> { modinv_contract_body::<2>(b, m) }
pub(crate) fn modpow_c0(b: &BigUint, e: &BigUint, m: &BigUint) -> BigUint { modpow_contract_body::<0>(b, e, m) }
pub(crate) fn modpow_c1(b: &BigUint, e: &BigUint, m: &BigUint) -> BigUint { modpow_contract_body::<1>(b, e, m) }
pub(crate) fn modpow_c2(b: &BigUint, e: &BigUint, m: &BigUint) -> BigUint { modpow_contract_body::<2>(b, e, m) }

/// the representative of  s * x (mod |m|)  in [0, m) for m > 0 resp. (m, 0] for m < 0  (s = -1 iff negate)
fn place(negate: bool, m_neg: bool, x: &[u64; W], mabs: &[u64; W]) -> [u64; W] {
    let zero = [0u64; W];
    if vc::ref_is_zero(x) {
        return zero;
    }
    // class of s*x in [0,|m|): x or |m|-x
    let cls = if negate { sub_w(mabs, x) } else { *x };
    if m_neg { sub_w(&cls, mabs) } else { cls }
}

fn check_interval(v: &BigInt, m_neg: bool, mabs: &[u64; W]) {
    // m > 0: 0 <= v < m ;  m < 0: m < v <= 0
    let vt = tc::<W>(v);
    if m_neg {
        kani::assert(vc::ref_is_zero(&vt) || is_neg_w(&vt), "VERIF result > 0 for a negative modulus");
        kani::assert(vc::ref_cmp(mag(v), mabs) < 0, "VERIF result <= modulus (outside (m, 0])");
    } else {
        kani::assert(!is_neg_w(&vt), "VERIF result < 0 for a positive modulus");
        kani::assert(vc::ref_cmp(mag(v), mabs) < 0, "VERIF result >= modulus (outside [0, m))");
    }
}

macro_rules! modinv_shape {
    ($name:ident, $nb:expr, $lb:expr, $nm:expr, $lm:expr, $stub:ident) => {
        #[kani::proof]
        #[kani::unwind(34)]
        #[kani::stub(crate::biguint::BigUint::modinv, $stub)]
        #[kani::stub(crate::biguint::verif_common::symbolic, crate::biguint::verif_common::yes)]
        #[kani::stub(alloc::vec::Vec::shrink_to_fit, vc::noop_shrink)]
        #[kani::stub(core::arch::x86_64::_subborrow_u64, vc::stub_subborrow)]
        #[kani::stub(crate::biguint::subtraction::schoolbook_sub_assign_x86_64, vc::model_sub)]
        fn $name() {
            let b0: [u64; $lb] = vc::any_canon::<$lb>();
            let m0: [u64; $lm] = vc::any_canon::<$lm>();
            let b = mkint($nb, &b0);
            let m = mkint($nm, &m0);
            unsafe { GH_CALLS = 0; }
            let r = b.modinv(&m);
            if !vc::symbolic() {
                // native replay: the unsigned inverse comes from the real routine
                match vc::mk_from(&b0).modinv(&vc::mk_from(&m0)) {
                    Some(x) => unsafe { GH_SOME = true; GH_X = widen_slice(vc::digits(&x)); },
                    None => unsafe { GH_SOME = false; },
                }
                unsafe { GH_CALLS = 1; }
            }
            kani::assert(unsafe { GH_CALLS } == 1, "VERIF expected one unsigned modinv");
            let mabs = widen(&m0);
            match r {
                None => kani::assert(!unsafe { GH_SOME }, "VERIF BigInt::modinv dropped an existing inverse"),
                Some(v) => {
                    kani::assert(unsafe { GH_SOME }, "VERIF BigInt::modinv invented an inverse");
                    kani::assert(int_canonical(&v), "VERIF result not canonical");
                    check_interval(&v, $nm, &mabs);
                    let e = place($nb, $nm, unsafe { &GH_X }, &mabs);
                    check_int::<W>(&v, &e);
                }
            }
            kani::cover!(true, "reach:end_of_harness");
        }
    };
}

macro_rules! modpow_shape {
    ($name:ident, $nb:expr, $lb:expr, $le:expr, $nm:expr, $lm:expr, $stub:ident) => {
        #[kani::proof]
        #[kani::unwind(34)]
        #[kani::stub(crate::biguint::BigUint::modpow, $stub)]
        #[kani::stub(crate::biguint::verif_common::symbolic, crate::biguint::verif_common::yes)]
        #[kani::stub(alloc::vec::Vec::shrink_to_fit, vc::noop_shrink)]
        #[kani::stub(core::arch::x86_64::_subborrow_u64, vc::stub_subborrow)]
        #[kani::stub(crate::biguint::subtraction::schoolbook_sub_assign_x86_64, vc::model_sub)]
        fn $name() {
            let b0: [u64; $lb] = vc::any_canon::<$lb>();
            let e0: [u64; $le] = vc::any_canon::<$le>();
            let m0: [u64; $lm] = vc::any_canon::<$lm>();
            let b = mkint($nb, &b0);
            let e = mkint(false, &e0);
            let m = mkint($nm, &m0);
            unsafe { GH_CALLS = 0; }
            let v = b.modpow(&e, &m);
            if !vc::symbolic() {
                let x = vc::mk_from(&b0).modpow(&vc::mk_from(&e0), &vc::mk_from(&m0));
                unsafe { GH_X = widen_slice(vc::digits(&x)); GH_CALLS = 1; }
            }
            kani::assert(unsafe { GH_CALLS } == 1, "VERIF expected one unsigned modpow");
            let mabs = widen(&m0);
            kani::assert(int_canonical(&v), "VERIF result not canonical");
            check_interval(&v, $nm, &mabs);
            // b^e = (-1)^(b<0 && e odd) * |b|^e
            let e_odd = $le > 0 && (e0[0] & 1) == 1;
            let exp = place($nb && e_odd, $nm, unsafe { &GH_X }, &mabs);
            check_int::<W>(&v, &exp);
            kani::cover!(true, "reach:end_of_harness");
        }
    };
}

// documented panics
macro_rules! modpow_zero_modulus_mp {
    ($name:ident, $nb:expr, $lb:expr, $le:expr) => {
        #[kani::proof]
        #[kani::unwind(34)]
        #[kani::stub(crate::biguint::BigUint::modpow, modpow_c1)]
        fn $name() {
            let b0: [u64; $lb] = vc::any_canon::<$lb>();
            let e0: [u64; $le] = vc::any_canon::<$le>();
            let _ = mkint($nb, &b0).modpow(&mkint(false, &e0), &BigInt::ZERO);
            kani::assert(false, "VERIF_SURVIVED modpow with zero modulus returned");
        }
    };
}
macro_rules! modpow_neg_exp_mp {
    ($name:ident, $nb:expr, $lb:expr, $nm:expr) => {
        #[kani::proof]
        #[kani::unwind(34)]
        #[kani::stub(crate::biguint::BigUint::modpow, modpow_c1)]
        fn $name() {
            let b0: [u64; $lb] = vc::any_canon::<$lb>();
            let e0: [u64; 1] = vc::any_canon::<1>();
            let m0: [u64; 1] = vc::any_canon::<1>();
            let _ = mkint($nb, &b0).modpow(&mkint(true, &e0), &mkint($nm, &m0));
            kani::assert(false, "VERIF_SURVIVED modpow with negative exponent returned");
        }
    };
}
#[kani::proof]
#[kani::unwind(34)]
fn c05_q_modinv_zero_modulus_mp() {
    let b0: [u64; 1] = vc::any_canon::<1>();
    let neg: bool = kani::any();
    let b = if neg { mkint(true, &b0) } else { mkint(false, &b0) };
    let _ = b.modinv(&BigInt::ZERO);
    kani::assert(false, "VERIF_SURVIVED modinv with zero modulus returned");
}

// BEGIN GENERATED c05_bigint
modinv_shape!(c05_q_modinv_p1_p1_x0, false, 1, false, 1, modinv_c0);
modinv_shape!(c05_q_modinv_p1_p1_x1, false, 1, false, 1, modinv_c1);
modinv_shape!(c05_t_modinv_p2_p1_x1, false, 2, false, 1, modinv_c1);
modinv_shape!(c05_q_modinv_p0_p1_x0, false, 0, false, 1, modinv_c0);
modinv_shape!(c05_t_modinv_p1_p2_x1, false, 1, false, 2, modinv_c1);
modinv_shape!(c05_q_modinv_p1_p2_x2, false, 1, false, 2, modinv_c2);
modinv_shape!(c05_t_modinv_p2_p2_x2, false, 2, false, 2, modinv_c2);
modinv_shape!(c05_t_modinv_p0_p2_x1, false, 0, false, 2, modinv_c1);
modinv_shape!(c05_q_modinv_p1_p1_none, false, 1, false, 1, modinv_none);
modpow_shape!(c05_q_modpow_p1_e1_p1_x0, false, 1, 1, false, 1, modpow_c0);
modpow_shape!(c05_q_modpow_p1_e1_p1_x1, false, 1, 1, false, 1, modpow_c1);
modpow_shape!(c05_q_modpow_p1_e0_p1_x1, false, 1, 0, false, 1, modpow_c1);
modpow_shape!(c05_t_modpow_p0_e1_p1_x0, false, 0, 1, false, 1, modpow_c0);
modpow_shape!(c05_q_modpow_p2_e1_p2_x2, false, 2, 1, false, 2, modpow_c2);
modpow_shape!(c05_t_modpow_p1_e2_p2_x1, false, 1, 2, false, 2, modpow_c1);
modpow_shape!(c05_t_modpow_p1_e1_p2_x0, false, 1, 1, false, 2, modpow_c0);
modpow_shape!(c05_t_modpow_p0_e0_p1_x1, false, 0, 0, false, 1, modpow_c1);
modpow_shape!(c05_t_modpow_p1_e0_p1_x0, false, 1, 0, false, 1, modpow_c0);
modinv_shape!(c05_q_modinv_p1_m1_x0, false, 1, true, 1, modinv_c0);
modinv_shape!(c05_q_modinv_p1_m1_x1, false, 1, true, 1, modinv_c1);
modinv_shape!(c05_t_modinv_p2_m1_x1, false, 2, true, 1, modinv_c1);
modinv_shape!(c05_q_modinv_p0_m1_x0, false, 0, true, 1, modinv_c0);
modinv_shape!(c05_t_modinv_p1_m2_x1, false, 1, true, 2, modinv_c1);
modinv_shape!(c05_q_modinv_p1_m2_x2, false, 1, true, 2, modinv_c2);
modinv_shape!(c05_t_modinv_p2_m2_x2, false, 2, true, 2, modinv_c2);
modinv_shape!(c05_t_modinv_p0_m2_x1, false, 0, true, 2, modinv_c1);
modinv_shape!(c05_q_modinv_p1_m1_none, false, 1, true, 1, modinv_none);
modpow_shape!(c05_q_modpow_p1_e1_m1_x0, false, 1, 1, true, 1, modpow_c0);
modpow_shape!(c05_q_modpow_p1_e1_m1_x1, false, 1, 1, true, 1, modpow_c1);
modpow_shape!(c05_q_modpow_p1_e0_m1_x1, false, 1, 0, true, 1, modpow_c1);
modpow_shape!(c05_t_modpow_p0_e1_m1_x0, false, 0, 1, true, 1, modpow_c0);
modpow_shape!(c05_q_modpow_p2_e1_m2_x2, false, 2, 1, true, 2, modpow_c2);
modpow_shape!(c05_t_modpow_p1_e2_m2_x1, false, 1, 2, true, 2, modpow_c1);
modpow_shape!(c05_t_modpow_p1_e1_m2_x0, false, 1, 1, true, 2, modpow_c0);
modpow_shape!(c05_t_modpow_p0_e0_m1_x1, false, 0, 0, true, 1, modpow_c1);
modpow_shape!(c05_t_modpow_p1_e0_m1_x0, false, 1, 0, true, 1, modpow_c0);
modinv_shape!(c05_q_modinv_m1_p1_x0, true, 1, false, 1, modinv_c0);
modinv_shape!(c05_q_modinv_m1_p1_x1, true, 1, false, 1, modinv_c1);
modinv_shape!(c05_t_modinv_m2_p1_x1, true, 2, false, 1, modinv_c1);
modinv_shape!(c05_t_modinv_m1_p2_x1, true, 1, false, 2, modinv_c1);
modinv_shape!(c05_q_modinv_m1_p2_x2, true, 1, false, 2, modinv_c2);
modinv_shape!(c05_t_modinv_m2_p2_x2, true, 2, false, 2, modinv_c2);
modinv_shape!(c05_q_modinv_m1_p1_none, true, 1, false, 1, modinv_none);
modpow_shape!(c05_q_modpow_m1_e1_p1_x0, true, 1, 1, false, 1, modpow_c0);
modpow_shape!(c05_q_modpow_m1_e1_p1_x1, true, 1, 1, false, 1, modpow_c1);
modpow_shape!(c05_q_modpow_m1_e0_p1_x1, true, 1, 0, false, 1, modpow_c1);
modpow_shape!(c05_q_modpow_m2_e1_p2_x2, true, 2, 1, false, 2, modpow_c2);
modpow_shape!(c05_t_modpow_m1_e2_p2_x1, true, 1, 2, false, 2, modpow_c1);
modpow_shape!(c05_t_modpow_m1_e1_p2_x0, true, 1, 1, false, 2, modpow_c0);
modpow_shape!(c05_t_modpow_m1_e0_p1_x0, true, 1, 0, false, 1, modpow_c0);
modinv_shape!(c05_q_modinv_m1_m1_x0, true, 1, true, 1, modinv_c0);
modinv_shape!(c05_q_modinv_m1_m1_x1, true, 1, true, 1, modinv_c1);
modinv_shape!(c05_t_modinv_m2_m1_x1, true, 2, true, 1, modinv_c1);
modinv_shape!(c05_t_modinv_m1_m2_x1, true, 1, true, 2, modinv_c1);
modinv_shape!(c05_q_modinv_m1_m2_x2, true, 1, true, 2, modinv_c2);
modinv_shape!(c05_t_modinv_m2_m2_x2, true, 2, true, 2, modinv_c2);
modinv_shape!(c05_q_modinv_m1_m1_none, true, 1, true, 1, modinv_none);
modpow_shape!(c05_q_modpow_m1_e1_m1_x0, true, 1, 1, true, 1, modpow_c0);
modpow_shape!(c05_q_modpow_m1_e1_m1_x1, true, 1, 1, true, 1, modpow_c1);
modpow_shape!(c05_q_modpow_m1_e0_m1_x1, true, 1, 0, true, 1, modpow_c1);
modpow_shape!(c05_q_modpow_m2_e1_m2_x2, true, 2, 1, true, 2, modpow_c2);
modpow_shape!(c05_t_modpow_m1_e2_m2_x1, true, 1, 2, true, 2, modpow_c1);
modpow_shape!(c05_t_modpow_m1_e1_m2_x0, true, 1, 1, true, 2, modpow_c0);
modpow_shape!(c05_t_modpow_m1_e0_m1_x0, true, 1, 0, true, 1, modpow_c0);
modpow_zero_modulus_mp!(c05_q_modpow_zero_modulus_p1_e1_mp, false, 1, 1);
modpow_zero_modulus_mp!(c05_t_modpow_zero_modulus_m2_e0_mp, true, 2, 0);
modpow_neg_exp_mp!(c05_q_modpow_neg_exp_p1_p_mp, false, 1, false);
modpow_neg_exp_mp!(c05_t_modpow_neg_exp_m1_m_mp, true, 1, true);
// END GENERATED
