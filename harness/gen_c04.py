def c04_canon():
    L = []
    sg = lambda n: "m" if n else "p"
    for la in range(0, 4):
        for lb in range(0, 4):
            q = (la, lb) in {(0, 0), (1, 1), (2, 2), (1, 2), (3, 3), (0, 1)}
            L.append("ucmp_shape!(c04_%s_ucmp_%d_%d, %d, %d);" % (tier(q), la, lb, la, lb))
    for na in (False, True):
        for nb in (False, True):
            for (la, lb) in [(1, 1), (2, 2), (1, 2), (2, 1), (3, 3)]:
                q = (la, lb) in {(1, 1), (2, 2)} or (na != nb and (la, lb) == (1, 2))
                L.append("icmp_shape!(c04_%s_icmp_%s%d_%s%d, %s, %d, %s, %d);" % (tier(q), sg(na), la, sg(nb), lb, str(na).lower(), la, str(nb).lower(), lb))
    for (na, la, nb, lb) in [(False, 0, False, 0), (False, 0, True, 1), (True, 2, False, 0), (False, 0, False, 2)]:
        L.append("icmp_shape!(c04_q_icmp_%s%d_%s%d, %s, %d, %s, %d);" % (sg(na), la, sg(nb), lb, str(na).lower(), la, str(nb).lower(), lb))
    for n in range(0, 7):
        for extra in (0, 9):
            q = n in (0, 1, 3, 6) and extra == 0 or (n == 2 and extra == 9)
            L.append("normalize_shape!(c04_%s_normalize_%d_c%d, %d, %d);" % (tier(q), n, extra, n, extra))
    for (la, lb) in [(0, 3), (1, 3), (2, 1), (3, 3), (0, 0), (2, 0)]:
        L.append("clone_from_shape!(c04_%s_clone_from_%d_%d, %d, %d);" % (tier((la, lb) in {(0, 3), (1, 3), (2, 1)}), la, lb, la, lb))
    return L
GEN["c04_canon"] = c04_canon
