// C04 — equal integers are indistinguishable: canonical form, Eq / Ord / Hash (anchored in src/bigint.rs)
#![allow(unused_imports, dead_code)]
use super::*;
use crate::bigint::verif_icommon::*;
use crate::biguint::verif_common as vc;
use alloc::{vec, vec::Vec};
use core::cmp::Ordering;
use core::hash::{Hash, Hasher};

const W: usize = 4;

/// records everything written to it (bounded), so two hash streams can be compared exactly
struct Rec {
    buf: [u8; 64],
    n: usize,
}
impl Hasher for Rec {
    fn finish(&self) -> u64 {
        0
    }
    fn write(&mut self, bytes: &[u8]) {
        let mut i = 0;
        while i < bytes.len() {
            if self.n < 64 {
                self.buf[self.n] = bytes[i];
            }
            self.n += 1;
            i += 1;
        }
    }
}
fn stream<T: Hash>(x: &T) -> Rec {
    let mut r = Rec { buf: [0; 64], n: 0 };
    x.hash(&mut r);
    r
}
fn same_stream(a: &Rec, b: &Rec) -> bool {
    if a.n != b.n {
        return false;
    }
    let mut i = 0;
    while i < 64 {
        if i < a.n && a.buf[i] != b.buf[i] {
            return false;
        }
        i += 1;
    }
    true
}
fn ord_of(c: i8) -> Ordering {
    if c < 0 {
        Ordering::Less
    } else if c > 0 {
        Ordering::Greater
    } else {
        Ordering::Equal
    }
}

// BigUint: ==, cmp, partial_cmp, <, max agree with numeric order; equal values hash identically
macro_rules! ucmp_shape {
    ($name:ident, $la:expr, $lb:expr) => {
        #[kani::proof]
        #[kani::unwind(70)]
        fn $name() {
            let a0: [u64; $la] = vc::any_canon::<$la>();
            let b0: [u64; $lb] = vc::any_canon::<$lb>();
            let a = vc::mk_cap(&a0, 3); // different spare capacities must not matter
            let b = vc::mk_cap(&b0, 0);
            let c = vc::ref_cmp(&a0, &b0);
            kani::assert(a.cmp(&b) == ord_of(c), "VERIF BigUint::cmp disagrees with numeric order");
            kani::assert(a.partial_cmp(&b) == Some(ord_of(c)), "VERIF partial_cmp");
            kani::assert((a == b) == (c == 0), "VERIF == disagrees with numeric equality");
            kani::assert((a < b) == (c < 0) && (a >= b) == (c >= 0), "VERIF < / >=");
            if c == 0 {
                kani::assert(same_stream(&stream(&a), &stream(&b)), "VERIF equal values hash differently");
            }
            let m = core::cmp::max(a.clone(), b.clone());
            kani::assert(vc::ref_cmp(vc::digits(&m), &a0) >= 0 && vc::ref_cmp(vc::digits(&m), &b0) >= 0, "VERIF max");
        }
    };
}
// BigInt: same with signs
macro_rules! icmp_shape {
    ($name:ident, $na:expr, $la:expr, $nb:expr, $lb:expr) => {
        #[kani::proof]
        #[kani::unwind(70)]
        fn $name() {
            let a0: [u64; $la] = vc::any_canon::<$la>();
            let b0: [u64; $lb] = vc::any_canon::<$lb>();
            let a = mkint($na, &a0);
            let b = mkint($nb, &b0);
            // signed comparison on the two's-complement windows: compare a - b
            let d = sub_w(&tc::<W>(&a), &tc::<W>(&b));
            let c: i8 = if vc::ref_is_zero(&d) { 0 } else if is_neg_w(&d) { -1 } else { 1 };
            kani::assert(a.cmp(&b) == ord_of(c), "VERIF BigInt::cmp disagrees with numeric order");
            kani::assert((a == b) == (c == 0), "VERIF BigInt == disagrees with numeric equality");
            kani::assert((a < b) == (c < 0) && (a <= b) == (c <= 0), "VERIF BigInt < / <=");
            if c == 0 {
                kani::assert(same_stream(&stream(&a), &stream(&b)), "VERIF equal BigInt values hash differently");
            }
        }
    };
}

// normalisation: arbitrary vectors with trailing zero digits and spare capacity -> canonical, value preserved;
// two different raw vectors denoting the same integer become indistinguishable
macro_rules! normalize_shape {
    ($name:ident, $n:expr, $extra:expr) => {
        #[kani::proof]
        #[kani::unwind(70)]
        #[kani::stub(alloc::vec::Vec::shrink_to_fit, vc::noop_shrink)]
        fn $name() {
            let v: [u64; $n] = kani::any();
            let a = crate::biguint::biguint_from_vec(vc::digits(&vc::mk_cap(&v, $extra)).to_vec());
            kani::assert(vc::is_canonical(&a) && vc::eq_window(vc::digits(&a), &v), "VERIF biguint_from_vec not canonical / value changed");
            // the same integer given with one more redundant zero digit
            let mut v2 = [0u64; $n + 1];
            let mut i = 0;
            while i < $n {
                v2[i] = v[i];
                i += 1;
            }
            let b = crate::biguint::biguint_from_vec(v2.to_vec());
            kani::assert(a == b && a.cmp(&b) == Ordering::Equal && same_stream(&stream(&a), &stream(&b)), "VERIF same integer, different history: distinguishable");
            // IntDigits::normalize for BigInt resets the sign of a zero magnitude
            let mut x = raw(Sign::Minus, vc::mk_from(&v));
            crate::biguint::IntDigits::normalize(&mut x);
            kani::assert(int_canonical(&x) && vc::eq_window(mag(&x), &v), "VERIF IntDigits::normalize for BigInt");
            kani::cover!($n == 0 || vc::digits(&a).len() < $n, "reach:trailing_zero_stripped");
            kani::cover!($n == 0 || vc::digits(&a).len() == 0, "reach:all_zero");
        }
    };
}

// clone_from into a buffer that held a longer value; set_zero / set_one; then equality with a fresh value
macro_rules! clone_from_shape {
    ($name:ident, $la:expr, $lb:expr) => {
        #[kani::proof]
        #[kani::unwind(70)]
        fn $name() {
            let a0: [u64; $la] = vc::any_canon::<$la>();
            let b0: [u64; $lb] = vc::any_canon::<$lb>();
            let src = vc::mk_from(&a0);
            let mut dst = vc::mk_cap(&b0, 2);
            dst.clone_from(&src);
            kani::assert(dst == src && same_stream(&stream(&dst), &stream(&src)) && vc::is_canonical(&dst), "VERIF clone_from result distinguishable from its source");
            let isrc = mkint(true, &a0);
            let mut idst = mkint(false, &b0);
            idst.clone_from(&isrc);
            kani::assert(idst == isrc && int_canonical(&idst) && same_stream(&stream(&idst), &stream(&isrc)), "VERIF BigInt::clone_from");
        }
    };
}

// a two-step in-place history returning to the start value: x += y; x -= y  (capacity grew, value identical)
macro_rules! history_shape {
    ($name:ident, $la:expr, $lb:expr) => {
        #[kani::proof]
        #[kani::unwind(70)]
        #[kani::stub(alloc::vec::Vec::shrink_to_fit, vc::noop_shrink)]
        #[kani::stub(core::arch::x86_64::_addcarry_u64, vc::stub_addcarry)]
        #[kani::stub(core::arch::x86_64::_subborrow_u64, vc::stub_subborrow)]
        #[kani::stub(crate::biguint::addition::schoolbook_add_assign_x86_64, vc::model_add)]
        #[kani::stub(crate::biguint::subtraction::schoolbook_sub_assign_x86_64, vc::model_sub)]
        fn $name() {
            let a0: [u64; $la] = vc::any_canon::<$la>();
            let b0: [u64; $lb] = vc::any_canon::<$lb>();
            let orig = vc::mk_from(&a0);
            let y = vc::mk_from(&b0);
            let mut x = vc::mk_from(&a0);
            x += &y;
            x -= &y;
            kani::assert(vc::is_canonical(&x) && vc::digits(&x).len() == $la && vc::eq_window(vc::digits(&x), &a0), "VERIF x += y; x -= y is not identical to x");
            kani::assert(x == orig, "VERIF x += y; x -= y compares unequal to x");
        }
    };
}
macro_rules! ihistory_shape {
    ($name:ident, $la:expr, $lb:expr) => {
        #[kani::proof]
        #[kani::unwind(70)]
        #[kani::stub(alloc::vec::Vec::shrink_to_fit, vc::noop_shrink)]
        #[kani::stub(core::arch::x86_64::_addcarry_u64, vc::stub_addcarry)]
        #[kani::stub(core::arch::x86_64::_subborrow_u64, vc::stub_subborrow)]
        #[kani::stub(crate::biguint::addition::schoolbook_add_assign_x86_64, vc::model_add)]
        #[kani::stub(crate::biguint::subtraction::schoolbook_sub_assign_x86_64, vc::model_sub)]
        fn $name() {
            let a0: [u64; $la] = vc::any_canon::<$la>();
            let b0: [u64; $lb] = vc::any_canon::<$lb>();
            let iy = mkint(false, &b0);
            let mut ix = mkint(true, &a0);
            ix += &iy;
            ix -= &iy;
            kani::assert(int_canonical(&ix) && is_neg(&ix) == ($la > 0) && mag(&ix).len() == $la && vc::eq_window(mag(&ix), &a0), "VERIF BigInt x += y; x -= y is not identical to x");
        }
    };
}

// BEGIN GENERATED c04_canon
ucmp_shape!(c04_q_ucmp_0_0, 0, 0);
ucmp_shape!(c04_q_ucmp_0_1, 0, 1);
ucmp_shape!(c04_t_ucmp_0_2, 0, 2);
ucmp_shape!(c04_t_ucmp_0_3, 0, 3);
ucmp_shape!(c04_t_ucmp_1_0, 1, 0);
ucmp_shape!(c04_q_ucmp_1_1, 1, 1);
ucmp_shape!(c04_q_ucmp_1_2, 1, 2);
ucmp_shape!(c04_t_ucmp_1_3, 1, 3);
ucmp_shape!(c04_t_ucmp_2_0, 2, 0);
ucmp_shape!(c04_t_ucmp_2_1, 2, 1);
ucmp_shape!(c04_q_ucmp_2_2, 2, 2);
ucmp_shape!(c04_t_ucmp_2_3, 2, 3);
ucmp_shape!(c04_t_ucmp_3_0, 3, 0);
ucmp_shape!(c04_t_ucmp_3_1, 3, 1);
ucmp_shape!(c04_t_ucmp_3_2, 3, 2);
ucmp_shape!(c04_q_ucmp_3_3, 3, 3);
icmp_shape!(c04_q_icmp_p1_p1, false, 1, false, 1);
icmp_shape!(c04_q_icmp_p2_p2, false, 2, false, 2);
icmp_shape!(c04_t_icmp_p1_p2, false, 1, false, 2);
icmp_shape!(c04_t_icmp_p2_p1, false, 2, false, 1);
icmp_shape!(c04_t_icmp_p3_p3, false, 3, false, 3);
icmp_shape!(c04_q_icmp_p1_m1, false, 1, true, 1);
icmp_shape!(c04_q_icmp_p2_m2, false, 2, true, 2);
icmp_shape!(c04_q_icmp_p1_m2, false, 1, true, 2);
icmp_shape!(c04_t_icmp_p2_m1, false, 2, true, 1);
icmp_shape!(c04_t_icmp_p3_m3, false, 3, true, 3);
icmp_shape!(c04_q_icmp_m1_p1, true, 1, false, 1);
icmp_shape!(c04_q_icmp_m2_p2, true, 2, false, 2);
icmp_shape!(c04_q_icmp_m1_p2, true, 1, false, 2);
icmp_shape!(c04_t_icmp_m2_p1, true, 2, false, 1);
icmp_shape!(c04_t_icmp_m3_p3, true, 3, false, 3);
icmp_shape!(c04_q_icmp_m1_m1, true, 1, true, 1);
icmp_shape!(c04_q_icmp_m2_m2, true, 2, true, 2);
icmp_shape!(c04_t_icmp_m1_m2, true, 1, true, 2);
icmp_shape!(c04_t_icmp_m2_m1, true, 2, true, 1);
icmp_shape!(c04_t_icmp_m3_m3, true, 3, true, 3);
icmp_shape!(c04_q_icmp_p0_p0, false, 0, false, 0);
icmp_shape!(c04_q_icmp_p0_m1, false, 0, true, 1);
icmp_shape!(c04_q_icmp_m2_p0, true, 2, false, 0);
icmp_shape!(c04_q_icmp_p0_p2, false, 0, false, 2);
normalize_shape!(c04_q_normalize_0_c0, 0, 0);
normalize_shape!(c04_t_normalize_0_c9, 0, 9);
normalize_shape!(c04_q_normalize_1_c0, 1, 0);
normalize_shape!(c04_t_normalize_1_c9, 1, 9);
normalize_shape!(c04_t_normalize_2_c0, 2, 0);
normalize_shape!(c04_q_normalize_2_c9, 2, 9);
normalize_shape!(c04_q_normalize_3_c0, 3, 0);
normalize_shape!(c04_t_normalize_3_c9, 3, 9);
normalize_shape!(c04_t_normalize_4_c0, 4, 0);
normalize_shape!(c04_t_normalize_4_c9, 4, 9);
normalize_shape!(c04_t_normalize_5_c0, 5, 0);
normalize_shape!(c04_t_normalize_5_c9, 5, 9);
normalize_shape!(c04_q_normalize_6_c0, 6, 0);
normalize_shape!(c04_t_normalize_6_c9, 6, 9);
clone_from_shape!(c04_q_clone_from_0_3, 0, 3);
clone_from_shape!(c04_q_clone_from_1_3, 1, 3);
clone_from_shape!(c04_q_clone_from_2_1, 2, 1);
clone_from_shape!(c04_t_clone_from_3_3, 3, 3);
clone_from_shape!(c04_t_clone_from_0_0, 0, 0);
clone_from_shape!(c04_t_clone_from_2_0, 2, 0);
// END GENERATED
