// C13 — gcd / lcm / multiple-of helpers (anchored in src/bigint.rs; BigUint's Integer impl is reached through the public trait)
#![allow(unused_imports, dead_code, static_mut_refs)]
use super::*;
use crate::bigint::verif_icommon::*;
use crate::biguint::verif_common as vc;
use alloc::{vec, vec::Vec};
use num_integer::Integer;

const W: usize = 4;
const SYMSTUB: () = ();

// is_even / is_odd: the low bit of the value, for every sign and length
macro_rules! parity_shape {
    ($name:ident, $neg:expr, $l:expr) => {
        #[kani::proof]
        #[kani::unwind(34)]
        fn $name() {
            let a0: [u64; $l] = vc::any_canon::<$l>();
            let x = mkint($neg, &a0);
            let even = $l == 0 || (a0[0] & 1) == 0;
            kani::assert(x.is_even() == even && x.is_odd() == !even, "VERIF BigInt parity");
            let u = vc::mk_from(&a0);
            kani::assert(u.is_even() == even && u.is_odd() == !even, "VERIF BigUint parity");
        }
    };
}
// inc / dec across digit boundaries and through zero
macro_rules! incdec_shape {
    ($name:ident, $neg:expr, $l:expr) => {
        #[kani::proof]
        #[kani::unwind(34)]
        #[kani::stub(alloc::vec::Vec::shrink_to_fit, vc::noop_shrink)]
        #[kani::stub(core::arch::x86_64::_addcarry_u64, vc::stub_addcarry)]
        #[kani::stub(core::arch::x86_64::_subborrow_u64, vc::stub_subborrow)]
        #[kani::stub(crate::biguint::addition::schoolbook_add_assign_x86_64, vc::model_add)]
        #[kani::stub(crate::biguint::subtraction::schoolbook_sub_assign_x86_64, vc::model_sub)]
        fn $name() {
            let a0: [u64; $l] = vc::any_canon::<$l>();
            let x = mkint($neg, &a0);
            let t = tc::<W>(&x);
            let one: [u64; W] = [1, 0, 0, 0];
            let mut i = x.clone();
            i.inc();
            check_int::<W>(&i, &add_w(&t, &one));
            let mut d = x.clone();
            d.dec();
            check_int::<W>(&d, &sub_w(&t, &one));
            if !$neg {
                let mut u = vc::mk_from(&a0);
                u.inc();
                kani::assert(vc::is_canonical(&u) && vc::eq_window(vc::digits(&u), &add_w(&t, &one)), "VERIF BigUint::inc");
                if $l > 0 {
                    let mut v = vc::mk_from(&a0);
                    v.dec();
                    kani::assert(vc::is_canonical(&v) && vc::eq_window(vc::digits(&v), &sub_w(&t, &one)), "VERIF BigUint::dec");
                }
            }
        }
    };
}
#[kani::proof]
#[kani::unwind(34)]
#[kani::stub(core::arch::x86_64::_subborrow_u64, vc::stub_subborrow)]
#[kani::stub(crate::biguint::subtraction::schoolbook_sub_assign_x86_64, vc::model_sub)]
fn c13_q_biguint_dec_zero_mp() {
    let mut z = BigUint::ZERO;
    z.dec();
    kani::assert(false, "VERIF_SURVIVED BigUint 0.dec() returned");
}

// gcd / lcm of BigInt: computed on magnitudes, always non-negative; zero rules. The unsigned gcd is under contract here.
static mut GH_G: [u64; 2] = [0; 2];
fn ugcd_contract<const LG: usize>(a: &BigUint, b: &BigUint) -> BigUint {
    // gcd(0,0) = 0, gcd(a,0) = a, otherwise some canonical g >= 1 not larger than either operand
    let (da, db) = (vc::digits(a), vc::digits(b));
    if da.is_empty() {
        return b.clone();
    }
    if db.is_empty() {
        return a.clone();
    }
    let g = vc::any_canon::<LG>();
    kani::assume(LG > 0 && vc::ref_cmp(&g, da) <= 0 && vc::ref_cmp(&g, db) <= 0);
    unsafe { GH_G = [g[0], if LG > 1 { g[1] } else { 0 }]; }
    vc::mk_from(&g)
}
fn ugcd_c1(a: &BigUint, b: &BigUint) -> BigUint { ugcd_contract::<1>(a, b) }
macro_rules! igcd_shape {
    ($name:ident, $na:expr, $la:expr, $nb:expr, $lb:expr) => {
        #[kani::proof]
        #[kani::unwind(34)]
        #[kani::stub(<crate::biguint::BigUint as num_integer::Integer>::gcd, ugcd_c1)]
        #[kani::stub(crate::biguint::verif_common::symbolic, crate::biguint::verif_common::yes)]
        fn $name() {
            let a0: [u64; $la] = vc::any_canon::<$la>();
            let b0: [u64; $lb] = vc::any_canon::<$lb>();
            let a = mkint($na, &a0);
            let b = mkint($nb, &b0);
            let g = a.gcd(&b);
            kani::assert(int_canonical(&g) && !is_neg(&g), "VERIF BigInt::gcd is negative or not canonical");
            if $la == 0 {
                kani::assert(vc::eq_window(mag(&g), &b0), "VERIF gcd(0, b) != |b|");
            } else if $lb == 0 {
                kani::assert(vc::eq_window(mag(&g), &a0), "VERIF gcd(a, 0) != |a|");
            } else if vc::symbolic() {
                kani::assert(vc::eq_window(mag(&g), unsafe { &GH_G }), "VERIF BigInt::gcd is not the gcd of the magnitudes");
            }
        }
    };
}
// is_multiple_of: only zero is a multiple of zero
macro_rules! multiple_of_zero_shape {
    ($name:ident, $neg:expr, $l:expr) => {
        #[kani::proof]
        #[kani::unwind(34)]
        fn $name() {
            let a0: [u64; $l] = vc::any_canon::<$l>();
            let x = mkint($neg, &a0);
            kani::assert(x.is_multiple_of(&BigInt::ZERO) == ($l == 0), "VERIF is_multiple_of(0): only zero is a multiple of zero");
            kani::assert(vc::mk_from(&a0).is_multiple_of(&BigUint::ZERO) == ($l == 0), "VERIF BigUint::is_multiple_of(0)");
            kani::assert(BigInt::ZERO.lcm(&BigInt::ZERO).is_zero() && BigUint::ZERO.lcm(&BigUint::ZERO).is_zero(), "VERIF lcm(0,0) != 0");
            let (g, l) = BigUint::ZERO.gcd_lcm(&BigUint::ZERO);
            kani::assert(g.is_zero() && l.is_zero(), "VERIF gcd_lcm(0,0) != (0,0)");
        }
    };
}

parity_shape!(c13_q_parity_p0, false, 0);
parity_shape!(c13_q_parity_p1, false, 1);
parity_shape!(c13_q_parity_m2, true, 2);
incdec_shape!(c13_q_incdec_p0, false, 0);
incdec_shape!(c13_q_incdec_p1, false, 1);
incdec_shape!(c13_q_incdec_m1, true, 1);
incdec_shape!(c13_q_incdec_p2, false, 2);
incdec_shape!(c13_q_incdec_m2, true, 2);
igcd_shape!(c13_q_igcd_p1_m1, false, 1, true, 1);
igcd_shape!(c13_q_igcd_m1_m2, true, 1, true, 2);
igcd_shape!(c13_q_igcd_z_m1, false, 0, true, 1);
igcd_shape!(c13_q_igcd_m2_z, true, 2, false, 0);
igcd_shape!(c13_q_igcd_z_z, false, 0, false, 0);
multiple_of_zero_shape!(c13_q_multiple_of_zero_p0, false, 0);
multiple_of_zero_shape!(c13_q_multiple_of_zero_m1, true, 1);
multiple_of_zero_shape!(c13_q_multiple_of_zero_p2, false, 2);
