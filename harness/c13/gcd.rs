// C13 — Stein gcd on narrow values with the real code (anchored in src/biguint.rs): shifts, comparisons, subtractions only
#![allow(unused_imports, dead_code)]
use super::*;
use crate::biguint::verif_common as vc;
use alloc::{vec, vec::Vec};
use num_integer::Integer;

fn gcd_small(mut a: u64, mut b: u64) -> u64 {
    // Euclid by subtraction-free remainder on tiny values (oracle)
    let mut k = 0;
    while b != 0 && k < 12 {
        let t = a % b;
        a = b;
        b = t;
        k += 1;
    }
    a
}
macro_rules! gcd_shape {
    ($name:ident, $bits:expr, $unw:expr) => {
        #[kani::proof]
        #[kani::unwind($unw)]
        #[kani::stub(alloc::vec::Vec::shrink_to_fit, vc::noop_shrink)]
        #[kani::stub(core::arch::x86_64::_subborrow_u64, vc::stub_subborrow)]
        #[kani::stub(crate::biguint::subtraction::schoolbook_sub_assign_x86_64, vc::model_sub)]
        #[kani::stub(crate::biguint::shift::biguint_shr, crate::biguint::shift::verif_c07_biguint_shift::shr_fixedb_0)]
        #[kani::stub(crate::biguint::shift::biguint_shl, crate::biguint::shift::verif_c07_biguint_shift::shl_fixedb_0)]
        fn $name() {
            let x: u64 = kani::any();
            let y: u64 = kani::any();
            kani::assume(x >= 1 && x < (1 << $bits) && y >= 1 && y < (1 << $bits));
            let g = vc::mk_from(&[x]).gcd(&vc::mk_from(&[y]));
            kani::assert(vc::is_canonical(&g) && vc::eq_window(vc::digits(&g), &[gcd_small(x, y)]), "VERIF Stein gcd differs from Euclid's gcd");
        }
    };
}
gcd_shape!(c13_t_gcd_3bit, 3, 8);
gcd_shape!(c13_t_gcd_4bit, 4, 10);
gcd_shape!(c13_t_gcd_5bit, 5, 13);
#[kani::proof]
#[kani::unwind(34)]
fn c13_q_gcd_zero_rules() {
    let a0: [u64; 2] = vc::any_canon::<2>();
    let a = vc::mk_from(&a0);
    let z = BigUint::ZERO;
    kani::assert(vc::eq_window(vc::digits(&a.gcd(&z)), &a0) && vc::eq_window(vc::digits(&z.gcd(&a)), &a0) && z.gcd(&z).is_zero(), "VERIF gcd zero rules");
}

// Stein gcd on operands whose low WORD is zero: the common power of two spans a digit boundary (>= 64 trailing zeros),
// the odd parts are narrow (thorough tier only: the unrolled Stein loop did not finish within 600 s even on near-concrete operands). Word counts of the shifts are case-split (0 / 1), bit counts symbolic.
macro_rules! gcd_low_zero_shape {
    ($name:ident, $bits:expr, $kmax:expr, $unw:expr) => {
        #[kani::proof]
        #[kani::unwind($unw)]
        #[kani::stub(alloc::vec::Vec::shrink_to_fit, vc::noop_shrink)]
        #[kani::stub(core::arch::x86_64::_subborrow_u64, vc::stub_subborrow)]
        #[kani::stub(crate::biguint::subtraction::schoolbook_sub_assign_x86_64, vc::model_sub)]
        #[kani::stub(crate::biguint::shift::biguint_shr, crate::biguint::shift::verif_c07_biguint_shift::shr_split01)]
        #[kani::stub(crate::biguint::shift::biguint_shl, crate::biguint::shift::verif_c07_biguint_shift::shl_split01)]
        fn $name() {
            let x: u64 = kani::any();
            let y: u64 = kani::any();
            let kx: u32 = kani::any();
            let ky: u32 = kani::any();
            kani::assume(x & 1 == 1 && x < (1 << $bits) && y & 1 == 1 && y < (1 << $bits) && kx <= $kmax && ky <= $kmax);
            let g = vc::mk_from(&[0, x << kx]).gcd(&vc::mk_from(&[0, y << ky]));
            let k = if kx < ky { kx } else { ky };
            kani::cover!(kx != ky && x != y, "reach: distinct odd parts and distinct powers of two");
            kani::assert(vc::is_canonical(&g) && vc::eq_window(vc::digits(&g), &[0, gcd_small(x, y) << k]), "VERIF Stein gcd loses the common power of two across a digit boundary");
        }
    };
}
gcd_low_zero_shape!(c13_t_gcd_low_zero_2bit, 2, 3, 8);
gcd_low_zero_shape!(c13_t_gcd_low_zero_3bit, 3, 7, 10);
// is_multiple_of with a zero left operand: zero is a multiple of everything (the division early-exits on a zero dividend)
macro_rules! zero_multiple_shape {
    ($name:ident, $l:expr) => {
        #[kani::proof]
        #[kani::unwind(34)]
        fn $name() {
            let d0: [u64; $l] = vc::any_canon::<$l>();
            let d = vc::mk_from(&d0);
            kani::assert(BigUint::ZERO.is_multiple_of(&d), "VERIF 0.is_multiple_of(d) is false");
        }
    };
}
zero_multiple_shape!(c13_q_zero_multiple_1, 1);
zero_multiple_shape!(c13_q_zero_multiple_2, 2);
