"""Per-property configuration of the checks (which harness files are injected where, Kani batches,
SMT engines, stated bounds, trusted base)."""

COMMON_TRUSTED = [
    "Kani 0.68.0 / CBMC 6.11.0 / CaDiCaL: translation of the compiled MIR of the scratch copy and the SAT verdict",
    "rustc nightly pinned by Kani (dev-profile semantics: debug assertions and overflow checks ON)",
]
COMMON_ASSUMPTIONS = [
    "operand lengths and signs are concrete per query; only the shapes enumerated in `bounds` are covered",
    "harness modules are injected into a scratch copy of /repo's working tree (no source hooks in /repo)",
]
STUBS_ADDSUB = [
    "stub: core::arch::x86_64::_addcarry_u64/_subborrow_u64 -> Intel SDM semantics (harness/common.rs)",
    "stub: schoolbook_{add,sub}_assign_x86_64 (inline asm) -> model_add/model_sub; the asm text itself is decided by the asm->SMT engine (C01/C15)",
]

PROPS = {}

PROPS["C01"] = dict(
    inject=[
        ("src/biguint/addition.rs", "c01/biguint_addition.rs"),
        ("src/biguint/subtraction.rs", "c01/biguint_subtraction.rs"),
        ("src/bigint/addition.rs", "c01/bigint_addsub.rs"),
    ],
    kani=[dict(filter_q="c01_q_", filter_t=["c01_q_", "c01_t_"], jobs=14, timeout_q=150, timeout_t=900)],
    engines=[dict(module="asmsym", func="run_addsub")],
    functions=["schoolbook_add_assign_x86_64 (asm text)", "schoolbook_sub_assign_x86_64 (asm text)", "biguint::addition::__add2", "AddAssign<&BigUint>", "Add<&BigUint> for &BigUint", "Add<BigUint> for BigUint",
               "CheckedAdd"],
    bounds_quick="__add2: 14 shapes up to 11x11 digits; BigUint += / + forms: shapes up to 3x3 plus asm-reaching 5x5,5x6,6x5; all digit contents symbolic",
    bounds_thorough="__add2: all 78 shapes lb<=la<=11; Vec-level forms: all shapes <=4x4 plus {5,6,10,11} mixes; all digit contents symbolic",
    outside="operands longer than 11 digits (kernels) / 6 digits (Vec-level forms)",
    trusted=STUBS_ADDSUB,
    level_text="bounded model checking: for every enumerated operand shape (lengths, signs) the solver decides the exactness "
               "assertion for ALL digit contents, including every carry/borrow chain of that shape; the asm loops are decided "
               "separately by an inductive-step + bounded SMT encoding of the asm text",
    level_note="bounded by operand length (kernels <= 11 digits, Vec/BigInt forms <= 6); trusted: Kani/CBMC, the ADC/SBB intrinsic "
               "models, the x86 ISA model of the asm engine, rustc honouring asm operand classes",
    technique="Kani/CBMC bounded model checking of injected unit harnesses + SMT (z3) symbolic execution of the inline asm",
    explanation="A green run means: for the listed shapes, every digit content satisfies the exact-sum/difference assertion, "
                "a<b panics, checked_sub is None exactly then. Nothing is implied for longer operands beyond the inductive asm step.",
)

PROPS["C03"] = dict(
    inject=[
        ("src/bigint.rs", "c03/bigint.rs"), ("src/biguint/division.rs", "c03/biguint_division.rs"), ("src/biguint/shift.rs", "c07/biguint_shift.rs"),
    ],
    kani=[dict(filter_q="c03_q_", filter_t=["c03_q_", "c03_t_"], jobs=14, timeout_q=240, timeout_t=900)],
    engines=[dict(module="asmsym", func="run_div"), dict(module="mirsmt", func="run_div_guard")],
    functions=["BigInt::{div_rem,/,%,div_floor,mod_floor,div_mod_floor,div_ceil,div_euclid,rem_euclid,div_rem_euclid,checked_*}",
               "biguint::division::{div_rem, div_rem_ref} (pre-checks, normalisation shift, de-normalisation)", "div_rem_core + sub_mul_digit_same_len + __add2 (real code, pinned divisors; div_wide under its exact product contract)", "div_rem_digit, rem_digit", "div_wide (asm binding + fault condition)"],
    bounds_quick="sign conventions: 10 APIs x 4 sign pairs x shapes (|a|,|b|,|q|,|r|) in {(1,1,1,1),(1,1,1,0),(1,1,0,1),(2,1,2,1)} digits + zero dividend, and ALL 18 API forms at (1,1,1,1) x 4 sign pairs; zero-divisor set on 0..2-digit dividends; "
                 "the REAL Knuth-D core on 3-digit dividends by four pinned 2-digit normalised divisors (all dividends for the sparsest one; dividends whose top digit equals b0 - the class that reaches the saturated-estimate branch - for the others): r < b and q*b + r = a",
    bounds_thorough="18 API forms x 4 sign pairs x 12 shapes up to 2x2 digits",
    outside="value correctness of the Knuth-D core (div_rem_core) for SYMBOLIC divisors and beyond 3x2 digits - replaced by its contract in the wrapper queries (with a symbolic divisor every product is symbolic x symbolic; with arbitrary 3-digit dividends even a pinned divisor is a "
            "divider-verification problem that did not finish in 240 s: thorough-tier attempts); operands > 2 digits at the BigInt layer",
    trusted=STUBS_ADDSUB + ["contract stub: biguint::division::div_rem_ref -> arbitrary canonical (q,r), r<d, |a| = P + r with abstract product P (P=0 iff q=0)",
                            "contract stub: div_rem_core -> arbitrary canonical (q,r), r<b, a = P + r, P multiple of 2^shift; its preconditions asserted at the call",
                            "contract stub: div_wide -> arbitrary (q,r), r<d, q=0 iff numerator<d; precondition hi<d asserted (the #DE condition); asm operand binding decided by the asm engine",
                            "fixed-word stand-ins for biguint_shl/biguint_shr (real kernels entered with word shift 0; decomposition decided under C07)"],
)

PROPS["C05"] = dict(
    inject=[
        ("src/bigint.rs", "c05/bigint.rs"), ("src/biguint/power.rs", "c12/power.rs"),
    ],
    kani=[dict(filter_q=["c05_q_", "c12_q_plain_modpow", "c12_q_modpow_"], filter_t=["c05_q_", "c05_t_", "c12_q_plain_modpow", "c12_t_plain_modpow", "c12_q_modpow_"], jobs=14, timeout_q=300, timeout_t=1200)],
    engines=[dict(module="mirsmt", func="run_monty")],
    functions=["BigInt::modinv", "bigint::power::modpow", "biguint::power::modpow (parity dispatch, zero modulus)", "plain_modpow (schedule by exponent tally)",
               "monty: add_ww, mul_add_www (MIR->SMT, full width), inv_mod_alt (MIR->SMT at digit widths 8 and 16)"],
    bounds_quick="BigInt modinv/modpow sign placement: 4 sign pairs x operand shapes up to 2 digits x result lengths 0..2; panics; parity dispatch; plain_modpow schedule for all single-digit exponents < 2^6 (2^12 thorough); Montgomery word kernels from their MIR",
    outside="Montgomery CIOS values, final-subtraction count, multi-digit exponent schedules, extended Euclid beyond narrow values",
    trusted=STUBS_ADDSUB + ["contract stub: BigUint::modinv -> None | Some(x), x < |m| canonical, x = 0 only if |m| = 1",
                            "contract stub: BigUint::modpow -> canonical x < |m| (panics on zero modulus)"],
)

PROPS["C19"] = dict(
    inject=[("src/bigint.rs", "c19/bigint.rs")],
    kani=[dict(filter_q="c19_q_", filter_t=["c19_q_", "c19_t_"], jobs=14, timeout_q=200, timeout_t=900)],
    functions=["Neg", "Signed::{abs,abs_sub,signum,is_positive,is_negative}", "sign", "magnitude", "into_parts", "from_biguint",
               "to_biguint", "ToBigInt/ToBigUint/TryFrom", "Zero/One", "Neg/Mul for Sign"],
    bounds_quick="magnitudes of 0..2 digits (3 in thorough), all three signs, every digit symbolic; Sign rules exhaustive",
    outside="magnitudes longer than 3 digits",
    trusted=STUBS_ADDSUB,
)

PROPS["C07"] = dict(
    engines=[dict(module="mirsmt", func="run_bits")],
    inject=[("src/bigint/bits.rs", "c07/bigint_bits.rs"), ("src/biguint/shift.rs", "c07/biguint_shift.rs"),
            ("src/bigint/shift.rs", "c07/bigint_shift.rs"), ("src/bigint.rs", "c07/bit_queries.rs"),
            ("src/biguint/bits.rs", "c07/biguint_bits.rs")],
    kani=[dict(filter_q="c07_q_", filter_t=["c07_q_", "c07_t_"], jobs=14, timeout_q=200, timeout_t=900)],
    functions=["BitAnd/BitOr/BitXor(+Assign) for BigInt (bitand_pos_neg, ... bitxor_neg_neg, negate_carry)", "Not for BigInt",
               "BitAnd/BitOr/BitXor for BigUint", "biguint_shl/shl2/shr/shr2", "Shl/Shr/ShrAssign for BigInt, shr_round_down",
               "bit/set_bit/bits/trailing_zeros/trailing_ones/count_ones", "BigInt::bit/set_bit (set_negative_bit)"],
    bounds_quick="& | ^: nine sign pairs x shapes {1,2}x{1,2} digits (3x3 thorough) x {ref-ref, assign} forms; ! on 0..2 digits; shifts: values 0..3 digits, "
                 "word shift concrete 0..3, bit shift symbolic 0..63; amount decomposition for all 12 shift types over the whole type; bit queries 0..2 digits "
                 "with a symbolic index; set_bit at concrete indices {0,1,63,64,65,127,128,...} on symbolic values; every digit symbolic; "
                 "the three FORMS of a BigInt right shift (x >> k, &x >> k, x >>= k) with the unsigned shift under a contract (arbitrary canonical result of 0..2 digits): rounding adjustment, sign of a zero result, their order",
    outside="operands longer than 3 digits; the by-value / assign forms of BigInt << (one-line wrappers over the unsigned shift, only &x << k is queried)",
    trusted=STUBS_ADDSUB + ["stub: Vec::shrink_to_fit -> no-op (capacity is unobservable)", "contract stub (shift-forms harnesses): Shr<u32>/ShrAssign<u32> for BigUint -> one arbitrary canonical value"],
)

PROPS["C08"] = dict(
    inject=[("src/bigint/convert.rs", "c08/convert.rs"), ("src/biguint/convert.rs", "c08/floats.rs"),
            ("src/biguint/shift.rs", "c07/biguint_shift.rs"), ("src/bigint.rs", "c19/bigint.rs")],
    kani=[dict(filter_q=["c08_q_", "c19_q_unary"], filter_t=["c08_q_", "c08_t_", "c19_q_unary", "c19_t_unary"], jobs=14, timeout_q=200, timeout_t=900)],
    functions=["BigInt <-> BigUint: From<BigUint> for BigInt, TryFrom<&BigInt>/<BigInt> for BigUint (Err carries the original back), to_biguint/to_bigint (C19's unary harnesses re-run here)",
               "ToPrimitive for BigInt/BigUint (to_i8..to_u128,to_isize,to_usize)", "TryFrom<&BigInt>/<BigInt>/<&BigUint>/<BigUint> for 12 primitive types",
               "From<prim> for BigInt/BigUint", "FromPrimitive", "ToBigInt/ToBigUint for primitives", "TryFrom<signed> for BigUint",
               "high_bits_to_u64", "ToPrimitive::to_f64/to_f32 for BigUint"],
    bounds_quick="BigInt <-> BigUint on 0..2-digit values of every sign; big -> primitive: values of 0..3 digits, both signs, every digit symbolic (covers every MIN/MAX+-k edge of all 12 types); primitive -> big: every value of each type",
    bounds_thorough="as quick plus all 12 types at all lengths 0..3; to_f64 explicit-IEEE oracle at 2,3,5,16,17 digits; from_f64/from_f32 harnesses are ATTEMPTED (reported undecided when the cap is hit)",
    outside="from_f64/from_f32 (float trunc + integer_decode + by-value shift does not finish under CBMC within the cap: measured 140 s then solver resource error) - only attempted in the thorough tier; to_f32 beyond 2 digits; to_f64 at lengths other than those listed",
    trusted=["stub: f64::powi/f32::powi(2.0, e) -> exact power of two by bit pattern (CBMC's __builtin_powi model is inexact); asserted to be used only on base 2.0, 0 <= e <= MAX_EXP",
             "CBMC's IEEE-754 int->float conversion and float multiply (to_float_* harnesses); the to_f64_bits_* harnesses avoid the cast by building the expected bit pattern explicitly",
             "stub: Vec::shrink_to_fit -> no-op"],
)

PROPS["C09"] = dict(
    inject=[("src/bigint/convert.rs", "c09/bytes.rs"), ("src/biguint/iter.rs", "c09/iter.rs")],
    kani=[dict(filter_q="c09_q_", filter_t=["c09_q_", "c09_t_"], jobs=14, timeout_q=240, timeout_t=900)],
    functions=["to_bytes_le/be", "from_bytes_le/be", "to_signed_bytes_le/be", "from_signed_bytes_le/be", "twos_complement", "BigUint::new/from_slice/assign_from_slice",
               "BigInt::new/from_slice/assign_from_slice x {Plus, Minus, NoSign}", "BigInt::from_bytes_le/be x {Plus, Minus, NoSign}", "to_u32_digits/to_u64_digits", "U32Digits/U64Digits: next,next_back,len,size_hint,count,last,nth"],
    bounds_quick="to_bytes: values of 0..2 digits; from_bytes/from_signed_bytes: every byte string of length {0,1,7,8,9,16,17} (0..17 thorough); to_signed_bytes: "
                 "magnitudes of byte length {1,2,8,9} (+3,16 thorough), both signs, both byte orders, shortest-encoding assertion; u32 import: 0..5 words (0..7 thorough); "
                 "iterators: any interleaving of up to 7 front/back pulls on values of 0..3 digits followed by one of count/last/nth; all contents symbolic",
    outside="longer inputs/values",
    trusted=["stub: Vec::with_capacity -> empty growing vector (hint unobservable; only where the caller fills by push) / capacity-64 variant where std's collect() is on the path",
             "contract stub (to_signed_bytes harnesses only): BigUint::to_bytes_le/be -> NB arbitrary bytes with non-zero top byte (the real functions are decided by c09_*_to_bytes_*)",
             "stub: Vec::shrink_to_fit -> no-op"],
)

PROPS["C04"] = dict(
    # canonical-after-operation is asserted by the harnesses of the operations themselves (check_int / is_canonical on every result):
    # the in-place mutators most relevant to C04 are re-run here from the files of C01, C07 and C19 (same queries, same names)
    inject=[("src/bigint.rs", "c04/canon.rs"), ("src/bigint.rs", "c07/bit_queries.rs"), ("src/bigint/bits.rs", "c07/bigint_bits.rs"),
            ("src/biguint/shift.rs", "c07/biguint_shift.rs"), ("src/bigint/shift.rs", "c07/bigint_shift.rs"),
            ("src/biguint/subtraction.rs", "c01/biguint_subtraction.rs"), ("src/bigint.rs", "c19/bigint.rs")],
    kani=[dict(filter_q=["c04_q_", "c07_q_iset_bit", "c07_q_uset_bit", "c07_q_and_as", "c07_q_or_as", "c07_q_xor_as", "c07_q_intshr", "c01_q_subassign", "c19_q_from_biguint"],
               filter_t=["c04_q_", "c04_t_", "c07_q_iset_bit", "c07_t_iset_bit", "c07_q_uset_bit", "c07_t_uset_bit", "c07_q_and_", "c07_q_or_", "c07_q_xor_", "c07_q_intsh", "c07_t_intsh",
                         "c01_q_subassign", "c01_t_subassign", "c19_q_from_biguint", "c19_q_unary"],
               jobs=14, timeout_q=240, timeout_t=900)],
    functions=["PartialEq/Ord/PartialOrd/Hash for BigUint and BigInt (cmp_slice)", "normalize/normalized/biguint_from_vec", "IntDigits::normalize for BigInt",
               "Clone::clone_from"],
    bounds_quick="comparison/hash: canonical operands of 0..3 digits (all sign pairs for BigInt); normalisation: raw vectors of 0..6 digits with arbitrary trailing zeros and "
                 "spare capacity; clone_from on 0..3-digit values; a recording Hasher compares the complete hash streams",
    outside="longer values; multi-step in-place histories are NOT explored as sequences (a two-step += / -= history on one buffer did not finish in 240 s: "
            "the intermediate length is symbolic) - they are covered by the inductive argument 'every mutator returns a canonical value' whose per-operation "
            "canonical-result assertions live in the C01, C03, C05, C07, C08, C09, C19 harnesses (check_int / is_canonical on every result)",
    trusted=STUBS_ADDSUB + ["stub: Vec::shrink_to_fit -> no-op"],
)

PROPS["C17"] = dict(
    inject=[("src/bigint/serde.rs", "c17/serde.rs")],
    kani=[dict(filter_q="c17_q_", filter_t=["c17_q_", "c17_t_"], jobs=14, timeout_q=240, timeout_t=900, features="serde", tgt="serde")],
    functions=["Serialize for BigUint/BigInt/Sign", "Deserialize for BigUint (U32Visitor::visit_seq, cautious)", "Deserialize for BigInt/Sign"],
    bounds_quick="serialise: values of 0..2 digits (3 thorough), both signs, through a recording Serializer (declared length, every element, tuple arity); "
                 "deserialise: every u32 sequence of length 0..4 (0..6 thorough) with size hints {none, exact, too small, usize::MAX}; BigInt pairs with EVERY i8 sign byte",
    outside="third-party Serializer/Deserializer implementations (serde's own contract is trusted); longer sequences",
    trusted=["serde's de::value deserializers (U32Deserializer, I8Deserializer, SeqDeserializer) used to feed tokens", "stub: Vec::with_capacity -> empty growing vector; Vec::shrink_to_fit -> no-op"],
)

PROPS["C18"] = dict(
    inject=[("src/bigrand.rs", "c18/rand.rs")],
    kani=[dict(filter_q="c18_q_", filter_t=["c18_q_", "c18_t_"], jobs=14, timeout_q=240, timeout_t=900, features="rand", tgt="rand")],
    functions=["gen_bits", "RandBigInt::{gen_biguint,gen_bigint,gen_biguint_below,gen_biguint_range,gen_bigint_range}", "UniformBigUint/UniformBigInt::{new,new_inclusive,sample,sample_single}", "RandomBits"],
    bounds_quick="symbolic RNG (every 32-bit word unconstrained, recorded in a ghost list); gen_biguint for bit sizes {0,1,32,33,64,65,97,128,130} (16 sizes thorough) incl. the value-stability "
                 "clause; gen_bigint {0,1,64,65} with <= 2 redraws; gen_biguint_below for bounds of bit length {1,5,64,65} with <= 2 rejected candidates (first-candidate clause); "
                 "range samplers (gen_*_range, Uniform*::new/sample/sample_single) on 0..2-digit bounds with gen_biguint_below under its contract: result = low + candidate and inside the range; "
                 "empty/inverted ranges and zero bound panic; new_inclusive only ATTEMPTED in the thorough tier (high + 1 by value does not finish)",
    outside="rejection chains longer than 2 (the loop is memoryless: one iteration from an arbitrary RNG state is the inductive step - an argument, not a verdict); range widths other than the pinned bit lengths; uniformity itself",
    trusted=STUBS_ADDSUB + ["case-split stub: BigUint::bits pinned to the query's concrete bit length K under assume(real bits == K)",
                            "contract stub (range harnesses): RandBigInt::gen_biguint_below -> arbitrary canonical value below the bound (the real function is decided by c18_*_below_*)", "stub: Vec::shrink_to_fit -> no-op"],
)

PROPS["C06"] = dict(
    inject=[("src/bigint/convert.rs", "c06/parse.rs"), ("src/biguint/convert.rs", "c06/radix.rs"), ("src/bigint.rs", "c06/fmt.rs"), ("src/biguint/convert.rs", "c15/utf8.rs")],
    kani=[dict(filter_q=["c06_q_", "c15_q_ascii_mapping"], filter_t=["c06_q_", "c06_t_", "c15_q_ascii_mapping", "c15_t_ascii"], jobs=14, timeout_q=240, timeout_t=1800)],
    functions=["BigInt::from_str_radix SIGN LAYER (text handed to the unsigned parser, sign of the result)", "BigUint::from_str_radix TEXT LAYER (sign stripping, underscore rules, digit mapping, error kind, choice of back end; back ends under recorders)", "Display/Binary/Octal/LowerHex/UpperHex for BigInt (arguments handed to Formatter::pad_integral)", "from_radix_be/from_radix_le (validation, empty input, value)", "from_radix_digits_be (single chunk)", "from_bitwise_digits_le / from_inexact_bitwise_digits_le",
               "to_radix_le -> to_bitwise_digits_le / to_inexact_bitwise_digits_le", "get_radix_base / get_half_radix_base tables (all 247 radices)", "radix range assertions of from_str_radix, from_radix_*, to_str_radix",
               "to_str_radix (BigUint/BigInt wrappers: reversal, '-' sign) and to_str_radix_reversed (digit -> ASCII mapping for all radices) with the digit production under a recorder/contract"],
    bounds_quick="digit-vector input: every digit string of length 0..3 for radices {10,16,256,3,255,8} incl. digits >= radix (None) and both byte orders; single-chunk Horner for 3/5/2 digits of radix 10/36/255; "
                 "power-of-two radices 2,8,16,32,64,256 (more thorough): output digits = bit groups of every 1..2-digit value, input of 9..22 digits and, across a word boundary on which a digit ENDS, 33 digits of radix 64 and 65 digits of radix 8; "
                 "the compiled radix tables for ALL radices 3..255; out-of-range radices panic; "
                 "text layer of BigUint::from_str_radix: EVERY ASCII string of length 0..3 for radices 10 (lengths 0..3), 16, 8, 36, 2 (length 3): accepted iff [+]? D (D|_)*, Empty vs InvalidDigit, and the digit vector / back end / argument handed on",
    outside="END-TO-END text parsing (text layer AND value in one query) is not decided: with the real back ends even one symbolic byte exceeds 240 s (thorough-tier attempts are kept and reported undecided); the value comes from the digit-vector queries, "
            "the composition is by the recorded interface (BigInt::from_str_radix's '-' handling likewise: c06_q_int_sign_* with the unsigned parser under a recorder, all ASCII strings of length 0..3); FromStr / parse_bytes wrappers only in those thorough-tier attempts; strings longer than 3 (4: thorough); non-ASCII input; "
            "multi-chunk Horner input (>= 2 chunk-base multiplications): thorough-tier only, with the head digit and first chunk pinned (1447 s); to_str_radix / Display text for non-power-of-two radices (64-bit divisions by the radix: thorough-tier attempts on <= 16-bit values under C15); the chunked Horner path with more than one chunk and the "
            ">= 64-digit big-base output path; the formatter flag handling (core's pad_integral, trusted)",
    trusted=["stub: Vec::with_capacity -> empty growing vector; Vec::shrink_to_fit -> no-op"],
    level_text="bounded model checking of the digit-vector conversions, the radix tables and the text layer of from_str_radix (back ends under recorders); stated bounds",
)

PROPS["C12"] = dict(
    inject=[("src/biguint/power.rs", "c12/power.rs"), ("src/bigint/power.rs", "c12/bigint_power.rs")],
    kani=[dict(filter_q="c12_q_", filter_t=["c12_q_", "c12_t_"], jobs=14, timeout_q=300, timeout_t=1200)],
    functions=["Pow<u8..u128,usize> for BigUint (pow_impl!)", "Pow<&BigUint> for BigUint", "power::modpow dispatch", "plain_modpow"],
    bounds_quick="exponent-tally homomorphism: ALL exponents 1..255 (u8) and 1..1023 (u16,u32,u64,usize,u128), powers of two 2^40; exponent 0 for every type; BigUint exponents of 0..3 digits with bases 0, 1, >=2; plain_modpow for all single-digit exponents < 2^8",
    bounds_thorough="as quick plus exponents < 2^12, powers of two up to the type width, plain_modpow < 2^12",
    outside="exactness of the multiplications themselves (C02's claim: C12 = schedule o C02); exponents >= 2^12 other than powers of two; multi-digit exponents of plain_modpow (64 heap-allocating steps per digit do not finish)",
    trusted=["homomorphism stubs: <&BigUint as Mul<&BigUint>>::mul and MulAssign<&BigUint> -> tally addition; Rem/RemAssign -> identity (plain_modpow harnesses)"],
)

PROPS["C02"] = dict(
    inject=[("src/biguint/multiplication.rs", "c02/multiplication.rs"), ("src/bigint/multiplication.rs", "c02/bigint_mul.rs")],
    kani=[dict(filter_q="c02_q_", filter_t=["c02_q_", "c02_t_"], jobs=14, timeout_q=300, timeout_t=1200)],
    engines=[dict(module="mirsmt", func="run_mul")],
    functions=["mac_with_carry, mul_with_carry (MIR->SMT, full width)", "mac_digit", "mac3 (long-multiplication regime, zero-stripping prologue)", "mul3", "scalar_mul",
               "impl_mul!/impl_mul_assign! dispatch", "sub_sign"],
    bounds_quick="word kernels at the full 64-bit width (z3 on the MIR); mac_digit rows of 1..2 digits, long multiplication 1x1..2x2 (2x3, 3x3 thorough), scalar_mul 0..2 digits, "
                 "dispatch for all zero/single/multi-digit operand classes and value/reference forms, sub_sign up to 3x2 - all with the digit products abstracted by an uninterpreted table",
    outside="EXACTNESS OF THE KARATSUBA, HALF-KARATSUBA AND TOOM-3 BRANCHES (operands > 32 / > 256 digits; ring reasoning over 64-bit products does not finish even at rescaled thresholds) - a change confined "
            "to those branches is NOT detected by this check; long multiplication beyond 3x3 digits",
    trusted=STUBS_ADDSUB + ["contract stub: mac_with_carry/mul_with_carry -> (lo, carry) split of a + P + acc with P an uninterpreted product (P <= (2^64-1)^2, 0*x = 0, 1*x = x); "
                            "discharged against the real kernels by the MIR->SMT obligations of the same run", "stub: Vec::shrink_to_fit -> no-op"],
    level_text="bounded model checking of the carry/index/dispatch logic of multiplication with products abstracted, plus SMT proofs of the 64-bit word kernels from their MIR; "
               "the sub-quadratic algorithms are explicitly outside the claim",
)

PROPS["C13"] = dict(
    inject=[("src/bigint.rs", "c13/helpers.rs"), ("src/biguint.rs", "c13/gcd.rs"), ("src/biguint/shift.rs", "c07/biguint_shift.rs")],
    kani=[dict(filter_q="c13_q_", filter_t=["c13_q_", "c13_t_"], jobs=14, timeout_q=300, timeout_t=1200)],
    functions=["Integer::{is_even,is_odd,inc,dec,is_multiple_of,gcd,lcm,gcd_lcm} for BigInt/BigUint", "Stein gcd (BigUint::gcd)"],
    bounds_quick="parity, inc/dec (through zero and across digit boundaries) on 0..2-digit values of both signs; gcd zero rules; BigInt gcd = gcd of magnitudes (unsigned gcd under contract), non-negative; "
                 "only-zero-is-a-multiple-of-zero; zero is a multiple of every 1..2-digit value; lcm(0,0), gcd_lcm(0,0); Stein gcd with the real code on pairs of 3..5-bit values, and on two-word operands whose low word is zero "
                 "(common power of two across a digit boundary), is a thorough-tier ATTEMPT only (did not finish in 15 min even on near-concrete operands: each loop round is a by-value shift, a comparison and a subtraction on heap values)",
    outside="gcd/lcm/Bezout VALUES on full-width operands; extended_gcd (num-integer's generic default over BigInt division) and next/prev_multiple_of are not decided here (their division layer is C03's claim)",
    trusted=STUBS_ADDSUB + ["contract stub (BigInt gcd harnesses): <BigUint as Integer>::gcd -> zero rules + arbitrary canonical g <= both operands", "fixed-word shift stand-ins (gcd harness)", "stub: Vec::shrink_to_fit -> no-op"],
)

PROPS["C10"] = dict(
    inject=[("src/bigint.rs", "c10/forms.rs"), ("src/bigint/division.rs", "c10/div_forms.rs")],
    kani=[dict(filter_q="c10_q_", filter_t=["c10_q_", "c10_t_"], jobs=14, timeout_q=300, timeout_t=1200)],
    functions=["Div/Rem/DivAssign/RemAssign<scalar> for BigInt and Div/Rem<BigInt> for scalar (forwarding layer with the unsigned division under recorders)", "impl_rem_assign_scalar! (scalar %= BigUint)",
               "forwarding macros of src/macros.rs as instantiated for Add/Sub: promote_*_scalars, forward_all_scalar_binop_*, forward_*_assign; Add/Sub<u32|u64|u128|i32|i64|i128> for BigUint/BigInt; Sum/Product"],
    bounds_quick="+ and -: {BigUint x unsigned scalars u8,u64,u128; BigInt x u8,u64,u128,i8,i64,i128} x forms {big op s, s op &big, op-assign, &big op &s} x big operand of 1..2 digits; "
                 "the scalar ranges over its WHOLE type (MIN, -1, 0, MAX are inside every query); all 12 scalar types and all 9 forms in the thorough tier",
    outside="* and pow scalar forms (the one-digit/two-digit scalar multiplier dispatch is under C02); & | ^ have no scalar forms; shifts by every scalar type are C07's amount harnesses; big operands > 3 digits; "
            "scalar-on-the-left division with a multi-digit big operand",
    trusted=STUBS_ADDSUB + ["stub: Vec::shrink_to_fit -> no-op"],
)


PROPS["C15"] = dict(
    inject=[("src/biguint/addition.rs", "c01/biguint_addition.rs"), ("src/biguint/subtraction.rs", "c01/biguint_subtraction.rs"),
            ("src/biguint/division.rs", "c03/biguint_division.rs"), ("src/biguint/shift.rs", "c07/biguint_shift.rs"),
            ("src/biguint/convert.rs", "c15/utf8.rs"), ("src/bigrand.rs", "c18/rand.rs")],
    kani=[dict(filter_q=["c01_q_add2_", "c01_q_sub2_ge", "c01_q_addassign_", "c01_q_subassign_", "c01_q_subrefval_", "c03_q_digit_", "c03_q_single", "c15_q_"],
               filter_t=["c01_q_add2_", "c01_t_add2_", "c01_q_sub2_ge", "c01_t_sub2_ge", "c01_q_addassign_", "c01_t_addassign_", "c01_q_subassign_", "c01_q_subrefval_", "c03_q_digit_", "c03_t_digit_", "c03_q_single", "c15_q_", "c15_t_"],
               jobs=14, timeout_q=240, timeout_t=900),
          dict(filter_q=["c18_q_gen_biguint"], filter_t=["c18_q_gen_biguint", "c18_t_gen_biguint"], jobs=14, timeout_q=240, timeout_t=900, features="rand", tgt="rand")],
    engines=[dict(module="asmsym", func="run"), dict(module="mirsmt", func="run_div_guard")],
    functions=["schoolbook_add_assign_x86_64 / schoolbook_sub_assign_x86_64 (asm text: address sets, no store to rhs)", "div_wide (asm binding, #DE condition) and its callers",
               "__add2 / sub2 / AddAssign / SubAssign caller-side slicing under CBMC pointer checks (exact-fit allocations)", "to_str_radix_reversed -> String::from_utf8_unchecked", "gen_biguint (u64 buffer viewed as u32 words)"],
    bounds_quick="asm loops: inductive address-set obligation for any block count + bounded runs of 1..3 blocks (6 thorough); callers: the C01 kernel/Vec shapes up to 11 digits with CBMC's pointer, bounds and "
                 "alignment checks on (the asm is replaced by raw-pointer models touching exactly the proven address set); div_wide precondition at every call of the single-digit loops (1..3 digits); "
                 "gen_biguint's reinterpreting slice for 9 bit sizes; ASCII-only output: the digit -> byte mapping of to_str_radix_reversed for EVERY radix 2..=36 and every digit value below the radix "
                 "(digit production to_radix_le under contract: digits < radix, which the C06 digit-vector harnesses decide for power-of-two radices); end-to-end ASCII harnesses on <= 16-bit values are thorough-tier ATTEMPTS (> 12 min each)",
    outside="what the register allocator does with an `in(reg)` operand that the template decrements (advisory lint, not a verdict); to_str_radix bytes for values above 8 bits (the digit loop is 64 divisions by a symbolic radix); "
            "div_wide calls inside the Knuth-D core (guarded by `a0 < b0` - by reading, not by the solver)",
    trusted=STUBS_ADDSUB + ["x86 ISA model of the asm engine (mov/adc/sbb/inc/dec/jnz/setc/clc/div); Rust-level disjointness of the &mut and & operand slices", "contract stub: div_wide (precondition asserted)",
                            "stub: Vec::with_capacity -> empty growing vector (utf8 harness)"],
    level_text="SMT symbolic execution of the asm text (address sets for any number of blocks) + bounded model checking of every caller with pointer checks; stated bounds",
    technique="SMT (z3) symbolic execution of the inline asm + Kani/CBMC pointer-checked bounded model checking of the callers",
)

PROPS["C14"] = dict(
    inject=[("src/biguint/subtraction.rs", "c01/biguint_subtraction.rs"), ("src/bigint.rs", "c03/bigint.rs"), ("src/biguint/division.rs", "c03/biguint_division.rs"),
            ("src/biguint/shift.rs", "c07/biguint_shift.rs"), ("src/bigint.rs", "c05/bigint.rs"), ("src/bigint/convert.rs", "c06/parse.rs"),
            ("src/biguint/power.rs", "c12/power.rs"), ("src/bigint.rs", "c13/helpers.rs"), ("src/bigint.rs", "c14/panics.rs"), ("src/bigrand.rs", "c18/rand.rs")],
    kani=[dict(filter_q=["c01_q_sub2_lt_", "c01_q_subassign_lt", "c01_q_subrefval_lt", "c01_q_checked_sub", "c03_q_zero_", "c03_q_digit_zero", "c05_q_modpow_zero", "c05_q_modpow_neg", "c05_q_modinv_zero",
                         "c06_q_radix_range", "c07_q_shl_neg", "c07_q_shr_neg", "c12_q_pow_big_overflow", "c12_q_modpow_zero", "c13_q_biguint_dec_zero", "c14_q_"],
               filter_t=["_mp", "checked", "c14_"], jobs=14, timeout_q=240, timeout_t=900),
          dict(filter_q=["c18_q_below_zero", "c18_q_urange_empty"], filter_t=["c18_q_below_zero", "c18_q_urange_empty"], jobs=14, timeout_q=240, timeout_t=900, features="rand", tgt="rand")],
    functions=["documented panic set: division/remainder by zero (all BigInt/BigUint forms), BigUint subtraction below zero, negative shift amount, radix out of range, zero modulus, negative modpow exponent, "
               "even root of a negative, zeroth root, empty/inverted random range, zero bound", "checked_add/sub/mul/div, CheckedEuclid::*",
               "BigInt +=, -=, +, scalar - BigInt with the signed scalar at its MINIMUM (i8..i128, isize): no overflow panic in the negation, exact result"],
    bounds_quick="one must-panic query per documented case over arbitrary operands of 0..2 digits (every path must panic: the marker after the call is unreachable) and one never-panics/None-exactly query per checked_* method; one query per signed scalar type with the scalar at MIN against every one-digit BigInt of either sign (4 operator forms); "
                 "in addition EVERY harness of every other property runs with Kani's panic, overflow (dev-profile), bounds, unwrap and unwinding checks on, so it doubles as a 'does not fail outside the documented set' query for its operation and shape",
    outside="internal assertions whose truth depends on the algebraic cores (Karatsuba carry asserts, Knuth-D debug_assert!(borrow == a0), Newton iteration termination); operands beyond the stated shapes",
    trusted=STUBS_ADDSUB + ["contract stubs as listed under C03, C05, C12, C13; root models: <BigUint as Roots>::{nth_root,sqrt,cbrt} -> arbitrary canonical value (panics on n = 0)"],
)
