#!/usr/bin/env python3
"""Engine B: x86-64 inline-asm -> SMT (z3), for the three asm! blocks of num-bigint.

The asm!(...) text is parsed out of the CURRENT source of the scratch copy on every run
(template lines, operand bindings, Rust prologue/epilogue patterns), executed symbolically
over z3 bit-vectors with a small ISA model, and the obligations B1..B5 of DESIGN.md are discharged.
Anything the parser or the ISA model does not recognise makes the obligation UNDECIDED.
"""
import re
import subprocess
import time
from pathlib import Path

import z3

W = 64


class Undecided(Exception):
    pass


def PROGRESS(name, status, secs):
    import os
    if os.environ.get("VERIF_VERBOSE"):
        print("   ..", name, status, round(secs, 2), flush=True)
    return None


# ------------------------------------------------------------------------------------------
# parsing
# ------------------------------------------------------------------------------------------
def extract_fn(src, name):
    """text of the 64-bit (cfg_64!/asm!-containing) definition of `name`"""
    out = []
    for m in re.finditer(r"fn\s+%s\s*\(" % re.escape(name), src):
        i = src.index("{", m.end())
        depth, j = 0, i
        while True:
            if src[j] == "{":
                depth += 1
            elif src[j] == "}":
                depth -= 1
                if depth == 0:
                    break
            j += 1
        body = src[m.start():j + 1]
        if "asm!" in body:
            out.append(body)
    if len(out) != 1:
        raise Undecided("expected exactly one asm!-containing definition of %s, found %d" % (name, len(out)))
    return out[0]


def split_top(s):
    """split on top-level commas"""
    parts, depth, cur, instr = [], 0, "", False
    i = 0
    while i < len(s):
        ch = s[i]
        if instr:
            cur += ch
            if ch == "\\":
                cur += s[i + 1]
                i += 1
            elif ch == '"':
                instr = False
        else:
            if ch == '"':
                instr = True
                cur += ch
            elif ch in "([{":
                depth += 1
                cur += ch
            elif ch in ")]}":
                depth -= 1
                cur += ch
            elif ch == "," and depth == 0:
                parts.append(cur.strip())
                cur = ""
            else:
                cur += ch
        i += 1
    if cur.strip():
        parts.append(cur.strip())
    return parts


def parse_asm(fn_text, macros=None):
    m = re.search(r"asm!\s*\(", fn_text)
    i = m.end()
    depth, j = 1, i
    while depth:
        if fn_text[j] == "(":
            depth += 1
        elif fn_text[j] == ")":
            depth -= 1
        j += 1
    inner = fn_text[i:j - 1]
    inner = re.sub(r"//[^\n]*", "", inner)
    template, operands, options = [], [], []
    for part in split_top(inner):
        if part.startswith('"'):
            template.append(part.strip('"'))
        elif re.match(r"\w+!\(\)", part):
            key = part[:part.index("!")]
            if not macros or key not in macros:
                raise Undecided("template macro %s! not resolvable" % key)
            template.append(macros[key])
        elif part.startswith("options"):
            options = [o.strip() for o in part[part.index("(") + 1:part.rindex(")")].split(",")]
        else:
            mm = re.match(r"(?:(\w+)\s*=\s*)?(in|out|inout|lateout|inlateout)\s*\(\s*(\"?\w+\"?)\s*\)\s*(.*)$", part, re.S)
            if not mm:
                raise Undecided("unrecognised asm operand: %r" % part)
            name, kind, cls, expr = mm.group(1), mm.group(2), mm.group(3), mm.group(4).strip()
            operands.append(dict(name=name, kind=kind, cls=cls.strip('"'), explicit=cls.startswith('"'), expr=expr))
    return template, operands, options


# ------------------------------------------------------------------------------------------
# ISA model (the instructions that occur; anything else => Undecided)
# ------------------------------------------------------------------------------------------
class State:
    """registers: z3 BV64 terms.  Registers that are only ever changed by inc/dec are additionally tracked as
    (symbolic start value, concrete delta) so that every memory cell touched has the syntactic form
    (base register, index register start value, concrete cell offset).  Memory is a dict over such cells:
    this builds in the Rust-level fact that the `&mut [u64]` behind {a} and the `&[u64]` behind {b} are disjoint
    objects (distinct bases never alias) - stated in the evidence."""

    def __init__(self, regs, cf):
        self.regs = dict(regs)
        self.delta = {r: 0 for r in regs}      # concrete inc/dec delta relative to the initial value
        self.dirty = set()                      # registers written by something other than inc/dec
        self.cf = cf
        self.zf = None
        self.mem0 = {}                          # cell -> initial symbolic value (created on first read)
        self.mem = {}                           # cell -> current value
        self.loads, self.stores = [], []
        self.written_regs = set()
        self.tag = "s"
        self.idx0_is_zero = False

    def cell(self, txt):
        m = MEM_RE.fullmatch(txt.strip())
        if m:
            base, scale, idx, disp = m.group(1), int(m.group(2)), m.group(3), int(m.group(4) or 0)
            if scale != 8 or disp % 8:
                raise Undecided("non 8-byte-cell access %r" % txt)
            if base in self.dirty or idx in self.dirty or self.delta[base] != 0:
                raise Undecided("address register modified by a non inc/dec instruction: %r" % txt)
            return (base, idx, self.delta[idx] + disp // 8)
        m = MEM0_RE.fullmatch(txt.strip())
        if m:
            # no index register: an absolute cell of the operand; only meaningful when the index register's start value is the concrete 0
            base, disp = m.group(1), int(m.group(2) or 0)
            if disp % 8 or base in self.dirty or self.delta[base] != 0:
                raise Undecided("non 8-byte-cell access %r" % txt)
            if not self.idx0_is_zero:
                raise Undecided("absolute operand access %r in a run whose index start value is symbolic" % txt)
            return (base, "idx", disp // 8)
        raise Undecided("addressing form not modelled: %r" % txt)

    def read(self, c):
        if c not in self.mem:
            v = z3.BitVec("m_%s_%s_%s%d_%s" % (c[0], c[1], "p" if c[2] >= 0 else "n", abs(c[2]), self.tag), W)
            self.mem0[c] = v
            self.mem[c] = v
        return self.mem[c]


MEM_RE = re.compile(r"qword ptr \[\{(\w+)\}\s*\+\s*(\d+)\*\{(\w+)\}(?:\s*\+\s*(\d+))?\]")
MEM0_RE = re.compile(r"qword ptr \[\{(\w+)\}(?:\s*\+\s*(\d+))?\]")
REG_RE = re.compile(r"\{(\w+)\}")


def reg_of(txt):
    m = REG_RE.fullmatch(txt.strip())
    if not m:
        raise Undecided("operand not a register placeholder: %r" % txt)
    return m.group(1)


def step(st, line):
    """execute one non-branch instruction"""
    line = line.strip()
    if line == "clc":
        st.cf = z3.BoolVal(False)
        return
    mn, _, rest = line.partition(" ")
    ops = [o.strip() for o in split_top(rest)]
    if mn == "mov":
        dst, src = ops
        if "ptr" in src and "ptr" not in dst:
            c = st.cell(src)
            st.loads.append(c)
            r = reg_of(dst)
            st.regs[r] = st.read(c)
            st.dirty.add(r)
            st.written_regs.add(r)
        elif "ptr" in dst and "ptr" not in src:
            c = st.cell(dst)
            st.read(c)
            st.stores.append(c)
            st.mem[c] = st.regs[reg_of(src)]
        else:
            raise Undecided("mov form not modelled: %r" % line)
    elif mn in ("adc", "sbb"):
        d, s = reg_of(ops[0]), reg_of(ops[1])
        x = z3.ZeroExt(1, st.regs[d])
        y = z3.ZeroExt(1, st.regs[s])
        c = z3.If(st.cf, z3.BitVecVal(1, W + 1), z3.BitVecVal(0, W + 1))
        r = x + y + c if mn == "adc" else x - y - c
        st.regs[d] = z3.Extract(W - 1, 0, r)
        st.cf = z3.Extract(W, W, r) == z3.BitVecVal(1, 1)
        st.zf = st.regs[d] == 0
        st.dirty.add(d)
        st.written_regs.add(d)
    elif mn in ("inc", "dec"):
        d = reg_of(ops[0])
        st.regs[d] = st.regs[d] + (1 if mn == "inc" else -1)   # CF unaffected (Intel SDM)
        st.delta[d] += 1 if mn == "inc" else -1
        st.zf = st.regs[d] == 0
        st.written_regs.add(d)
    elif mn == "setc":
        d = reg_of(ops[0])
        st.regs[d] = z3.If(st.cf, z3.BitVecVal(1, W), z3.BitVecVal(0, W))   # reg_byte: 0/1
        st.dirty.add(d)
        st.written_regs.add(d)
    else:
        raise Undecided("instruction not modelled: %r" % line)


def split_loop(template):
    """returns (pre, label, body, branch_line, post) for the single-loop shape `pre; L: body; jnz Lb; post`"""
    labels = [i for i, l in enumerate(template) if re.fullmatch(r"\d+:", l.strip())]
    jumps = [i for i, l in enumerate(template) if l.strip().startswith("j")]
    if len(labels) != 1 or len(jumps) != 1:
        raise Undecided("control flow is not a single backward loop")
    li, ji = labels[0], jumps[0]
    lab = template[li].strip()[:-1]
    if template[ji].strip() != "jnz %sb" % lab or ji < li:
        raise Undecided("branch form not modelled: %r" % template[ji])
    return template[:li], lab, template[li + 1:ji], template[ji], template[ji + 1:]


# ------------------------------------------------------------------------------------------
# solver helpers
# ------------------------------------------------------------------------------------------
LAST_MODEL = [None]


def prove(claim, assumptions=(), timeout_s=120):
    """valid? returns ('HOLDS'|'CEX'|'UNDECIDED', model_or_reason, seconds)"""
    s = z3.Solver()
    s.set("timeout", int(timeout_s * 1000))
    for a in assumptions:
        s.add(a)
    s.add(z3.Not(claim))
    t0 = time.time()
    r = s.check()
    dt = time.time() - t0
    if r == z3.unsat:
        return "HOLDS", None, dt
    if r == z3.sat:
        LAST_MODEL[0] = s.model()
        return "CEX", s.model(), dt
    return "UNDECIDED", s.reason_unknown(), dt


def cross_check_cvc5(claim, assumptions, timeout_s=120):
    s = z3.Solver()
    for a in assumptions:
        s.add(a)
    s.add(z3.Not(claim))
    smt = "(set-logic ALL)\n" + s.to_smt2()
    try:
        p = subprocess.run(["cvc5", "--lang", "smt2", "--tlimit", str(int(timeout_s * 1000))], input=smt, text=True,
                           capture_output=True, timeout=timeout_s + 10)
    except Exception as e:  # noqa
        return "UNDECIDED"
    out = p.stdout + p.stderr
    if "(error" in out:
        return "UNDECIDED"
    first = out.strip().splitlines()[0] if out.strip() else ""
    return {"unsat": "HOLDS", "sat": "CEX"}.get(first, "UNDECIDED")


# ------------------------------------------------------------------------------------------
# obligations for the add / sub loops
# ------------------------------------------------------------------------------------------
def chain(op, xs, ys, cf):
    """reference K-digit add-with-carry / sub-with-borrow chain in (W+1)-bit arithmetic"""
    outs = []
    c = z3.If(cf, z3.BitVecVal(1, W + 1), z3.BitVecVal(0, W + 1))
    for x, y in zip(xs, ys):
        xx, yy = z3.ZeroExt(1, x), z3.ZeroExt(1, y)
        r = xx + yy + c if op == "add" else xx - yy - c
        outs.append(z3.Extract(W - 1, 0, r))
        c = z3.ZeroExt(W, z3.Extract(W, W, r))
    return outs, c == 1


def check_loop_fn(path, fname, op, tier, results, use_cvc5):
    t_parse = time.time()
    src = Path(path).read_text()
    q = lambda name, status, detail="", secs=0.0, bound="": results.append(  # noqa: E731
        PROGRESS(name, status, secs) or dict(name="%s:%s" % (fname, name), engine="asm2smt", status=status, detail=detail, time_s=round(secs, 3),
             solver_s=round(secs, 3), bound=bound, props_total=1, _vectors=model_vectors(LAST_MODEL[0], op) if status == "CANDIDATE" else [],
             failed=[] if status != "CANDIDATE" else
             [dict(description=detail, category="asm", function=fname, location={"file": str(path)})]))
    try:
        fn = extract_fn(src, fname)
        template, operands, options = parse_asm(fn)
        # Rust prologue / epilogue patterns
        m = re.search(r"size\s*/=\s*(\d+)\s*;\s*if\s+size\s*==\s*0\s*\{\s*return\s*\(\s*false\s*,\s*0\s*\)\s*;\s*\}", fn)
        if not m:
            raise Undecided("prologue `size /= K; if size == 0 { return (false, 0) }` not found")
        K = int(m.group(1))
        if not re.search(r"let\s+mut\s+idx\s*=\s*0\s*;", fn) or not re.search(r"\(\s*c\s*>\s*0\s*,\s*idx\s*\)\s*\}\s*$", fn):
            raise Undecided("`let mut idx = 0` / `(c > 0, idx)` epilogue not found")
        byname = {o["name"]: o for o in operands}
        need = {"size": ("in", "size"), "a": ("in", "lhs"), "b": ("in", "rhs"), "idx": ("inout", "idx"), "c": ("lateout", "c")}
        for n, (kind, expr) in need.items():
            if n not in byname or byname[n]["kind"] != kind or byname[n]["expr"] != expr:
                raise Undecided("operand binding of {%s} is not `%s(..) %s`" % (n, kind, expr))
        pre, lab, body, br, post = split_loop(template)
        if not pre or pre[0].strip() != "clc":
            raise Undecided("loop preamble does not start with clc")
        simple_pre = [l.strip() for l in pre] == ["clc"]
        if not post or post[0].strip() != "setc {c}":
            raise Undecided("epilogue does not start with setc {c}")
    except Undecided as e:
        q("parse", "UNDECIDED", str(e))
        return
    q("parse", "HOLDS", "template %d lines, %d operands, block size K=%d" % (len(template), len(operands), K), time.time() - t_parse)

    regnames = [o["name"] for o in operands if o["name"]]

    def fresh_state(tag, concrete_size=None):
        regs = {n: z3.BitVec("%s_%s" % (n, tag), W) for n in regnames}
        if concrete_size is not None:
            regs["size"] = z3.BitVecVal(concrete_size, W)
        st = State(regs, z3.Bool("cf_" + tag))
        st.tag = tag
        return st

    verdict = {"HOLDS": "HOLDS", "CEX": "CANDIDATE", "UNDECIDED": "UNDECIDED"}

    # ---- B1: inductive step (one pass through the body from an arbitrary state at the label)
    b1_results_start = len(results)
    try:
        if not simple_pre:
            raise Undecided("the loop carries register state across iterations (preamble: %r): the inductive step would need a loop invariant; only the bounded runs decide this tree" % [l.strip() for l in pre[1:]])
        st = fresh_state("i")
        idx0, size0, cf0 = st.regs["idx"], st.regs["size"], st.cf
        for line in body:
            step(st, line)
        acells = [("a", "idx", j) for j in range(K)]
        bcells = [("b", "idx", j) for j in range(K)]
        shape_ok = (sorted(set(st.stores)) == acells and len(st.stores) == K and sorted(set(st.loads)) == sorted(acells + bcells)
                    and st.delta["idx"] == K and st.delta["size"] == -1 and st.delta["a"] == 0 and st.delta["b"] == 0
                    and not ({"a", "b", "idx", "size"} & st.dirty))
        if not shape_ok:
            q("B1-inductive-step", "CANDIDATE",
              "loop body shape differs from a K=%d block: stores=%r loads=%r idx+=%d size+=%d (prologue divides the length by %d)"
              % (K, sorted(set(st.stores)), sorted(set(st.loads)), st.delta["idx"], st.delta["size"], K))
        else:
            xs = [st.mem0[c] for c in acells]
            ys = [st.mem0[c] for c in bcells]
            outs, cout = chain(op, xs, ys, cf0)
            claims = [st.mem[c] == o for c, o in zip(acells, outs)] + [st.mem[c] == st.mem0[c] for c in bcells]
            claims += [st.cf == cout, st.regs["idx"] == idx0 + K, st.regs["size"] == size0 - 1, st.zf == (size0 - 1 == 0)]
            r, mdl, dt = prove(z3.And(claims))
            if r == "HOLDS" and use_cvc5:
                r2 = cross_check_cvc5(z3.And(claims), [])
                if r2 != "HOLDS":
                    r, mdl = "UNDECIDED", "cvc5 disagrees/undecided: " + r2
            q("B1-inductive-step", verdict[r],
              "" if r == "HOLDS" else "loop body is not the %d-digit %s-with-carry chain: %s" % (K, op, str(mdl)[:300]), dt,
              "any number of blocks (one symbolic pass from an arbitrary state at the loop label; frame = syntactic store set)")
            # ---- B3 (inductive form, integers): with idx = K*k, 0 <= k < n every touched cell index K*k+j is < K*n,
            #      stores only to {a}; the invariant idx = K*(n - size) is preserved
            k, n = z3.Ints("k n")
            offs = [c[2] for c in st.loads + st.stores]
            cl = z3.And([z3.And(0 <= K * k + o, K * k + o < K * n) for o in offs] +
                        [K * k + st.delta["idx"] == K * (k + 1)])
            bases_ok = all(c[0] in ("a", "b") for c in st.loads) and all(c[0] == "a" for c in st.stores)
            r, mdl, dt = prove(cl, [0 <= k, k < n])
            if not bases_ok:
                r, mdl = "CEX", "store to the borrowed operand or access through another base register"
            q("B3-address-set-inductive", verdict[r],
              "" if r == "HOLDS" else "an access leaves lhs[0..%d*n) u rhs[0..%d*n) or a store hits rhs: %s" % (K, K, str(mdl)[:300]), dt,
              "any number of blocks n; cell indices as mathematical integers")
    except Undecided as e:
        q("B1-inductive-step", "UNDECIDED", str(e))

    # ---- B2/B4: bounded end-to-end, n = 1..N blocks, against the wide-integer sum and the ripple chain (= model_add/model_sub)
    N = 3 if tier == "quick" else 6
    for nblk in range(1, N + 1):
        try:
            st = fresh_state("e%d" % nblk, concrete_size=nblk)
            st.regs["idx"] = z3.BitVecVal(0, W)    # `let mut idx = 0`
            st.idx0_is_zero = True
            for line in pre:
                step(st, line)
            guard = 0
            while True:
                for line in body:
                    step(st, line)
                zf = z3.simplify(st.zf)
                if z3.is_true(zf):
                    break
                if not z3.is_false(zf):
                    raise Undecided("loop exit condition not concrete in bounded run")
                guard += 1
                if guard > 64:
                    raise Undecided("loop does not terminate in bounded run")
            for line in post:
                step(st, line)
            D = K * nblk
            acells = [("a", "idx", j) for j in range(D)]
            bcells = [("b", "idx", j) for j in range(D)]
            touched = set(st.loads) | set(st.stores)
            if not (touched <= set(acells + bcells)) or not (set(st.stores) <= set(acells)):
                q("B3-address-set-n%d" % nblk, "CANDIDATE", "cells touched outside lhs[0..%d) u rhs[0..%d) or store to rhs: %r"
                  % (D, D, sorted(touched - set(acells + bcells))[:6] + sorted(set(st.stores) - set(acells))[:6]), 0, "%d blocks" % nblk)
                continue
            q("B3-address-set-n%d" % nblk, "HOLDS", "", 0, "%d blocks = %d digits: loads within lhs/rhs[0..%d), stores within lhs[0..%d)" % (nblk, D, D, D))
            xs = [st.read(c) if c not in st.mem0 else st.mem0[c] for c in acells]
            ys = [st.read(c) if c not in st.mem0 else st.mem0[c] for c in bcells]
            outs = [st.mem[c] for c in acells]
            ref, cout = chain(op, xs, ys, z3.BoolVal(False))
            cret = st.regs["c"] != 0       # `(c > 0, idx)`
            claim_chain = z3.And([o == r_ for o, r_ in zip(outs, ref)] + [cret == cout, st.regs["idx"] == D] +
                                 [st.mem[c] == y for c, y in zip(bcells, ys)])
            wide = lambda ds: z3.Concat(*reversed(ds)) if len(ds) > 1 else ds[0]  # noqa: E731
            A, B, O = (z3.ZeroExt(1, wide(v)) for v in (xs, ys, outs))
            cbit = z3.If(cret, z3.BitVecVal(1, 1), z3.BitVecVal(0, 1))
            if op == "add":
                claim_wide = z3.Concat(cbit, z3.Extract(64 * D - 1, 0, O)) == A + B
            else:
                # a - b = out - borrow*2^(64D)   <=>   out + b = a + borrow*2^(64D)   (no wide comparison needed)
                claim_wide = z3.Concat(cbit, z3.Extract(64 * D - 1, 0, A)) == O + B
            for nm, cl in (("B2-wide-sum", claim_wide), ("B4-model-agreement", claim_chain)):
                r, mdl, dt = prove(cl, [], 300)
                if r == "HOLDS" and use_cvc5 and nblk <= 2:
                    r2 = cross_check_cvc5(cl, [], 300)
                    if r2 != "HOLDS":
                        r, mdl = "UNDECIDED", "cvc5: " + r2
                q("%s-n%d" % (nm, nblk), verdict[r],
                  "" if r == "HOLDS" else "%s fails for %d block(s): %s" % (nm, nblk, str(mdl)[:300]), dt, "%d blocks = %d digits" % (nblk, D))
        except Undecided as e:
            q("B2-bounded-n%d" % nblk, "UNDECIDED", str(e))

    # ---- operand-class lint (advisory, never a verdict)
    wr = set()
    st = fresh_state("l")
    for line in pre + body + post:
        try:
            step(st, line)
        except Undecided:
            pass
    for r_ in sorted(st.written_regs):
        k = byname.get(r_, {}).get("kind")
        if k == "in":
            wr.add(r_)
    if wr:
        results.append(dict(name="%s:lint-operand-class" % fname, engine="asm2smt", status="NOTE", time_s=0, failed=[],
                            detail="ADVISORY (not a verdict): template writes register(s) declared `in`: %s" % ",".join(sorted(wr))))


# ------------------------------------------------------------------------------------------
# div_wide
# ------------------------------------------------------------------------------------------
def check_div(path, tier, results, use_cvc5):
    src = Path(path).read_text()
    q = lambda name, status, detail="", secs=0.0, bound="": results.append(  # noqa: E731
        PROGRESS(name, status, secs) or dict(name="div_wide:%s" % name, engine="asm2smt", status=status, detail=detail, time_s=round(secs, 3), solver_s=round(secs, 3),
             bound=bound, props_total=1, failed=[] if status != "CANDIDATE" else
             [dict(description=detail, category="asm", function="div_wide", location={"file": str(path)})]))
    try:
        fn = extract_fn(src, "div_wide")
        mm = re.findall(r"macro_rules!\s*div\s*\{\s*\(\)\s*=>\s*\{\s*\"([^\"]*)\"", fn)
        if len(mm) != 2:
            raise Undecided("div! template macro pair not found")
        template, operands, options = parse_asm(fn, {"div": mm[1]})   # cfg_digit!: second item is the 64-bit one
        if template != ["div {0:r}"]:
            raise Undecided("template is not `div {0:r}`: %r" % template)
        spec = [(o["kind"], o["cls"], o["expr"]) for o in operands]
        want = [("in", "reg", "divisor"), ("inout", "dx", "hi => rem"), ("inout", "ax", "lo => div")]
        if spec != want:
            q("B5-binding", "CANDIDATE", "operand binding differs from (divisor in reg, dx: hi=>rem, ax: lo=>div): %r" % (spec,))
            return
        if not re.search(r"\(\s*div\s*,\s*rem\s*\)\s*\}\s*\}\s*$", fn):
            raise Undecided("return expression is not (div, rem)")
        if not re.search(r"debug_assert!\(\s*hi\s*<\s*divisor\s*\)", fn):
            q("B5-binding", "CANDIDATE", "debug_assert!(hi < divisor) precondition missing")
            return
    except Undecided as e:
        q("B5-binding", "UNDECIDED", str(e))
        return
    q("B5-binding", "HOLDS", "dx<-hi, ax<-lo, (quotient, remainder) returned in that order")
    # ISA: DIV r64 faults iff src == 0 or quotient >= 2^64. Show: no fault <=> (d != 0 and hi < d), as integers (NIA), and at width 16 in BV.
    hi, lo, d, qq, rr = z3.Ints("hi lo d q r")
    B = 2 ** 64
    dom = z3.And(0 <= hi, hi < B, 0 <= lo, lo < B, 0 < d, d < B, 0 <= rr, rr < d, 0 <= qq, hi * B + lo == qq * d + rr)
    r, mdl, dt = prove((qq < B) == (hi < d), [dom], 60)
    q("B5-fault-iff-int", {"HOLDS": "HOLDS", "CEX": "CANDIDATE", "UNDECIDED": "UNDECIDED"}[r],
      "" if r == "HOLDS" else "fault condition: %s" % str(mdl)[:200], dt, "mathematical integers, 64-bit ranges")
    for w in ((8, 16) if tier == "quick" else (8, 16, 24)):
        h, l, dv = z3.BitVecs("h l dv", w)
        nn = z3.Concat(h, l)
        dd = z3.ZeroExt(w, dv)
        quo = z3.UDiv(nn, dd)
        r, mdl, dt = prove(z3.ULT(quo, z3.BitVecVal(1 << w, 2 * w)) == z3.ULT(h, dv), [dv != 0], 120)
        q("B5-fault-iff-bv%d" % w, {"HOLDS": "HOLDS", "CEX": "CANDIDATE", "UNDECIDED": "UNDECIDED"}[r],
          "" if r == "HOLDS" else str(mdl)[:200], dt, "digit width %d bits (re-instantiated)" % w)


def model_vectors(mdl, op):
    """operands from a solver model: cells m_<base>_idx_p<j>_<tag>"""
    if mdl is None or isinstance(mdl, str):
        return []
    a = b = 0
    n = 0
    for d in mdl.decls():
        m = re.fullmatch(r"m_(a|b)_idx_p(\d+)_\w+", d.name())
        if m:
            v = mdl[d].as_long() << (64 * int(m.group(2)))
            n = max(n, int(m.group(2)) + 1)
            if m.group(1) == "a":
                a |= v
            else:
                b |= v
    if n == 0:
        return []
    top = 1 << (64 * n)          # make `a` one digit longer so that subtraction never underflows and the carry has room
    out = []
    for o in (("add", "adda", "addv") if op == "add" else ("sub", "suba", "subv")):
        out.append((o, a | top, b))
        # the same digits one block higher, below a block that generates a carry/borrow into it
        K5 = 5
        if op == "add":
            out.append((o, ((a | top) << (64 * K5)) | ((1 << (64 * K5)) - 1), (b << (64 * K5)) | 1))
        else:
            out.append((o, ((a | top) << (64 * K5)), (b << (64 * K5)) | 1))
    return out


def native_validation(repo, tier, seed, scratch, results, kinds=("add", "sub")):
    """encoder validation + native replay: the compiled routines, reached through the public API, against Python integers"""
    import nativediff
    cands = [r for r in results if r["status"] == "CANDIDATE"]
    extra = []
    for r in cands:
        extra += r.pop("_vectors", [])
    for r in results:
        r.pop("_vectors", None)
    t0 = time.time()
    try:
        vecs = nativediff.addsub_vectors(seed, extra)
        bad_all = []
        profiles = ["release"] + (["dev"] if cands else [])
        for prof in profiles:
            binary = nativediff.build(scratch, repo, prof)
            bad, n = nativediff.run_vectors(binary, vecs)
            bad_all += [dict(b, profile=prof) for b in bad]
            if cands and prof == "dev" and any("address-set" in r["name"] or "B1" in r["name"] for r in cands):
                bad, n = nativediff.run_vectors(binary, vecs[:400], valgrind=True)
                bad_all += [dict(b, profile="dev+valgrind") for b in bad]
        dt = time.time() - t0
        if cands:
            for r in cands:
                r["replay"] = dict(reproduced=bool(bad_all), vectors=len(vecs), disagreements=bad_all[:5], profiles=profiles,
                                   note="native run of the compiled routine through BigUint +,-,+=,-= vs Python integers")
        elif bad_all:
            # solver says the asm is exact but the machine disagrees: the encoder (or the scalar Rust tail) is suspect
            for r in results:
                if r["status"] == "HOLDS":
                    r["status"], r["detail"] = "UNDECIDED", "encoder validation failed: native result differs from integers: %r" % bad_all[0]
        results.append(dict(name="asm:native-validation", engine="asm2smt", status="HOLDS" if not bad_all else "NOTE", time_s=round(dt, 2),
                            props_total=len(vecs), failed=[], bound="%d vectors of 5..16 digits (corner + seeded + solver models)" % len(vecs),
                            detail="compiled asm reached through the public API agrees with integer arithmetic on %d vectors" % len(vecs)
                            if not bad_all else "native disagreements: %r" % bad_all[:2]))
    except Exception as e:  # noqa
        for r in cands:
            r["replay"] = dict(reproduced=False, note="native replay could not run: %r" % e)
        results.append(dict(name="asm:native-validation", engine="asm2smt", status="UNDECIDED", time_s=0, failed=[], detail=repr(e)[:300]))


def run(repo, tier, seed, scratch):
    results = []
    use_cvc5 = tier == "thorough"
    repo = Path(repo)
    check_loop_fn(repo / "src/biguint/addition.rs", "schoolbook_add_assign_x86_64", "add", tier, results, use_cvc5)
    check_loop_fn(repo / "src/biguint/subtraction.rs", "schoolbook_sub_assign_x86_64", "sub", tier, results, use_cvc5)
    native_validation(repo, tier, seed, scratch, results)
    check_div(repo / "src/biguint/division.rs", tier, results, use_cvc5)
    return [r for r in results]


def run_div(repo, tier, seed, scratch):
    results = []
    check_div(Path(repo) / "src/biguint/division.rs", tier, results, tier == "thorough")
    return results


def run_addsub(repo, tier, seed, scratch):
    results = []
    repo = Path(repo)
    use_cvc5 = tier == "thorough"
    check_loop_fn(repo / "src/biguint/addition.rs", "schoolbook_add_assign_x86_64", "add", tier, results, use_cvc5)
    check_loop_fn(repo / "src/biguint/subtraction.rs", "schoolbook_sub_assign_x86_64", "sub", tier, results, use_cvc5)
    native_validation(repo, tier, seed, scratch, results)
    return results


if __name__ == "__main__":
    import sys
    for r in run(sys.argv[1] if len(sys.argv) > 1 else "/repo", sys.argv[2] if len(sys.argv) > 2 else "quick", 0, "/tmp"):
        print("%-10s %-55s %6.2fs %s" % (r["status"], r["name"], r.get("time_s", 0), r.get("detail", "")[:150]))
