#!/usr/bin/env python3
"""Native differential replay through the PUBLIC API of the scratch copy (used by the SMT engines, whose
counterexamples are not Kani playback tests).  Builds a tiny binary crate with a path dependency on the copy,
feeds it operation vectors, compares with Python big integers."""
import os
import random
import subprocess
from pathlib import Path

MAIN_RS = r'''
use num_bigint::{BigInt, BigUint, Sign};
use std::io::BufRead;
fn pu(s: &str) -> BigUint { BigUint::from_bytes_be(&hex(s)) }
fn hex(s: &str) -> Vec<u8> {
    let s = if s.len() % 2 == 1 { format!("0{}", s) } else { s.to_string() };
    (0..s.len() / 2).map(|i| u8::from_str_radix(&s[2 * i..2 * i + 2], 16).unwrap()).collect()
}
fn out(v: &BigUint) -> String { v.to_bytes_be().iter().map(|b| format!("{:02x}", b)).collect::<String>().trim_start_matches('0').to_string() }
fn main() {
    std::panic::set_hook(Box::new(|_| {}));
    let stdin = std::io::stdin();
    for line in stdin.lock().lines() {
        let line = line.unwrap();
        let p: Vec<&str> = line.split_whitespace().collect();
        if p.len() < 3 { continue; }
        let (a, b) = (pu(p[1]), pu(p[2]));
        let b_before = b.clone();
        let op = p[0].to_string();
        let r = std::panic::catch_unwind(|| {
            let b2 = b.clone();
            let v = match op.as_str() {
                "add" => &a + &b2,
                "addv" => a.clone() + b2.clone(),
                "adda" => { let mut x = a.clone(); x += &b2; x }
                "sub" => &a - &b2,
                "subv" => &a - b2.clone(),
                "suba" => { let mut x = a.clone(); x -= &b2; x }
                "iadd" => (BigInt::from_biguint(Sign::Plus, a.clone()) + BigInt::from_biguint(Sign::Plus, b2.clone())).magnitude().clone(),
                "isub" => (BigInt::from_biguint(Sign::Minus, a.clone()) - BigInt::from_biguint(Sign::Plus, b2.clone())).magnitude().clone(),
                "mul" => &a * &b2,
                "mulv" => a.clone() * b2.clone(),
                "mula" => { let mut x = a.clone(); x *= &b2; x }
                "div" => &a / &b2,
                "rem" => &a % &b2,
                _ => panic!("op"),
            };
            (v, b2)
        });
        match r {
            Ok((v, b2)) => println!("{} {}", if b2 == b_before { "ok" } else { "BORROWED-OPERAND-MODIFIED" }, { let s = out(&v); if s.is_empty() { "0".to_string() } else { s } }),
            Err(_) => println!("PANIC -"),
        }
    }
}
'''


def build(scratch, repo, profile):
    d = Path(scratch) / "nativediff"
    (d / "src").mkdir(parents=True, exist_ok=True)
    (d / "Cargo.toml").write_text('[package]\nname = "nativediff"\nversion = "0.0.0"\nedition = "2021"\n[workspace]\n'
                                   '[dependencies]\nnum-bigint = { path = "%s" }\n[profile.release]\ndebug-assertions = false\n' % repo)
    (d / "src" / "main.rs").write_text(MAIN_RS)
    lock = Path(repo) / "Cargo.lock"
    if lock.exists():
        (d / "Cargo.lock").write_text(lock.read_text())
    env = dict(os.environ, CARGO_NET_OFFLINE="true", CARGO_TARGET_DIR=str(d / "target"))
    cmd = ["cargo", "build", "--offline", "-q"] + (["--release"] if profile == "release" else [])
    p = subprocess.run(cmd, cwd=d, env=env, capture_output=True, text=True)
    if p.returncode != 0:
        # lock file may not fit the tiny crate: retry without it
        (d / "Cargo.lock").unlink(missing_ok=True)
        p = subprocess.run(cmd, cwd=d, env=env, capture_output=True, text=True)
        if p.returncode != 0:
            raise RuntimeError("nativediff build failed: " + p.stderr[-2000:])
    return d / "target" / ("release" if profile == "release" else "debug") / "nativediff"


def expected(op, a, b):
    if op in ("add", "addv", "adda", "iadd", "isub"):
        return a + b
    if op in ("sub", "subv", "suba"):
        return None if a < b else a - b
    if op in ("mul", "mulv", "mula"):
        return a * b
    if op == "div":
        return None if b == 0 else a // b
    if op == "rem":
        return None if b == 0 else a % b
    raise ValueError(op)


def addsub_vectors(seed, extra=()):
    """operands of 5..16 digits: corner patterns + seeded random + solver-derived `extra` [(op, a, b)]"""
    rnd = random.Random(seed)
    M = (1 << 64) - 1
    vs = list(extra)
    for n in (5, 6, 9, 10, 11, 15, 16):
        ones = (1 << (64 * n)) - 1
        for m in (n, n - 1, 5, n + 1):
            if m < 1:
                continue
            b1 = (1 << (64 * m)) - 1
            vs += [("add", ones, 1), ("add", ones, b1), ("adda", b1, ones), ("addv", ones, b1), ("sub", ones + 1, 1), ("suba", ones + 1, b1),
                   ("subv", (1 << (64 * n)), b1 >> 1), ("iadd", ones, b1), ("isub", ones, b1)]
            for _ in range(6):
                a = rnd.getrandbits(64 * n) | (1 << (64 * n - 1))
                b = rnd.getrandbits(64 * m)
                # sprinkle all-ones / zero digits so that carries cross digit and block boundaries
                for k in range(max(n, m)):
                    t = rnd.random()
                    if t < 0.3:
                        a |= M << (64 * k)
                        a &= (1 << (64 * n)) - 1
                    elif t < 0.5:
                        b |= M << (64 * k)
                        b &= (1 << (64 * m)) - 1
                for op in ("add", "adda", "addv", "sub", "suba", "subv"):
                    vs.append((op, a, b))
    return vs


def mul_vectors(seed, extra=()):
    rnd = random.Random(seed)
    M = (1 << 64) - 1
    vs = list(extra)
    for n in (1, 2, 3, 4, 8, 31, 33, 40, 70):
        for m in (1, 2, 3, n, 2 * n + 1):
            for _ in range(3 if n < 30 else 1):
                a = rnd.getrandbits(64 * n) | (1 << (64 * n - 1))
                b = rnd.getrandbits(64 * m) | 1
                for op in ("mul", "mulv", "mula"):
                    vs.append((op, a, b))
            vs.append(("mul", (1 << (64 * n)) - 1, (1 << (64 * m)) - 1))
            vs.append(("mul", M << (64 * (n - 1)), M))
    return vs


def div_vectors(seed, extra=()):
    """corner-digit dividends of 3..4 digits by 2-digit divisors (the Knuth-D core with a0 == b0, add-back, q0 = MAX cases) + seeded random"""
    rnd = random.Random(seed)
    C = [0, 1, 2, (1 << 64) - 1, (1 << 64) - 2, 1 << 63, (1 << 63) + 1, (1 << 63) - 1]
    vs = list(extra)
    for d1 in C:
        if d1 == 0:
            continue
        for d0 in C:
            d = (d1 << 64) | d0
            for u2 in C:
                for u1 in C:
                    for u0 in (0, 1, (1 << 64) - 1):
                        u = (u2 << 128) | (u1 << 64) | u0
                        vs.append(("div", u, d))
                        vs.append(("rem", (u << 64) | u1, d))
    for _ in range(500):
        n, m = rnd.choice((3, 4, 6)), rnd.choice((2, 3))
        vs.append(("div", rnd.getrandbits(64 * n), rnd.getrandbits(64 * m) | (1 << (64 * m - 1))))
    return vs


def run_vectors(binary, vectors, valgrind=False):
    inp = "".join("%s %x %x\n" % (op, a, b) for op, a, b in vectors)
    cmd = [str(binary)]
    if valgrind:
        cmd = ["valgrind", "--error-exitcode=97", "-q", str(binary)]
    p = subprocess.run(cmd, input=inp, capture_output=True, text=True, timeout=1200)
    lines = p.stdout.splitlines()
    bad = []
    if p.returncode != 0:
        bad.append(dict(kind="process", rc=p.returncode, stderr=p.stderr[-1500:]))
    for (op, a, b), ln in zip(vectors, lines):
        st, _, val = ln.partition(" ")
        exp = expected(op, a, b)
        if st == "BORROWED-OPERAND-MODIFIED":
            bad.append(dict(kind="borrowed operand modified", op=op, a=hex(a), b=hex(b)))
        elif exp is None:
            if st != "PANIC":
                bad.append(dict(kind="missing panic", op=op, a=hex(a), b=hex(b), got=val))
        elif st == "PANIC":
            bad.append(dict(kind="unexpected panic", op=op, a=hex(a), b=hex(b)))
        elif int(val, 16) != exp:
            bad.append(dict(kind="wrong value", op=op, a=hex(a), b=hex(b), got=val, expected="%x" % exp))
    if len(lines) < len(vectors) and not bad:
        bad.append(dict(kind="process", rc=p.returncode, stderr="short output"))
    return bad, len(lines)
