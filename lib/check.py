#!/usr/bin/env python3
"""Driver for the solver-based checks of twiby/num-bigint.

usage: check.py <PROPERTY-ID> [--tier quick|thorough] [--replay FILE] [--only SUBSTR] [--keep]

Every run
  * copies /repo's *current working tree* into a scratch directory outside /repo and /verif,
  * injects the Kani harness modules of the property (one `mod` line per anchored file),
  * runs the solver engines (A: Kani/CBMC, B: asm->SMT, C: MIR->SMT) on that copy,
  * replays every counterexample natively against the real code (no stubs) before reporting it,
  * writes /verif/evidence/<ID>.json and removes the scratch directory.
Exit codes: 0 property held on everything decided; 1 reproduced violation (VIOLATION line);
2 the check itself could not do its job (nothing decided / unreproduced candidate / build failure).
"""
import argparse
import hashlib
import json
import os
import re
import resource
import shutil
import subprocess
import sys
import tempfile
import time
from pathlib import Path

HERE = Path(__file__).resolve().parent
VERIF = HERE.parent
sys.path.insert(0, str(HERE))
import props  # noqa: E402

REPO = Path(os.environ.get("VERIF_REPO", "/repo"))
MEM_CAP_KB = int(os.environ.get("VERIF_MEM_GB", "14")) * 1024 * 1024

ALLOWED_PANIC_DESC = re.compile(
    r"attempt to divide by zero|attempt to calculate the remainder with a divisor of zero")


def log(*a):
    print(*a, flush=True)


_CHILDREN = set()


def _kill_children(signum=None, frame=None):
    """children run in their own sessions (setsid) so that a time-out can kill a whole solver tree; when this driver itself is
    terminated (outer `timeout`, Ctrl-C) they would otherwise keep running as orphans"""
    for pid in list(_CHILDREN):
        try:
            os.killpg(pid, 9)
        except Exception:
            pass
    if signum is not None:
        sys.exit(2)


def sh(cmd, cwd=None, env=None, timeout=None, memcap=True, logfile=None):
    """run a command, return (rc, output)"""
    e = dict(os.environ)
    e["CARGO_NET_OFFLINE"] = "true"
    if env:
        e.update(env)

    def pre():
        if memcap:
            cap = MEM_CAP_KB * 1024 if memcap is True else int(memcap) * (1 << 30)
            resource.setrlimit(resource.RLIMIT_AS, (cap, cap))
        os.setsid()

    p = subprocess.Popen(cmd, cwd=cwd, env=e, stdout=subprocess.PIPE, stderr=subprocess.STDOUT,
                         preexec_fn=pre, text=True, errors="replace")
    _CHILDREN.add(p.pid)
    try:
        out, _ = p.communicate(timeout=timeout)
        rc = p.returncode
        _CHILDREN.discard(p.pid)
    except subprocess.TimeoutExpired:
        try:
            os.killpg(p.pid, 9)
        except Exception:
            pass
        out, _ = p.communicate()
        rc = -9
    if logfile:
        Path(logfile).write_text(out)
    return rc, out


class Scratch:
    def __init__(self, pid, keep=False):
        base = os.environ.get("VERIF_SCRATCH", "/var/tmp")
        self.dir = Path(tempfile.mkdtemp(prefix="verif-%s-" % pid.lower(), dir=base))
        self.keep = keep
        self.repo = self.dir / "repo"
        self.harness = self.dir / "harness"

    def cleanup(self):
        if self.keep:
            log("scratch kept at", self.dir)
        else:
            shutil.rmtree(self.dir, ignore_errors=True)


def copy_tree(scr):
    rc, out = sh(["rsync", "-a", "--exclude", "/target", "--exclude", "/.git", str(REPO) + "/", str(scr.repo) + "/"],
                 memcap=False)
    if rc != 0:
        raise RuntimeError("rsync failed: " + out)
    shutil.copytree(VERIF / "harness", scr.harness)
    (scr.repo / ".cargo").mkdir(exist_ok=True)
    (scr.repo / ".cargo" / "config.toml").write_text("[net]\noffline = true\n")


def inject(scr, cfg):
    """append `#[cfg(kani)] #[path=..] mod verif_xxx;` lines to the anchored files of the COPY"""
    injected = []
    lib = scr.repo / "src" / "lib.rs"
    txt = lib.read_text()
    if "feature(allocator_api)" not in txt:
        # inner attribute must precede all items: put it before the first existing `#![`
        i = txt.find("#![")
        txt = txt[:i] + "#![cfg_attr(kani, feature(allocator_api))]\n" + txt[i:]
        lib.write_text(txt)
    pairs = [("src/biguint.rs", "common.rs", "verif_common"), ("src/bigint.rs", "icommon.rs", "verif_icommon")] + [
        (src, h, "verif_" + re.sub(r"\W", "_", h.rsplit(".", 1)[0])) for (src, h) in cfg.get("inject", [])]
    for src, h, modname in pairs:
        f = scr.repo / src
        if not f.exists():
            raise RuntimeError("anchored file missing in tree: %s" % src)
        hp = scr.harness / h
        vis = "pub(crate) " if h in ("common.rs", "icommon.rs") else ""
        with open(f, "a") as fh:
            fh.write('\n#[cfg(kani)] #[path = "%s"] %smod %s;\n' % (hp, vis, modname))
        injected.append((src, h))
    return injected


def harness_sources(scr, cfg):
    """names of harness fns defined (directly or via macro instantiation) in the property's files"""
    names = {}
    for (_src, h) in cfg.get("inject", []):
        t = (scr.harness / h).read_text()
        for m in re.finditer(r"\b(c\d\d_[qt]_\w+)\b", t):
            names.setdefault(m.group(1), h)
    return names


def run_kani_batch(scr, batch, tier, idx, only=None):
    filt = batch["filter_q"] if tier == "quick" else batch["filter_t"]
    filters = filt if isinstance(filt, list) else [filt]
    if only:
        filters = only.split(",")
    timeout = batch.get("timeout_q", 120) if tier == "quick" else batch.get("timeout_t", 900)
    jobs = batch.get("jobs", 14)
    out_json = scr.dir / ("kani-%d.json" % idx)
    cmd = ["cargo", "kani", "-Z", "stubbing", "-Z", "unstable-options"]
    for z in batch.get("unstable", []):
        cmd += ["-Z", z]
    if batch.get("features"):
        cmd += ["--features", batch["features"]]
    if batch.get("no_default_features"):
        cmd += ["--no-default-features"]
    for f in filters:
        cmd += ["--harness", f]
    cmd += ["-j", str(jobs), "--harness-timeout", "%ds" % timeout, "--output-format", "terse",
            "--export-json", str(out_json), "--target-dir", str(scr.dir / ("tgt-%s" % batch.get("tgt", "a")))]
    cmd += batch.get("extra", [])
    t0 = time.time()
    rc, out = sh(cmd, cwd=scr.repo, logfile=scr.dir / ("kani-%d.log" % idx))
    wall = time.time() - t0
    res = []
    if not out_json.exists():
        # build failure or no harness matched
        tail = "\n".join(out.splitlines()[-40:])
        return None, wall, tail, " ".join(cmd)
    d = json.loads(out_json.read_text())
    errs = {e["harness_id"]: e for e in d.get("error_details", [])}
    pdet = {e["harness_id"]: e.get("property_details", {}) for e in d.get("property_details", [])}
    cb = {e["harness_id"]: e for e in d.get("cbmc", [])}
    for r in d["verification_results"]["results"]:
        hid = r["harness_id"]
        short = hid.rsplit("::", 1)[-1]
        e = errs.get(hid, {})
        pd = pdet.get(hid) or {}
        stats = (cb.get(hid) or {}).get("cbmc_stats") or {}
        q = dict(name=short, full=hid, engine="kani", time_s=round(r.get("duration_ms", 0) / 1000.0, 2),
                 props_total=pd.get("total_properties", 0), covers_sat=pd.get("satisfied", 0),
                 covers_unsat=pd.get("unsatisfiable", 0), vccs=stats.get("vccs_generated", 0),
                 solver_s=stats.get("runtime_decision_procedure_s", 0.0), failed=[], features=batch.get("features"))
        st = r["status"]
        must_panic = short.endswith("_mp")
        if st == "Success":
            if must_panic:
                q["status"], q["detail"] = "CANDIDATE", "must-panic harness verified without any panic"
                q["failed"] = [dict(description="VERIF_SURVIVED (no panic on any path)", category="must_panic", function=hid, location={})]
            elif q["covers_unsat"] > 0:
                q["status"], q["detail"] = "UNDECIDED", "vacuity: %d reach-cover(s) unsatisfiable" % q["covers_unsat"]
            else:
                q["status"], q["detail"] = "HOLDS", ""
        elif e.get("exit_status") == "timeout":
            q["status"], q["detail"] = "UNDECIDED", "timeout %ds" % timeout
        elif e.get("exit_status") == "properties_failed" or st == "Failure" and r.get("checks"):
            fails = [c for c in r.get("checks", []) if c["status"] == "Failure"]
            unwind = [c for c in fails if "unwinding assertion" in c["description"]]
            unsupported = [c for c in fails if c["category"] in ("unsupported_construct",)]
            real = [c for c in fails if c not in unwind and c not in unsupported]
            covers = [c for c in r.get("checks", []) if c["category"] == "cover"]
            q["covers_detail"] = {c["description"]: c["status"] for c in covers}
            if unwind:
                q["status"], q["detail"] = "UNDECIDED", "unwinding bound too small: " + unwind[0]["function"]
            elif unsupported:
                q["status"], q["detail"] = "UNDECIDED", "unsupported construct reachable: " + unsupported[0]["description"][:80]
            elif must_panic:
                srcdir = str(scr.repo / "src")
                survived = [c for c in real if "VERIF_SURVIVED" in c["description"]]
                allowed = [c for c in real if c not in survived and c["category"] == "assertion"
                           and (not c["description"].startswith("attempt to ") or ALLOWED_PANIC_DESC.search(c["description"]))]
                other = [c for c in real if c not in survived and c not in allowed
                         and not (c["category"] == "arithmetic_overflow" and ALLOWED_PANIC_DESC.search(c["description"]))]
                if survived or other:
                    q["status"], q["detail"] = "CANDIDATE", "must-panic: " + ("operation returned" if survived else "unexpected failure class")
                    q["failed"] = survived + other
                elif not allowed:
                    q["status"], q["detail"] = "UNDECIDED", "must-panic harness without the expected panic"
                else:
                    unsat = [c for c in covers if c["status"] != "Satisfied"]
                    if unsat:
                        q["status"], q["detail"] = "UNDECIDED", "vacuity: cover " + unsat[0]["description"]
                    else:
                        q["status"], q["detail"] = "HOLDS", "panics on every path: " + allowed[0]["description"][:60]
            elif real:
                q["status"], q["detail"] = "CANDIDATE", real[0]["description"][:100]
                q["failed"] = real
            else:
                q["status"], q["detail"] = "UNDECIDED", "failed without a failing check (%s)" % e.get("exit_status")
        else:
            q["status"], q["detail"] = "UNDECIDED", "kani/cbmc error: %s/%s" % (e.get("error_type"), e.get("exit_status"))
        for c in q["failed"]:
            c.pop("id", None)
        res.append(q)
    return res, wall, "", " ".join(cmd)


PLAYBACK_RE = re.compile(r"^test (\S*kani_concrete_playback_\S+) \.\.\. (\w+)", re.M)


def replay_candidate(scr, q, batch, idx):
    """re-run one failing harness with concrete playback, then execute the generated unit tests natively
    (real code, stubs NOT applied), dev profile and release-like profile. returns dict."""
    rep = dict(harness=q["name"], reproduced=False, profiles={}, tests=[], note="")
    if q["failed"] and q["failed"][0].get("category") == "must_panic":
        # no counterexample exists (no panic at all): replay = native run of harness needs values; use zeros
        rep["note"] = "must-panic harness with no panic on any path; no concrete values needed"
    cmd = ["cargo", "kani", "-Z", "stubbing", "-Z", "unstable-options", "-Z", "concrete-playback",
           "--concrete-playback=print"]
    for z in batch.get("unstable", []):
        cmd += ["-Z", z]
    if batch.get("features"):
        cmd += ["--features", batch["features"]]
    if batch.get("no_default_features"):
        cmd += ["--no-default-features"]
    cmd += ["--harness", q["full"], "--exact", "--harness-timeout", "1200s", "--output-format", "terse",
            "--target-dir", str(scr.dir / ("tgt-%s" % batch.get("tgt", "a")))]
    # one process at a time here; the driver's trace parser needs far more memory than a verification run on long traces
    rc, out = sh(cmd, cwd=scr.repo, logfile=scr.dir / ("playback-gen-%d.log" % idx), memcap=40)
    # the printed unit tests are appended to the END of the harness file of the scratch copy (module level);
    # `inplace` would put them inside the macro_rules body that generated the harness
    blocks = re.findall(r"```\n(.*?)```", out, re.S)
    blocks = [b for b in blocks if "kani::concrete_playback_run" in b]
    seen, uniq = set(), []
    for b in blocks:
        m = re.search(r"fn (kani_concrete_playback_\w+)\(", b)
        if m and m.group(1) not in seen:
            seen.add(m.group(1))
            uniq.append((m.group(1), b))
    rep["tests"] = [n for n, _ in uniq]
    if not uniq:
        rep["note"] += " no playback test generated"
        return rep
    hfile = None
    for p in scr.harness.rglob("*.rs"):
        if re.search(r"\b%s\b" % re.escape(q["name"]), p.read_text()):
            hfile = p
    if hfile is None:
        rep["note"] += " harness source not found"
        return rep
    with open(hfile, "a") as fh:
        for _n, b in uniq:
            fh.write("\n" + b + "\n")
    rep["concrete_vals"] = re.findall(r"// (.*)\n\s*vec!\[([^\]]*)\]", uniq[0][1])[:64]
    rep["test_source"] = uniq[0][1]
    base = ["cargo", "kani", "playback", "-Z", "concrete-playback", "--lib"]
    if batch.get("features"):
        base += ["--features", batch["features"]]
    if batch.get("no_default_features"):
        base += ["--no-default-features"]
    base += ["--", "kani_concrete_playback_" + q["name"], "--test-threads", "1"]
    profiles = {
        "dev": {},
        "release-like": {"CARGO_PROFILE_TEST_OPT_LEVEL": "3", "CARGO_PROFILE_TEST_DEBUG_ASSERTIONS": "false",
                         "CARGO_PROFILE_TEST_OVERFLOW_CHECKS": "false"},
    }
    for pname, env in profiles.items():
        env = dict(env)
        env["CARGO_TARGET_DIR"] = str(scr.dir / ("tgt-play-" + pname))
        env["RUST_BACKTRACE"] = "0"
        rc, out = sh(base, cwd=scr.repo, env=env, timeout=1800, logfile=scr.dir / ("playback-%d-%s.log" % (idx, pname)))
        results = PLAYBACK_RE.findall(out)
        failed = [t for (t, r) in results if r != "ok"]
        crashed = ("signal" in out and "process didn't exit successfully" in out) or "SIGFPE" in out or "SIGSEGV" in out
        msgs = re.findall(r"panicked at ([^\n]*)\n([^\n]*)", out)
        rep["profiles"][pname] = dict(ran=len(results), failed=len(failed), crashed=bool(crashed),
                                      panic=[(a.split("/")[-1], b[:200]) for a, b in msgs][:4],
                                      built=("error: could not compile" not in out))
        if failed or crashed:
            # the SAME failure must show up natively: a harness assertion ("VERIF ...") must fail with the same message
            # (harnesses that read ghost state written by stubs would otherwise "fail" natively for an unrelated reason);
            # a failure inside the code under test (its own panic, overflow, signal) must be a non-harness failure natively too
            kdesc = (q["failed"][0].get("description", "") if q["failed"] else "")
            # playback-infrastructure panics (value-size mismatch, values left over: a stub drew solver values that the native run does not draw) never count
            native_msgs = [b for a_, b in msgs if "concrete_playback.rs" not in a_ and "concrete playback" not in b]
            if kdesc.startswith("VERIF"):
                # a harness assertion failed under the solver: natively a harness assertion must fail as well. Ghost-state reads are guarded by
                # vc::symbolic(), so a native VERIF failure comes from an exact reference; the message may differ from the solver's when the
                # harness has a dedicated native branch (e.g. range check instead of 'low + candidate')
                same = any(mm.strip().startswith("VERIF") and not mm.strip().startswith(("VERIF-ORACLE", "VERIF (harness)")) for mm in native_msgs)
            else:
                same = crashed or any(not mm.strip().startswith("VERIF") for mm in native_msgs) or not native_msgs
            rep["profiles"][pname]["same_failure"] = bool(same)
            if same:
                rep["reproduced"] = True
    return rep


def write_replay_file(pid, q, rep, tier):
    key = hashlib.sha1((pid + q["name"] + json.dumps(rep.get("concrete_vals", []))).encode()).hexdigest()[:12]
    d = VERIF / "replays"
    d.mkdir(exist_ok=True)
    path = d / ("%s-%s.json" % (pid, key))
    txt = json.dumps(dict(property=pid, harness=q["name"], harness_full=q.get("full", q["name"]), tier=tier,
                          failed_checks=q["failed"][:6], detail=q["detail"], replay=rep,
                          how_to_rerun="bin/check %s --replay %s" % (pid, path)), indent=1)
    txt = re.sub(r"/[\w/.-]*?/verif-[a-z0-9]+-\w+/harness", str(VERIF / "harness"), txt)
    txt = re.sub(r"/[\w/.-]*?/verif-[a-z0-9]+-\w+/repo", str(REPO), txt)
    path.write_text(txt)
    return path


def load_known():
    """known_findings.txt: lines `finding: property=<id> harness=<regex> <text>` / `fixed: property=<id> <commit> <text>`"""
    kf = []
    p = VERIF / "known_findings.txt"
    if p.exists():
        for line in p.read_text().splitlines():
            line = line.strip()
            m = re.match(r"finding:\s+property=(\S+)\s+harness=(\S+)\s+(.*)", line)
            if m:
                kf.append(dict(property=m.group(1), harness=m.group(2), text=m.group(3)))
    return kf


def main():
    ap = argparse.ArgumentParser()
    ap.add_argument("prop")
    ap.add_argument("--tier", default=os.environ.get("VERIF_TIER", "quick"), choices=["quick", "thorough"])
    ap.add_argument("--replay")
    ap.add_argument("--only", help="debug: run only harnesses matching this substring (evidence not written)")
    ap.add_argument("--keep", action="store_true")
    ap.add_argument("--jobs", type=int)
    a = ap.parse_args()
    pid = a.prop.upper()
    if pid not in props.PROPS:
        log("unknown or not-claimed property", pid)
        return 2
    cfg = props.PROPS[pid]
    seed = int(os.environ.get("VERIF_SEED", "0") or 0)
    only = a.only
    if a.replay:
        rp = json.loads(Path(a.replay).read_text())
        only = rp["harness"]
        if only.startswith("mir:"):
            only = "engine:mirsmt"
        elif only.startswith(("schoolbook_", "div_wide", "asm:")):
            only = "engine:asmsym"
        log("replaying", rp["harness"], "from", a.replay, "(re-runs the query on the current tree and replays it natively again)")
    t0 = time.time()
    scr = Scratch(pid, keep=a.keep)
    try:
        return run(pid, cfg, a.tier, seed, scr, only, a, t0)
    finally:
        scr.cleanup()


def run(pid, cfg, tier, seed, scr, only, a, t0):
    copy_tree(scr)
    injected = inject(scr, cfg)
    queries = []
    cmds = []
    notes = []
    build_failed = False
    # ---- Engine A
    for idx, batch in enumerate(cfg.get("kani", [])):
        if a.jobs:
            batch = dict(batch, jobs=a.jobs)
        if tier == "quick" and batch.get("thorough_only"):
            continue
        if only and only.startswith("engine:"):
            continue
        res, wall, tail, cmd = run_kani_batch(scr, batch, tier, idx, only)
        cmds.append(cmd)
        if res is None and "could not compile" not in tail and "error[E" not in tail and "no harnesses matched" not in tail.lower() \
                and "No proof harnesses" not in tail and "Failed to match" not in tail:
            # the driver itself died (seen once: a worker was killed under memory pressure and kani-driver panicked, losing the whole
            # batch). One more attempt with half the parallelism before calling the run inconclusive.
            log("[A] batch %d: kani driver crashed, retrying once with fewer jobs" % idx)
            notes.append("batch %d: kani driver crashed once; batch re-run with half the jobs" % idx)
            res, wall, tail, cmd = run_kani_batch(scr, dict(batch, jobs=max(2, int(batch.get("jobs", 8)) // 2)), tier, idx, only)
            cmds.append(cmd)
        if res is None:
            if "no harnesses matched" in tail.lower() or "No proof harnesses" in tail:
                notes.append("batch %d: no harness matched" % idx)
                continue
            build_failed = True
            notes.append("batch %d: kani build failed" % idx)
            log("KANI-BUILD-FAILED (harnesses do not compile against this tree or kani crashed):")
            log(tail)
            continue
        # second pass for resource-type undecided results (time-out, out-of-memory, solver error): fewer jobs, twice the time.
        # On the reference tree nothing ends up here; on a modified tree a harness that became much more expensive gets a
        # fair chance to be decided instead of silently dropping out of the verdict.
        retry = [q for q in res if q["status"] == "UNDECIDED" and re.search(r"timeout|out_of_memory|exit_code|without a failing check", q.get("detail", ""))]
        if retry and len(retry) <= int(os.environ.get("VERIF_MAX_RETRY", "4")) and not os.environ.get("VERIF_NO_RETRY"):
            tkey = "timeout_q" if tier == "quick" else "timeout_t"
            b2 = dict(batch, jobs=4, **{tkey: 2 * batch.get(tkey, 240 if tier == "quick" else 900)})
            b2["filter_q"] = b2["filter_t"] = [q["full"] for q in retry]
            b2["extra"] = batch.get("extra", []) + ["--exact"]
            res2, wall2, _tail2, cmd2 = run_kani_batch(scr, b2, tier, 100 + idx, None)
            cmds.append(cmd2)
            if res2:
                by = {q["full"]: q for q in res2}
                for i, q in enumerate(res):
                    if q["full"] in by:
                        nq = by[q["full"]]
                        nq["detail"] = (nq.get("detail", "") + " [decided in the retry pass]").strip() if nq["status"] != "UNDECIDED" else nq["detail"] + " [also in the retry pass]"
                        res[i] = nq
                log("[A] batch %d retry pass: %d harnesses in %.0fs" % (idx, len(res2), wall2))
        for q in res:
            q["batch"] = idx
        queries += res
        log("[A] batch %d: %d harnesses in %.0fs" % (idx, len(res), wall))
    # ---- Engines B / C
    for eng in cfg.get("engines", []):
        if only and only != "engine:" + eng["module"]:
            continue
        try:
            mod = __import__(eng["module"])
            res = getattr(mod, eng["func"])(scr.repo, tier, seed, scr.dir)
        except Exception as ex:  # encoder failure = undecided, never a pass
            import traceback
            traceback.print_exc()
            res = [dict(name=eng["func"], engine=eng["module"], status="UNDECIDED", detail="engine error: %r" % ex,
                        time_s=0, failed=[])]
        queries += res
        log("[%s] %d obligations" % (eng["module"], len(res)))

    # ---- classify / replay
    known = load_known()
    violations, known_hits, unreproduced = [], [], []
    cands = [q for q in queries if q["status"] == "CANDIDATE"]
    max_replays = int(os.environ.get("VERIF_MAX_REPLAYS", "3"))
    for i, q in enumerate(cands):
        if q["engine"] == "kani" and (i >= max_replays or (violations and i >= 1)):
            # replaying costs ~1 min each: after the cap the remaining candidates are listed but not replayed
            q["replay"] = dict(reproduced=False, note="not replayed (cap of %d native replays per run)" % max_replays)
            q["status"] = "NOT-REPLAYED"
            continue
        if q["engine"] == "kani":
            rep = replay_candidate(scr, q, cfg["kani"][q["batch"]], i)
        else:
            rep = q.get("replay") or dict(reproduced=False, note="engine did not provide a native replay")
        q["replay"] = rep
        if rep.get("reproduced"):
            kh = [k for k in known if k["property"] == pid and re.fullmatch(k["harness"], q["name"])]
            if kh:
                known_hits.append((q, kh[0]))
                q["status"] = "KNOWN"
            else:
                path = write_replay_file(pid, q, rep, tier)
                q["status"] = "VIOLATED"
                violations.append((q, path))
        else:
            q["status"] = "UNREPRODUCED"
            unreproduced.append(q)

    advisories = [q for q in queries if q["status"] == "NOTE"]
    queries = [q for q in queries if q["status"] != "NOTE"]
    for q in advisories:
        log("  NOTE  %s: %s" % (q["name"], q.get("detail", "")))
        notes.append("%s: %s" % (q["name"], q.get("detail", "")))
    holds = [q for q in queries if q["status"] == "HOLDS"]
    undec = [q for q in queries if q["status"] == "UNDECIDED"]
    wall = time.time() - t0

    # ---- report
    for q in queries:
        if q["status"] != "HOLDS":
            log("  %-12s %-60s %s" % (q["status"], q["name"], q.get("detail", "")))
    for q, k in known_hits:
        log("KNOWN-FINDING: property=%s %s (%s)" % (pid, k["text"], q["name"]))
    for q, path in violations:
        fc = q["failed"][0] if q["failed"] else {}
        log("VIOLATION property=%s replay=%s" % (pid, path))
        log("   harness=%s check=%s at %s:%s" % (q["name"], fc.get("description", "")[:100],
                                              str(fc.get("location", {}).get("file", "")).replace(str(scr.repo), "/repo"),
                                              fc.get("location", {}).get("line", "")))
    for q in unreproduced:
        log("UNREPRODUCED-CANDIDATE (model/stub/oracle of the check is suspect, NOT reported as violation): %s %s %s"
            % (q["name"], q.get("detail", ""), json.dumps(q.get("replay", {}).get("profiles", {}))[:300]))
    # ---- baseline of decided queries (committed, written only on request): a change to /repo can make a harness too expensive or
    # stop it from reaching its assertion; such a harness cannot alarm, so at least say which verdicts of the pinned tree are missing
    full_run = not only and not a.replay
    bfile = VERIF / "baseline" / ("%s.%s.txt" % (pid, tier))
    if full_run and bfile.exists():
        base = [l.strip() for l in bfile.read_text().splitlines() if l.strip() and not l.startswith("#")]
        now = {q["name"]: q["status"] for q in queries}
        lost = [n for n in base if now.get(n) in (None, "UNDECIDED")]
        if lost:
            msg = ("%d of %d queries that hold on the pinned tree reached no verdict on this tree (NOT a violation; the claim of this run "
                   "is narrower by these): %s" % (len(lost), len(base), ", ".join(lost[:12]) + (" ..." if len(lost) > 12 else "")))
            log("  NOTE  baseline: " + msg)
            notes.append("baseline: " + msg)
    if full_run and os.environ.get("VERIF_WRITE_BASELINE") and not violations and not unreproduced and not build_failed:
        bfile.parent.mkdir(exist_ok=True)
        bfile.write_text("# queries that HOLD for %s (%s tier) on the pinned tree; regenerate with VERIF_WRITE_BASELINE=1 bin/check %s --tier %s\n"
                         % (pid, tier, pid, tier) + "\n".join(sorted(q["name"] for q in holds)) + "\n")
    log("%s tier=%s: %d queries, %d hold, %d undecided, %d violated, %d known, %d unreproduced, %.0fs"
        % (pid, tier, len(queries), len(holds), len(undec), len(violations), len(known_hits), len(unreproduced), wall))

    if not (only and not a.replay) and not os.environ.get("VERIF_NO_EVIDENCE"):
        write_evidence(pid, cfg, tier, seed, queries, holds, undec, violations, known_hits, unreproduced, wall, cmds,
                       injected, notes)
    if violations:
        return 1
    if unreproduced or build_failed:
        return 2
    if not holds and not known_hits:
        log("nothing could be decided")
        return 2
    return 0


def write_evidence(pid, cfg, tier, seed, queries, holds, undec, violations, known_hits, unreproduced, wall, cmds,
                   injected, notes):
    def sample(q):
        s = dict(query=q["name"], engine=q["engine"], status=q["status"], time_s=q.get("time_s"))
        for k in ("props_total", "covers_sat", "vccs", "solver_s", "bound", "detail", "features"):
            if q.get(k):
                s[k] = q[k]
        return s
    nontrivial = [q for q in holds if q["engine"] != "kani" or q.get("props_total", 0) > 0]
    # a few samples: the three most expensive + first three + all non-holding
    hs = sorted(holds, key=lambda q: -(q.get("time_s") or 0))
    samples = [sample(q) for q in (hs[:4] + holds[:4])] + [sample(q) for q in queries if q["status"] != "HOLDS"][:20]
    ev = dict(
        property_id=pid, tier=tier, seed=seed, level="model_checking",
        coverage=dict(
            evaluations=len(queries),
            distinct_nontrivial=len({q["name"] for q in nontrivial}),
            rule="one evaluation = one solver query (a Kani/CBMC harness = one operation at one concrete operand shape/"
                 "sign tuple with every digit/scalar symbolic, or one SMT obligation of the asm/MIR encoders); counted as "
                 "non-trivial only if the solver verdict was SUCCESSFUL with unwinding assertions on, at least one checked "
                 "property, and every reach-cover of the harness SATISFIED (vacuity guard); distinct by query name",
            samples=samples,
            obligations=len(queries), discharged=len(holds), undecided=[q["name"] + ": " + q.get("detail", "") for q in undec],
            functions_encoded=cfg.get("functions", []),
            bounds=cfg.get("bounds_" + tier, cfg.get("bounds", "")),
            outside_claim=cfg.get("outside", ""),
            solver_time_s=round(sum(float(q.get("solver_s") or 0) for q in queries), 2),
            query_time_s=round(sum(float(q.get("time_s") or 0) for q in queries), 2),
            checker_cmd="; ".join(cmds)[:4000],
            trusted_base=cfg.get("trusted", []) + props.COMMON_TRUSTED,
            injected=["%s <- harness/%s" % (s, h) for s, h in injected],
            explanation=cfg.get("explanation", ""),
            exhaustive=False,
            notes=notes,
        ),
        assumptions=cfg.get("assumptions", []) + props.COMMON_ASSUMPTIONS,
        wall_s=round(wall, 1),
        violations=len(violations),
        known_findings=[k["text"] for _q, k in known_hits],
        unreproduced_candidates=[q["name"] for q in unreproduced],
    )
    d = VERIF / "evidence"
    d.mkdir(exist_ok=True)
    (d / ("%s.json" % pid)).write_text(json.dumps(ev, indent=1))


if __name__ == "__main__":
    import signal
    signal.signal(signal.SIGTERM, _kill_children)
    signal.signal(signal.SIGINT, _kill_children)
    signal.signal(signal.SIGHUP, _kill_children)
    sys.exit(main())
