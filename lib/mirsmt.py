#!/usr/bin/env python3
"""Engine C: a deliberately small translator from the nightly MIR dump of scalar word kernels to z3 bit-vector terms.

The MIR is produced from the scratch copy on every run:
    cargo +nightly rustc --lib -- -Zunpretty=mir -C debug-assertions=off -C overflow-checks=on
Only functions whose bodies use integer/bool locals, `&mut` integer out-parameters, tuples, assert terminators and calls from a
fixed vocabulary are accepted; anything else raises Undecided (never a pass). Loops are unrolled only when every branch
condition simplifies to a constant (compile-time trip counts). Each kernel has a hand-written specification below (the
contract that the Kani harnesses of Engine A rely on, or the mathematical identity the kernel is supposed to implement)
plus the obligation that no overflow/shift `assert` terminator can fail under the callers' invariant.
"""
import re
import subprocess
import time
from pathlib import Path

import z3


class Undecided(Exception):
    pass


INT_T = {"u8": 8, "u16": 16, "u32": 32, "u64": 64, "u128": 128, "usize": 64, "i8": 8, "i16": 16, "i32": 32, "i64": 64, "i128": 128, "isize": 64}


class Ctx:
    """digit width re-instantiation: `u64` -> W bits, `u128` -> 2W bits (W = 64 is the shipped configuration)"""

    def __init__(self, w=64):
        self.w = w
        self.consts = {"big_digit::BITS": (w, 8), "big_digit::HALF_BITS": (w // 2, 8), "big_digit::MAX": ((1 << w) - 1, w),
                       "big_digit::HALF": ((1 << (w // 2)) - 1, w)}

    def width(self, ty):
        ty = ty.strip()
        if ty == "bool":
            return 1
        if ty in ("u64", "usize"):
            return self.w
        if ty == "u128":
            return 2 * self.w
        if ty in INT_T:
            return INT_T[ty]
        raise Undecided("type not in vocabulary: %s" % ty)


def extract_fn(mir, name):
    m = re.search(r"^fn %s\((.*?)\) -> (.*?) \{\n(.*?)^\}\n" % re.escape(name), mir, re.S | re.M)
    if not m:
        raise Undecided("function %s not found in the MIR dump" % name)
    return m.group(1), m.group(2), m.group(3)


def parse_fn(mir, name):
    params, ret, body = extract_fn(mir, name)
    ptypes = []
    for p in re.findall(r"(_\d+): ([^,]+)", params):
        ptypes.append((p[0], p[1].strip()))
    locs = dict(re.findall(r"let (?:mut )?(_\d+): ([^;]+);", body))
    locs["_0"] = ret.strip()
    for k, v in ptypes:
        locs[k] = v
    blocks = {}
    for bm in re.finditer(r"^    (bb\d+)(?: \(cleanup\))?: \{\n(.*?)^    \}\n", body, re.S | re.M):
        lines = [l.strip() for l in bm.group(2).splitlines() if l.strip() and not l.strip().startswith("//")]
        blocks[bm.group(1)] = lines
    if not blocks:
        raise Undecided("no basic blocks parsed for %s" % name)
    return ptypes, locs, blocks


class Exec:
    def __init__(self, ctx, ptypes, locs, blocks, args, derefs, mir=""):
        """args: {param: z3 term} for by-value params; derefs: {param: z3 term} initial value behind `&mut` params"""
        self.ctx, self.locs, self.blocks, self.mir = ctx, locs, blocks, mir
        self.env0 = dict(args)
        self.mem0 = dict(derefs)
        self.paths = []          # (path condition list, env, mem)
        self.obligations = []    # (path condition list, condition term, message)

    # ---- operands / places
    def const(self, txt):
        txt = txt.strip()
        if txt in ("true", "false"):
            return z3.BitVecVal(1 if txt == "true" else 0, 1)
        m = re.fullmatch(r"(-?\d+)_(\w+)", txt)
        if m:
            return z3.BitVecVal(int(m.group(1)), self.ctx.width(m.group(2)))
        if txt in self.ctx.consts:
            v, w = self.ctx.consts[txt]
            return z3.BitVecVal(v, w)
        raise Undecided("constant not in vocabulary: %s" % txt)

    def read_place(self, place, env, mem):
        place = place.strip()
        m = re.fullmatch(r"\(\*(_\d+)\)", place)
        if m:
            r = env.get(m.group(1))
            if isinstance(r, tuple) and len(r) == 2 and r[0] == "ref":
                return env[r[1]] if isinstance(r[1], str) else r[1]
            if m.group(1) not in mem:
                raise Undecided("deref of %s" % m.group(1))
            return mem[m.group(1)]
        m = re.fullmatch(r"\((_\d+)\.(\d+): [^)]+\)", place)
        if m:
            v = env.get(m.group(1))
            if not isinstance(v, tuple):
                raise Undecided("field of non-tuple %s" % place)
            return v[int(m.group(2))]
        if re.fullmatch(r"_\d+", place):
            if place not in env:
                raise Undecided("read of unassigned local %s" % place)
            return env[place]
        raise Undecided("place not in vocabulary: %s" % place)

    def operand(self, txt, env, mem):
        txt = txt.strip()
        for pre in ("copy ", "move "):
            if txt.startswith(pre):
                return self.read_place(txt[len(pre):], env, mem)
        if txt.startswith("const "):
            pm = re.fullmatch(r"const (?:[\w:]+::)?(\w+)::promoted\[(\d+)\]", txt)
            if pm:
                # promoted constant: a reference to a literal; its body is printed separately in the dump
                bm = re.search(r"^const %s::promoted\[%s\]: &(\w+) = \{\n(.*?)^\}" % (pm.group(1), pm.group(2)), self.mir, re.S | re.M)
                lit = re.search(r"= const (-?\d+)_(\w+);", bm.group(2)) if bm else None
                if not lit:
                    raise Undecided("promoted constant body not understood: %s" % txt)
                return ("ref", z3.BitVecVal(int(lit.group(1)), self.ctx.width(lit.group(2))))
            return self.const(txt[6:])
        if re.fullmatch(r"&(mut )?_\d+", txt):
            return ("ref", txt.split("_", 1)[0] and "_" + txt.split("_", 1)[1])
        raise Undecided("operand not in vocabulary: %s" % txt)

    def write_place(self, place, val, env, mem):
        place = place.strip()
        m = re.fullmatch(r"\(\*(_\d+)\)", place)
        if m:
            mem[m.group(1)] = val
            return
        m = re.fullmatch(r"\((_\d+)\.(\d+): [^)]+\)", place)
        if m:
            cur = list(env.get(m.group(1), (None, None)))
            cur[int(m.group(2))] = val
            env[m.group(1)] = tuple(cur)
            return
        if re.fullmatch(r"_\d+", place):
            env[place] = val
            return
        raise Undecided("assignment target not in vocabulary: %s" % place)

    @staticmethod
    def split_args(s):
        out, depth, cur = [], 0, ""
        for ch in s:
            if ch in "([<":
                depth += 1
            elif ch in ")]>":
                depth -= 1
            if ch == "," and depth == 0:
                out.append(cur.strip())
                cur = ""
            else:
                cur += ch
        if cur.strip():
            out.append(cur.strip())
        return out

    def rvalue(self, rv, env, mem, dst_ty):
        rv = rv.strip()
        m = re.fullmatch(r"(\w+)\((.*)\)", rv, re.S)
        b2bv = lambda c: z3.If(c, z3.BitVecVal(1, 1), z3.BitVecVal(0, 1))  # noqa: E731
        if m and m.group(1) in ("AddWithOverflow", "SubWithOverflow", "MulWithOverflow", "Add", "Sub", "Mul", "BitAnd", "BitOr", "BitXor",
                                "Shl", "Shr", "Lt", "Le", "Gt", "Ge", "Eq", "Ne", "Div", "Rem", "AddUnchecked", "SubUnchecked", "MulUnchecked", "ShrUnchecked", "ShlUnchecked"):
            op = m.group(1)
            a, b = [self.operand(x, env, mem) for x in self.split_args(m.group(2))]
            if op in ("Shl", "Shr", "ShrUnchecked", "ShlUnchecked") and a.size() != b.size():
                b = z3.ZeroExt(a.size() - b.size(), b) if b.size() < a.size() else z3.Extract(a.size() - 1, 0, b)
            n = a.size()
            if op in ("AddWithOverflow", "SubWithOverflow", "MulWithOverflow"):
                if op == "AddWithOverflow":
                    r = z3.ZeroExt(1, a) + z3.ZeroExt(1, b)
                    return (z3.Extract(n - 1, 0, r), z3.Extract(n, n, r))
                if op == "SubWithOverflow":
                    return (a - b, b2bv(z3.ULT(a, b)))
                r = z3.ZeroExt(n, a) * z3.ZeroExt(n, b)
                return (z3.Extract(n - 1, 0, r), b2bv(z3.Extract(2 * n - 1, n, r) != 0))
            table = {"Add": lambda: a + b, "Sub": lambda: a - b, "Mul": lambda: a * b, "BitAnd": lambda: a & b, "BitOr": lambda: a | b,
                     "BitXor": lambda: a ^ b, "Shl": lambda: a << b, "Shr": lambda: z3.LShR(a, b), "Lt": lambda: b2bv(z3.ULT(a, b)),
                     "Le": lambda: b2bv(z3.ULE(a, b)), "Gt": lambda: b2bv(z3.UGT(a, b)), "Ge": lambda: b2bv(z3.UGE(a, b)),
                     "Eq": lambda: b2bv(a == b), "Ne": lambda: b2bv(a != b), "Div": lambda: z3.UDiv(a, b), "Rem": lambda: z3.URem(a, b),
                     "AddUnchecked": lambda: a + b, "SubUnchecked": lambda: a - b, "MulUnchecked": lambda: a * b,
                     "ShrUnchecked": lambda: z3.LShR(a, b), "ShlUnchecked": lambda: a << b}
            return table[op]()
        if m and m.group(1) == "Not":
            return ~self.operand(m.group(2), env, mem)
        if m and m.group(1) == "Neg":
            return -self.operand(m.group(2), env, mem)
        m = re.fullmatch(r"(.*) as (\w+) \(IntToInt\)", rv)
        if m:
            v = self.operand(m.group(1), env, mem)
            w = self.ctx.width(m.group(2))
            return z3.ZeroExt(w - v.size(), v) if w > v.size() else (z3.Extract(w - 1, 0, v) if w < v.size() else v)
        if rv.startswith("(") and rv.endswith(")") and not rv.startswith("(*") and ":" not in rv:
            return tuple(self.operand(x, env, mem) for x in self.split_args(rv[1:-1]))
        return self.operand(rv, env, mem)

    def call(self, fn, args, env, mem, dst_ty):
        a = [self.operand(x, env, mem) for x in self.split_args(args)]
        m = re.fullmatch(r"<(\w+) as From<(\w+)>>::from", fn)
        if m:
            w = self.ctx.width(m.group(1))
            return z3.ZeroExt(w - a[0].size(), a[0])
        m = re.fullmatch(r"core::num::<impl (\w+)>::(\w+)", fn)
        if m:
            f = m.group(2)
            if f == "wrapping_add":
                return a[0] + a[1]
            if f == "wrapping_sub":
                return a[0] - a[1]
            if f == "wrapping_mul":
                return a[0] * a[1]
            if f == "wrapping_neg":
                return -a[0]
        raise Undecided("call not in vocabulary: %s" % fn)

    # ---- path exploration (DFS; every branch condition either constant or forks the path)
    def run(self, max_steps=4000):
        stack = [("bb0", [], dict(self.env0), dict(self.mem0), 0)]
        while stack:
            bb, pc, env, mem, steps = stack.pop()
            while True:
                steps += 1
                if steps > max_steps:
                    raise Undecided("path too long (loop not bounded by constants?)")
                lines = self.blocks.get(bb)
                if lines is None:
                    raise Undecided("unknown block %s" % bb)
                nxt = None
                for ln in lines:
                    if ln.startswith(("StorageLive", "StorageDead", "nop", "FakeRead", "PlaceMention", "scope", "debug ")):
                        continue
                    if ln == "return;":
                        self.paths.append((pc, env, mem))
                        nxt = "END"
                        break
                    m = re.fullmatch(r"goto -> (bb\d+);", ln)
                    if m:
                        nxt = m.group(1)
                        break
                    m = re.fullmatch(r"switchInt\((.*?)\) -> \[(.*)\];", ln)
                    if m:
                        v = self.operand(m.group(1), env, mem)
                        arms = [x.strip() for x in m.group(2).split(",")]
                        other = None
                        conds = []
                        for arm in arms:
                            k, t = [x.strip() for x in arm.split(":")]
                            if k == "otherwise":
                                other = t
                            else:
                                conds.append((int(k), t))
                        taken = []
                        rest = []
                        for k, t in conds:
                            c = z3.simplify(v == z3.BitVecVal(k, v.size()))
                            if z3.is_true(c):
                                taken = [(None, t)]
                                rest = None
                                break
                            if z3.is_false(c):
                                rest.append(z3.BoolVal(True))
                                continue
                            taken.append((c, t))
                            rest.append(z3.Not(c))
                        if rest is not None and other is not None:
                            taken.append((z3.And(rest) if rest else None, other))
                        if len(taken) == 1 and (taken[0][0] is None or len(conds) == 0):
                            nxt = taken[0][1]
                        else:
                            for c, t in taken:
                                stack.append((t, pc + ([c] if c is not None else []), dict(env), dict(mem), steps))
                            nxt = "END"
                        break
                    m = re.fullmatch(r"assert\((!?)(.*?), \".*?\".*\) -> \[success: (bb\d+), unwind.*\];", ln)
                    if m:
                        v = self.operand(m.group(2), env, mem)
                        cond = (v == 0) if m.group(1) == "!" else (v == 1)
                        self.obligations.append((list(pc), cond, ln[:90]))
                        pc = pc + [cond]
                        nxt = m.group(3)
                        break
                    if re.fullmatch(r".* = core::panicking::\w+(::<.*>)?\(.*\) -> unwind \w+;", ln):
                        self.obligations.append((list(pc), z3.BoolVal(False), "assertion: panic path reachable: " + ln[:60]))
                        nxt = "END"
                        break
                    if re.fullmatch(r"_\d+ = (core::panicking::AssertKind::\w+|Option::<.*>::None);", ln):
                        continue
                    m = re.fullmatch(r"(\S+|\(\*_\d+\)|\(_\d+\.\d+: [^)]+\)) = (.*?)\((.*)\) -> \[return: (bb\d+), unwind.*\];", ln)
                    if m and not re.match(r"^(Add|Sub|Mul|Not|Neg|Lt|Le|Gt|Ge|Eq|Ne|Shl|Shr|BitAnd|BitOr|BitXor|Div|Rem)\w*$", m.group(2)):
                        val = self.call(m.group(2).strip(), m.group(3), env, mem, None)
                        self.write_place(m.group(1), val, env, mem)
                        nxt = m.group(4)
                        break
                    m = re.fullmatch(r"(\S+|\(\*_\d+\)|\(_\d+\.\d+: [^)]+\)) = (.*);", ln)
                    if m:
                        self.write_place(m.group(1), self.rvalue(m.group(2), env, mem, None), env, mem)
                        continue
                    raise Undecided("statement not in vocabulary: %s" % ln[:100])
                if nxt == "END":
                    break
                if nxt is None:
                    raise Undecided("block %s falls through" % bb)
                bb = nxt
        return self

    def merged(self, getter):
        """ITE-merge a per-path value over all return paths"""
        out = None
        for pc, env, mem in reversed(self.paths):
            v = getter(env, mem)
            c = z3.And(pc) if pc else z3.BoolVal(True)
            out = v if out is None else z3.If(c, v, out)
        return out


# ------------------------------------------------------------------------------------------------
def prove(claim, assumptions=(), timeout_s=60):
    s = z3.Solver()
    s.set("timeout", int(timeout_s * 1000))
    for a in assumptions:
        s.add(a)
    s.add(z3.Not(claim))
    t0 = time.time()
    r = s.check()
    dt = time.time() - t0
    if r == z3.unsat:
        return "HOLDS", None, dt
    if r == z3.sat:
        return "CEX", s.model(), dt
    return "UNDECIDED", s.reason_unknown(), dt


def cvc5_agrees(claim, assumptions, timeout_s=60):
    s = z3.Solver()
    for a in assumptions:
        s.add(a)
    s.add(z3.Not(claim))
    smt = "(set-logic ALL)\n" + s.to_smt2()
    try:
        p = subprocess.run(["cvc5", "--lang", "smt2", "--tlimit", str(int(timeout_s * 1000))], input=smt, text=True, capture_output=True, timeout=timeout_s + 10)
    except Exception:
        return "UNDECIDED"
    out = (p.stdout + p.stderr).strip()
    if "(error" in out or not out:
        return "UNDECIDED"
    return {"unsat": "HOLDS", "sat": "CEX"}.get(out.splitlines()[0], "UNDECIDED")


def kernel_specs(ctx):
    """name -> (builder) ; builder(mir) -> list of (obligation name, claim, assumptions)"""
    W = ctx.w
    bv = lambda n, w=W: z3.BitVec(n, w)  # noqa: E731
    zx = lambda v, w: z3.ZeroExt(w - v.size(), v)  # noqa: E731

    def no_assert_fail(ex, pre):
        return [("no-overflow-assert:%d" % i, z3.Implies(z3.And(pc) if pc else z3.BoolVal(True), cond), pre) for i, (pc, cond, _msg) in enumerate(ex.obligations)]

    def run(mir, name, args, derefs):
        ptypes, locs, blocks = parse_fn(mir, name)
        return Exec(ctx, ptypes, locs, blocks, args, derefs, mir).run()

    def mac_with_carry(mir):
        a, b, c = bv("a"), bv("b"), bv("c")
        acc = bv("acc", 2 * W)
        pre = [z3.ULE(acc, z3.BitVecVal((1 << W) - 1, 2 * W))]          # callers' invariant: the carry fits one digit
        ex = run(mir, "mac_with_carry", {"_1": a, "_2": b, "_3": c}, {"_4": acc})
        lo = ex.merged(lambda env, mem: env["_0"])
        hi = ex.merged(lambda env, mem: mem["_4"])
        total = zx(acc, 3 * W) + zx(a, 3 * W) + zx(b, 3 * W) * zx(c, 3 * W)
        obl = [("contract: lo + 2^W*carry == acc + a + b*c (exact)", zx(lo, 3 * W) + (zx(hi, 3 * W) << W) == total, pre),
               ("invariant re-established: carry_out < 2^W", z3.ULE(hi, z3.BitVecVal((1 << W) - 1, 2 * W)), pre)]
        return obl + no_assert_fail(ex, pre)

    def mul_with_carry(mir):
        a, b = bv("a"), bv("b")
        acc = bv("acc", 2 * W)
        pre = [z3.ULE(acc, z3.BitVecVal((1 << W) - 1, 2 * W))]
        ex = run(mir, "mul_with_carry", {"_1": a, "_2": b}, {"_3": acc})
        lo = ex.merged(lambda env, mem: env["_0"])
        hi = ex.merged(lambda env, mem: mem["_3"])
        total = zx(acc, 3 * W) + zx(a, 3 * W) * zx(b, 3 * W)
        return [("contract: lo + 2^W*carry == acc + a*b (exact)", zx(lo, 3 * W) + (zx(hi, 3 * W) << W) == total, pre),
                ("invariant re-established: carry_out < 2^W", z3.ULE(hi, z3.BitVecVal((1 << W) - 1, 2 * W)), pre)] + no_assert_fail(ex, pre)

    def negate_carry(mir):
        a = bv("a")
        acc = bv("acc", 2 * W)
        pre = [z3.ULE(acc, z3.BitVecVal(1, 2 * W))]                      # the running carry is 0 or 1
        ex = run(mir, "negate_carry", {"_1": a}, {"_2": acc})
        lo = ex.merged(lambda env, mem: env["_0"])
        hi = ex.merged(lambda env, mem: mem["_2"])
        total = zx(~a, 2 * W) + acc
        return [("two's-complement step: lo + 2^W*carry == !a + carry_in", zx(lo, 2 * W) + (hi << W) == total, pre),
                ("carry_out is 0 or 1", z3.ULE(hi, z3.BitVecVal(1, 2 * W)), pre)] + no_assert_fail(ex, pre)

    def add_ww(mir):
        x, y, c = bv("x"), bv("y"), bv("c")
        pre = [z3.ULE(c, 1)]
        ex = run(mir, "add_ww", {"_1": x, "_2": y, "_3": c}, {})
        z1 = ex.merged(lambda env, mem: env["_0"][0])
        z0 = ex.merged(lambda env, mem: env["_0"][1])
        return [("z1*2^W + z0 == x + y + c", (zx(z1, 2 * W) << W) + zx(z0, 2 * W) == zx(x, 2 * W) + zx(y, 2 * W) + zx(c, 2 * W), pre)] + no_assert_fail(ex, pre)

    def mul_add_www(mir):
        x, y, c = bv("x"), bv("y"), bv("c")
        ex = run(mir, "mul_add_www", {"_1": x, "_2": y, "_3": c}, {})
        z1 = ex.merged(lambda env, mem: env["_0"][0])
        z0 = ex.merged(lambda env, mem: env["_0"][1])
        return [("z1*2^W + z0 == x*y + c", (zx(z1, 2 * W) << W) + zx(z0, 2 * W) == zx(x, 2 * W) * zx(y, 2 * W) + zx(c, 2 * W), [])] + no_assert_fail(ex, [])

    def inv_mod_alt(mir):
        b = bv("b")
        pre = [z3.Extract(0, 0, b) == 1]
        ex = run(mir, "inv_mod_alt", {"_1": b}, {})
        k = ex.merged(lambda env, mem: env["_0"])
        return [("k * b == -1 (mod 2^W)  [k0 = -1/m for Montgomery]", k * b == z3.BitVecVal((1 << W) - 1, W), pre)] + \
            [("no-overflow-assert:%d" % i, z3.Implies(z3.And(pc) if pc else z3.BoolVal(True), cond), pre) for i, (pc, cond, msg) in enumerate(ex.obligations)
             if "assertion" not in msg]

    return {"mac_with_carry": mac_with_carry, "mul_with_carry": mul_with_carry, "negate_carry": negate_carry, "add_ww": add_ww,
            "mul_add_www": mul_add_www, "inv_mod_alt": inv_mod_alt}


def dump_mir(repo, scratch):
    out = Path(scratch) / "mir.txt"
    if out.exists():
        return out.read_text()
    env = dict(__import__("os").environ, CARGO_NET_OFFLINE="true", CARGO_TARGET_DIR=str(Path(scratch) / "tgt-mir"))
    (Path(repo) / "src" / "lib.rs").touch()
    p = subprocess.run(["cargo", "+nightly", "rustc", "--offline", "--lib", "--", "-Zunpretty=mir", "-C", "debug-assertions=off", "-C", "overflow-checks=on"],
                       cwd=repo, env=env, capture_output=True, text=True, timeout=900)
    if p.returncode != 0 or "fn " not in p.stdout:
        raise Undecided("MIR dump failed: " + p.stderr[-800:])
    out.write_text(p.stdout)
    return p.stdout


def check_kernels(repo, tier, seed, scratch, names, widths=None):
    results = []
    try:
        mir = dump_mir(repo, scratch)
    except Exception as e:  # noqa
        return [dict(name="mir:dump", engine="mir2smt", status="UNDECIDED", detail=repr(e)[:300], time_s=0, failed=[])]
    for name in names:
        ws = (widths or {}).get(name, [64])
        for w in ws:
            ctx = Ctx(w)
            qn = "%s@W%d" % (name, w)
            try:
                obls = kernel_specs(ctx)[name](mir)
            except Undecided as e:
                results.append(dict(name="mir:%s" % qn, engine="mir2smt", status="UNDECIDED", detail=str(e)[:300], time_s=0, failed=[]))
                continue
            except Exception as e:  # noqa
                results.append(dict(name="mir:%s" % qn, engine="mir2smt", status="UNDECIDED", detail="translator error %r" % e, time_s=0, failed=[]))
                continue
            for oname, claim, pre in obls:
                cap = 60 if tier == "quick" else 600
                r, mdl, dt = prove(claim, pre, cap)
                if r == "HOLDS" and tier == "thorough":
                    r2 = cvc5_agrees(claim, pre, 120)
                    if r2 == "CEX":
                        r, mdl = "UNDECIDED", "cvc5 disagrees"
                st = {"HOLDS": "HOLDS", "CEX": "CANDIDATE", "UNDECIDED": "UNDECIDED"}[r]
                det = "" if r == "HOLDS" else ("counterexample: %s" % str(mdl).replace("\n", " ")[:240] if r == "CEX" else "solver: %s" % mdl)
                results.append(dict(name="mir:%s:%s" % (qn, oname), engine="mir2smt", status=st, detail=det, time_s=round(dt, 3), solver_s=round(dt, 3),
                                    props_total=1, bound="digit width W=%d%s" % (w, "" if w == 64 else " (re-instantiated)"),
                                    failed=[] if st != "CANDIDATE" else [dict(description="%s: %s" % (oname, det), category="mir", function=name, location={})],
                                    replay=dict(reproduced=False, note="MIR-level counterexample; native confirmation is left to the Kani harnesses that call the kernel") if st == "CANDIDATE" else None))
    return results


def native_mul_replay(repo, seed, scratch, results):
    """native confirmation for word-kernel candidates: products through the public API against Python integers"""
    cands = [r for r in results if r["status"] == "CANDIDATE"]
    if not cands:
        return
    import nativediff
    try:
        vecs = nativediff.mul_vectors(seed)
        bad_all = []
        for prof in ("release", "dev"):
            binary = nativediff.build(scratch, repo, prof)
            bad, _n = nativediff.run_vectors(binary, vecs)
            bad_all += [dict(b, profile=prof) for b in bad]
        for r in cands:
            r["replay"] = dict(reproduced=bool(bad_all), vectors=len(vecs), disagreements=bad_all[:4],
                               note="native products through BigUint * (1..70 digits, all multiplication regimes reached) vs Python integers")
    except Exception as e:  # noqa
        for r in cands:
            r["replay"] = dict(reproduced=False, note="native replay could not run: %r" % e)


def guard_obligation(mir, fn_name, callee, hi_arg=0, div_arg=2):
    """every call `callee(hi, .., divisor)` inside fn_name must sit in a block whose only way in is the true arm of a branch on a
    comparison that implies hi < divisor (the #DE precondition of the hardware divide); operands are resolved by copy propagation
    inside the two blocks involved. Returns (status, detail, seconds)."""
    ptypes, locs, blocks = parse_fn(mir, fn_name)
    t0 = time.time()
    calls = [(bb, ln) for bb, lines in blocks.items() for ln in lines if re.search(r"= (?:[\w:]+::)?%s\(" % re.escape(callee), ln)]
    if not calls:
        raise Undecided("no call to %s in %s" % (callee, fn_name))

    def resolve(opnd, lines):
        opnd = opnd.strip()
        for _ in range(6):
            m = re.fullmatch(r"(?:copy|move) (_\d+)", opnd)
            if not m:
                return opnd
            src = None
            for ln in lines:
                mm = re.fullmatch(r"%s = ((?:copy|move) _\d+|const .*);" % re.escape(m.group(1)), ln)
                if mm:
                    src = mm.group(1)
            if src is None:
                return m.group(1)
            opnd = src
        return opnd

    for bb, ln in calls:
        args = Exec.split_args(ln[ln.index("(") + 1:ln.rindex(") ->")])
        hi = resolve(args[hi_arg], blocks[bb])
        dv = resolve(args[div_arg], blocks[bb])
        preds = [(p, l) for p, lines in blocks.items() for l in lines if re.search(r"(-> |: )%s\b" % bb, l) and p != bb]
        if len(preds) != 1:
            return "UNDECIDED", "block %s has %d predecessors" % (bb, len(preds)), time.time() - t0
        pbb, pl = preds[0]
        m = re.fullmatch(r"switchInt\(move (_\d+)\) -> \[0: (bb\d+), otherwise: (bb\d+)\];", pl)
        if not m or m.group(3) != bb:
            return "CANDIDATE", "call to %s in %s is not on the true arm of a two-way branch (%s)" % (callee, fn_name, pl[:60]), time.time() - t0
        cond = None
        for l in blocks[pbb]:
            mm = re.fullmatch(r"%s = (Lt|Le|Gt|Ge|Ne|Eq)\((.*)\);" % re.escape(m.group(1)), l)
            if mm:
                cond = mm
        if not cond:
            return "UNDECIDED", "branch condition of %s not a comparison" % pbb, time.time() - t0
        x, y = [resolve(a, blocks[pbb]) for a in Exec.split_args(cond.group(2))]
        names = {}

        def term(o):
            if o.startswith("const "):
                return Exec(Ctx(64), [], {}, {}, {}, {}).const(o[6:])
            return names.setdefault(o, z3.BitVec("v" + o, 64))
        tx, ty, thi, tdv = term(x), term(y), term(hi), term(dv)
        rel = {"Lt": z3.ULT(tx, ty), "Le": z3.ULE(tx, ty), "Gt": z3.UGT(tx, ty), "Ge": z3.UGE(tx, ty), "Ne": tx != ty, "Eq": tx == ty}[cond.group(1)]
        r, mdl, dt = prove(z3.Implies(rel, z3.ULT(thi, tdv)), [], 30)
        if r != "HOLDS":
            return ("CANDIDATE" if r == "CEX" else "UNDECIDED"), "guard `%s(%s, %s)` does not imply hi < divisor for the call %s(%s, .., %s): %s" % (
                cond.group(1), x, y, callee, hi, dv, str(mdl).replace("\n", " ")[:160]), time.time() - t0
    return "HOLDS", "", time.time() - t0


def run_div_guard(repo, tier, seed, scratch):
    """C03/C15: the hardware divide inside the Knuth-D core is only reached under `a0 < b0`"""
    try:
        mir = dump_mir(repo, scratch)
        st, det, dt = guard_obligation(mir, "div_rem_core", "div_wide")
    except Undecided as e:
        st, det, dt = "UNDECIDED", str(e), 0.0
    except Exception as e:  # noqa
        st, det, dt = "UNDECIDED", "translator error %r" % e, 0.0
    res = [dict(name="mir:div_rem_core:div_wide-guard (hi < divisor at the call)", engine="mir2smt", status=st, detail=det, time_s=round(dt, 3), solver_s=round(dt, 3), props_total=1,
                bound="any operands (syntactic dominating guard + copy propagation, decided by z3)",
                failed=[] if st != "CANDIDATE" else [dict(description=det, category="mir", function="div_rem_core", location={})])]
    if st == "CANDIDATE":
        import nativediff
        try:
            vecs = nativediff.div_vectors(seed)
            bad_all = []
            for prof in ("release", "dev"):
                binary = nativediff.build(scratch, repo, prof)
                bad, _n = nativediff.run_vectors(binary, vecs)
                bad_all += [dict(b, profile=prof) for b in bad]
            res[0]["replay"] = dict(reproduced=bool(bad_all), vectors=len(vecs), disagreements=bad_all[:4],
                                    note="native quotients/remainders of 3-by-2 and 4-by-2 digit corner operands through BigUint / and % vs Python integers (SIGFPE or debug_assert counts)")
        except Exception as e:  # noqa
            res[0]["replay"] = dict(reproduced=False, note="native replay could not run: %r" % e)
    return res


def run_mul(repo, tier, seed, scratch):
    res = check_kernels(repo, tier, seed, scratch, ["mac_with_carry", "mul_with_carry"])
    native_mul_replay(repo, seed, scratch, res)
    return res


def run_bits(repo, tier, seed, scratch):
    return check_kernels(repo, tier, seed, scratch, ["negate_carry"])


def run_monty(repo, tier, seed, scratch):
    return check_kernels(repo, tier, seed, scratch, ["add_ww", "mul_add_www", "inv_mod_alt"],
                         widths={"inv_mod_alt": [8, 16] if tier == "quick" else [8, 16, 32, 64]})


if __name__ == "__main__":
    import sys
    import tempfile
    repo = sys.argv[1] if len(sys.argv) > 1 else "/repo"
    d = tempfile.mkdtemp(prefix="mirsmt-", dir="/var/tmp")
    for f in (run_mul, run_bits, run_monty):
        for r in f(repo, sys.argv[2] if len(sys.argv) > 2 else "quick", 0, d):
            print("%-10s %-90s %7.2fs %s" % (r["status"], r["name"], r.get("time_s", 0), r.get("detail", "")[:120]))
    __import__("shutil").rmtree(d, ignore_errors=True)
