#!/usr/bin/env python3
"""Regenerates /verif/MANIFEST.json from lib/props.py (run by hand, result committed)."""
import json, sys
from pathlib import Path
HERE = Path(__file__).resolve().parent
sys.path.insert(0, str(HERE))
import props

NA = {
    "C11": "integer roots rest on Newton iteration over multi-digit division/powers seeded by libm f64 functions; 64-bit symbolic "
           "multiplication/division is beyond bit-blasting here (one 3/2-digit division with 40 symbolic bits > 15 min) and libm has no "
           "model; only wrapper clauses (sign transfer, panics) are encodable and those run under C14/C19",
    "C16": "'compiles for every feature subset' is decided by the compiler, not a solver, and result equality across configurations "
           "concerns only Vec-capacity estimates (unobservable) and the root finder's start guess (C11, out of reach): nothing "
           "quantified over symbolic inputs for a solver to decide",
    "C20": "a cost claim over operand lengths 256..16384 digits: the digit-multiplication count is a deterministic function of one "
           "concrete run per length and the lengths are two orders of magnitude beyond any encodable bound; measuring it is "
           "instrumentation/benchmarking, a different technique family",
}
ALL = ["C%02d" % i for i in range(1, 21)]

def main():
    checks = []
    for pid in ALL:
        if pid not in props.PROPS:
            continue
        c = props.PROPS[pid]
        checks.append(dict(
            property_id=pid,
            quick_cmd="bin/check %s --tier quick" % pid,
            thorough_cmd="bin/check %s --tier thorough" % pid,
            evidence_file="/verif/evidence/%s.json" % pid,
            replay_cmd_template="bin/check %s --replay {path}" % pid,
            engine="solver",
            level_claimed=dict(category="model_checking",
                               text=c.get("level_text") or ("bounded model checking: for every enumerated query (one operation at one concrete operand shape / sign tuple) the solver decides the "
                                                            "assertion for ALL digit and scalar contents; bounds: " + c.get("bounds_quick", "")[:600]),
                               design_ref=c.get("design_ref", "DESIGN.md sections 4 and 9, " + pid)),
            level_note=c.get("level_note") or ("outside the claim: " + (c.get("outside", "") or "operands beyond the stated shapes") + " | trusted: " + "; ".join(c.get("trusted", []) + props.COMMON_TRUSTED))[:1800],
            technique=c.get("technique") or ("Kani/CBMC bounded model checking (SAT) of unit harnesses injected into a copy of the real code"
                                             + ("; z3 symbolic execution of the inline-asm text" if any(e.get("module") == "asmsym" for e in c.get("engines", [])) else "")
                                             + ("; z3 over the nightly MIR of the word kernels" if any(e.get("module") == "mirsmt" for e in c.get("engines", [])) else "")),
        ))
    na = []
    for pid in ALL:
        if pid in props.PROPS:
            continue
        na.append(dict(property_id=pid, reason=NA.get(pid, "check not built yet in this session (planned, see DESIGN.md)")))
    m = dict(
        version=1,
        setup_cmd="bin/setup",
        hooks=dict(
            guard="kani",
            enable="no hooks are committed in /repo: every check copies /repo's working tree to a scratch directory and appends "
                   "`#[cfg(kani)] #[path=...] mod verif_*;` lines to the anchored source files of the COPY (cfg(kani) is only set by cargo-kani)",
            baseline_off_cmd="cd /repo && cargo test --workspace --no-fail-fast --offline",
            source_commits=[],
            add_only=True,
        ),
        engines=[
            dict(name="A-kani", path="lib/check.py + harness/", serves_properties=sorted(props.PROPS), kind_free_text="Kani 0.68/CBMC 6.11 bounded model checking of injected unit harnesses; counterexamples replayed natively (no stubs) before being reported"),
            dict(name="B-asm2smt", path="lib/asmsym.py", serves_properties=["C01", "C15"], kind_free_text="own x86-64 inline-asm symbolic executor -> z3 (cvc5 cross-check in thorough tier)"),
            dict(name="C-mir2smt", path="lib/mirsmt.py", serves_properties=["C02", "C03", "C05", "C06", "C07"], kind_free_text="own translator from the nightly MIR dump of scalar kernels to SMT-LIB (z3, cvc5)"),
        ],
        checks=checks,
        not_applicable=na,
        notes="All claims are bounded (operand shapes enumerated, digit contents fully symbolic); see evidence coverage.bounds / outside_claim.",
    )
    (HERE.parent / "MANIFEST.json").write_text(json.dumps(m, indent=1) + "\n")
    import jsonschema
    jsonschema.validate(m, json.load(open("/root/.vp/MANIFEST.schema.json")))
    print("MANIFEST ok:", len(checks), "checks,", len(na), "not applicable")

main()
